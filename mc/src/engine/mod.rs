//! Exploration engine: parallel driver, counters, violation collection, known-finding
//! matching, evidence and replay writers.

pub mod isolate;
pub mod json;

use json::J;
use std::cell::{Cell, RefCell};
use std::collections::{BTreeMap, HashSet};
use std::panic::{catch_unwind, AssertUnwindSafe};
use std::path::PathBuf;
use std::sync::atomic::{AtomicBool, AtomicUsize, Ordering};
use std::sync::Mutex;
use std::time::{Duration, Instant};

#[derive(Clone, Copy, PartialEq, Debug)]
pub enum Tier {
    Quick,
    Thorough,
}

impl Tier {
    pub fn name(self) -> &'static str {
        match self {
            Tier::Quick => "quick",
            Tier::Thorough => "thorough",
        }
    }
    pub fn quick(self) -> bool {
        self == Tier::Quick
    }
}

/// One violating case. `case` is the check's own replay encoding, `sig` a coarse
/// signature (call kind + failing clause) used to keep distinct counterexamples,
/// `finding` the id of the known-findings predicate that recognises the cause (if any).
#[derive(Clone, Debug)]
pub struct Violation {
    pub sig: String,
    pub case: String,
    pub detail: String,
    pub finding: Option<String>,
}

impl Violation {
    pub fn new<S: Into<String>, C: Into<String>, D: Into<String>>(sig: S, case: C, detail: D) -> Violation {
        Violation { sig: sig.into(), case: case.into(), detail: detail.into(), finding: None }
    }
    pub fn finding(mut self, f: Option<&str>) -> Violation {
        self.finding = f.map(|s| s.to_string());
        self
    }
}

pub trait Check: Sync {
    fn id(&self) -> &'static str;
    fn title(&self) -> &'static str;
    /// explore; report through `run`
    fn run(&self, run: &Run);
    /// re-execute one case outside the explorer
    fn replay(&self, case: &str) -> Result<Option<Violation>, String>;
}

const OUTCOME_CAP: usize = 1 << 20;

/// Per-thread accumulator, merged into the Run when the thread finishes.
pub struct Local {
    pub states: u64,
    pub transitions: u64,
    pub traces: u64,
    pub evals: u64,
    pub nontrivial: u64,
    outcomes: HashSet<u64>,
    outcomes_capped: bool,
    counters: BTreeMap<&'static str, u64>,
}

impl Local {
    fn new() -> Local {
        Local { states: 0, transitions: 0, traces: 0, evals: 0, nontrivial: 0, outcomes: HashSet::new(), outcomes_capped: false, counters: BTreeMap::new() }
    }
    pub fn outcome(&mut self, h: u64) {
        if self.outcomes.len() < OUTCOME_CAP {
            self.outcomes.insert(h);
        } else if !self.outcomes.contains(&h) {
            self.outcomes_capped = true;
        }
    }
    pub fn count(&mut self, k: &'static str, n: u64) {
        *self.counters.entry(k).or_insert(0) += n;
    }
}

pub fn hash64<T: std::hash::Hash>(t: &T) -> u64 {
    use std::hash::Hasher;
    // fixed keys: deterministic across runs
    #[allow(deprecated)]
    let mut h = std::hash::SipHasher::new_with_keys(0x5eed, 0xc0ffee);
    t.hash(&mut h);
    h.finish()
}

struct Shared {
    states: u64,
    transitions: u64,
    traces: u64,
    evals: u64,
    nontrivial: u64,
    outcomes: HashSet<u64>,
    outcomes_capped: bool,
    counters: BTreeMap<String, u64>,
    violations: Vec<(usize, Violation)>,
    violation_count: u64,
    sig_counts: BTreeMap<String, u64>,
    samples: Vec<String>,
    bounds: Vec<(String, String)>,
    assumptions: Vec<String>,
    machinery_errors: Vec<String>,
}

pub struct Run {
    pub id: &'static str,
    pub tier: Tier,
    pub seed: i64,
    pub root: PathBuf,
    pub threads: usize,
    start: Instant,
    deadline: Instant,
    /// the same cap counted in CPU time of this process (all threads): under load from other
    /// processes the wall clock says nothing about how much was explored
    cpu_cap_ticks: u64,
    last_cpu_check: Mutex<Instant>,
    expired: AtomicBool,
    sh: Mutex<Shared>,
    rule: Mutex<String>,
}

thread_local! {
    static QUIET: Cell<bool> = Cell::new(false);
    static LAST_PANIC: RefCell<Option<String>> = RefCell::new(None);
}

pub fn install_panic_hook() {
    let default = std::panic::take_hook();
    std::panic::set_hook(Box::new(move |info| {
        let loc = info.location().map(|l| format!("{}:{}", l.file(), l.line())).unwrap_or_default();
        let msg = if let Some(s) = info.payload().downcast_ref::<&str>() {
            s.to_string()
        } else if let Some(s) = info.payload().downcast_ref::<String>() {
            s.clone()
        } else {
            "<non-string panic>".to_string()
        };
        if QUIET.with(|q| q.get()) {
            LAST_PANIC.with(|l| *l.borrow_mut() = Some(format!("{} @ {}", msg, short_loc(&loc))));
        } else {
            default(info);
        }
    }));
}

fn short_loc(loc: &str) -> String {
    // strip the registry prefix so that locations are stable across machines
    if let Some(i) = loc.find("/sw-composite-") {
        return loc[i + 1..].to_string();
    }
    if let Some(i) = loc.find("/lyon_geom-") {
        return loc[i + 1..].to_string();
    }
    if let Some(i) = loc.find("/euclid-") {
        return loc[i + 1..].to_string();
    }
    if let Some(i) = loc.find("/repo/") {
        return loc[i + 6..].to_string();
    }
    loc.to_string()
}

/// Run subject code; a panic is returned as Err("message @ file:line").
pub fn guard<T, F: FnOnce() -> T>(f: F) -> Result<T, String> {
    let prev = QUIET.with(|q| q.replace(true));
    let r = catch_unwind(AssertUnwindSafe(f));
    QUIET.with(|q| q.set(prev));
    match r {
        Ok(v) => Ok(v),
        Err(_) => Err(LAST_PANIC.with(|l| l.borrow_mut().take()).unwrap_or_else(|| "panic".to_string())),
    }
}

impl Run {
    pub fn new(id: &'static str, tier: Tier, root: PathBuf) -> Run {
        let seed = std::env::var("VERIF_SEED").ok().and_then(|s| s.parse().ok()).unwrap_or(0);
        let threads = std::env::var("VERIF_THREADS").ok().and_then(|s| s.parse().ok()).unwrap_or_else(|| std::thread::available_parallelism().map(|n| n.get()).unwrap_or(8).min(16));
        let cap = std::env::var("VERIF_WALL_CAP_S").ok().and_then(|s| s.parse().ok()).unwrap_or(if tier.quick() { 150u64 } else { 7200u64 });
        let start = Instant::now();
        Run {
            id,
            tier,
            seed,
            root,
            threads,
            start,
            // the wall clock only as a backstop (ten times the cap); the cap itself is CPU time
            deadline: start + Duration::from_secs(cap * 10),
            cpu_cap_ticks: cap * 100 * threads as u64,
            last_cpu_check: Mutex::new(start),
            expired: AtomicBool::new(false),
            sh: Mutex::new(Shared {
                states: 0,
                transitions: 0,
                traces: 0,
                evals: 0,
                nontrivial: 0,
                outcomes: HashSet::new(),
                outcomes_capped: false,
                counters: BTreeMap::new(),
                violations: Vec::new(),
                violation_count: 0,
                sig_counts: BTreeMap::new(),
                samples: Vec::new(),
                bounds: Vec::new(),
                assumptions: Vec::new(),
                machinery_errors: Vec::new(),
            }),
            rule: Mutex::new(String::new()),
        }
    }

    /// true once the wall-clock safety cap has fired; explorations stop early and the
    /// evidence says exhaustive:false
    pub fn expired(&self) -> bool {
        if self.expired.load(Ordering::Relaxed) {
            return true;
        }
        let now = Instant::now();
        if now > self.deadline {
            self.expired.store(true, Ordering::Relaxed);
            return true;
        }
        // CPU time of the process (utime + stime, 100 ticks per second), looked at five times a second
        if let Ok(mut last) = self.last_cpu_check.try_lock() {
            if now.duration_since(*last) > Duration::from_millis(200) {
                *last = now;
                let ticks = std::fs::read_to_string("/proc/self/stat").ok().and_then(|s| {
                    let rest = s[s.rfind(')')? + 1..].to_string();
                    let f: Vec<&str> = rest.split_whitespace().collect();
                    Some(f.get(11)?.parse::<u64>().ok()? + f.get(12)?.parse::<u64>().ok()?)
                });
                if ticks.map_or(false, |t| t > self.cpu_cap_ticks) {
                    self.expired.store(true, Ordering::Relaxed);
                    return true;
                }
            }
        }
        false
    }

    pub fn rule(&self, r: &str) {
        *self.rule.lock().unwrap() = r.to_string();
    }
    pub fn bound(&self, k: &str, v: String) {
        if std::env::var("VERIF_TIMING").is_ok() {
            eprintln!("[{:8.1} s] {}", self.start.elapsed().as_secs_f64(), k);
        }
        self.sh.lock().unwrap().bounds.push((k.to_string(), v));
    }
    pub fn assume(&self, a: &str) {
        self.sh.lock().unwrap().assumptions.push(a.to_string());
    }
    pub fn sample(&self, s: String) {
        let mut sh = self.sh.lock().unwrap();
        if sh.samples.len() < 8 {
            sh.samples.push(s);
        }
    }
    pub fn want_sample(&self) -> bool {
        self.sh.lock().unwrap().samples.len() < 8
    }
    /// the exploration was cut short on purpose (violations already found): not exhaustive
    pub fn machinery_note_incomplete(&self) {
        self.expired.store(true, Ordering::Relaxed);
    }
    pub fn machinery_error(&self, s: String) {
        self.sh.lock().unwrap().machinery_errors.push(s);
    }

    /// `shard` orders violations deterministically (independent of thread timing)
    pub fn report(&self, shard: usize, v: Violation) {
        let mut sh = self.sh.lock().unwrap();
        sh.violation_count += 1;
        let key = format!("{}|{}", v.finding.clone().unwrap_or_default(), v.sig);
        let c = sh.sig_counts.entry(key).or_insert(0);
        *c += 1;
        // keep the earliest (by shard) few of each signature
        if *c <= 3 || sh.violations.len() < 64 {
            sh.violations.push((shard, v));
        }
    }

    pub fn violations_so_far(&self) -> u64 {
        self.sh.lock().unwrap().violation_count
    }

    fn merge(&self, l: Local) {
        let mut sh = self.sh.lock().unwrap();
        sh.states += l.states;
        sh.transitions += l.transitions;
        sh.traces += l.traces;
        sh.evals += l.evals;
        sh.nontrivial += l.nontrivial;
        sh.outcomes_capped |= l.outcomes_capped;
        for h in l.outcomes {
            if sh.outcomes.len() < 4 * OUTCOME_CAP {
                sh.outcomes.insert(h);
            } else {
                sh.outcomes_capped = true;
            }
        }
        for (k, v) in l.counters {
            *sh.counters.entry(k.to_string()).or_insert(0) += v;
        }
    }

    /// Static work split: item i of n is processed by whichever thread fetches it, but all
    /// counts are sums over items, so totals do not depend on timing.
    pub fn par<F: Fn(usize, &mut Local) + Sync>(&self, n: usize, f: F) {
        let next = AtomicUsize::new(0);
        let nthreads = self.threads.min(n.max(1));
        // watchdog: the work item each worker is on and since when; a subject that does not
        // return (the explorers run the subject in-process) is reported instead of hanging the check
        // (work item, start, thread id, CPU ticks of the thread at the start)
        let slots: Vec<Mutex<Option<(usize, Instant, u64, u64)>>> = (0..nthreads).map(|_| Mutex::new(None)).collect();
        fn task_ticks(tid: u64) -> Option<u64> {
            let s = std::fs::read_to_string(format!("/proc/self/task/{}/stat", tid)).ok()?;
            let rest = &s[s.rfind(')')? + 1..];
            let f: Vec<&str> = rest.split_whitespace().collect();
            Some(f.get(11)?.parse::<u64>().ok()? + f.get(12)?.parse::<u64>().ok()?)
        }
        let running = AtomicUsize::new(nthreads);
        let stall = Duration::from_secs(std::env::var("VERIF_STALL_S").ok().and_then(|s| s.parse().ok()).unwrap_or(if self.tier.quick() { 90u64 } else { 1800u64 }));
        std::thread::scope(|s| {
            for t in 0..nthreads {
                let slot = &slots[t];
                let (next, running, f) = (&next, &running, &f);
                // (a roomy stack: some oracles recurse once per path op, and paths reach 10^5 ops)
                let _ = std::thread::Builder::new().stack_size(1 << 30).spawn_scoped(s, move || {
                    let mut local = Local::new();
                    // this thread's kernel id, so that the watchdog can read its CPU time
                    let tid: u64 = std::fs::read_link("/proc/thread-self").ok().and_then(|p| p.file_name().and_then(|n| n.to_str().and_then(|n| n.parse().ok()))).unwrap_or(0);
                    loop {
                        let i = next.fetch_add(1, Ordering::Relaxed);
                        if i >= n {
                            break;
                        }
                        if self.expired() {
                            local.count("items_skipped_wall_cap", 1);
                            continue;
                        }
                        *slot.lock().unwrap() = Some((i, Instant::now(), tid, task_ticks(tid).unwrap_or(0)));
                        let r = catch_unwind(AssertUnwindSafe(|| f(i, &mut local)));
                        *slot.lock().unwrap() = None;
                        if let Err(_) = r {
                            self.machinery_error(format!("harness panic in work item {} (unguarded)", i));
                        }
                    }
                    self.merge(local);
                    running.fetch_sub(1, Ordering::SeqCst);
                }).expect("spawn worker");
            }
            let (slots, running) = (&slots, &running);
            s.spawn(move || {
                while running.load(Ordering::SeqCst) > 0 {
                    std::thread::sleep(Duration::from_millis(200));
                    for slot in slots.iter() {
                        let v = *slot.lock().unwrap();
                        if let Some((i, t0, tid, c0)) = v {
                            // hung = past the stall limit in wall time *and* the thread has really
                            // been running that long (a thread starved by other load is not hung);
                            // 20 stall limits of wall time without returning count as well
                            if t0.elapsed() > stall {
                                let used = task_ticks(tid).map(|t| t.saturating_sub(c0) as f64 / 100.0);
                                let busy = used.map_or(true, |u| u > stall.as_secs_f64() * 0.8);
                                if busy || t0.elapsed() > stall * 20 {
                                    self.report_hang(i, t0.elapsed());
                                }
                            }
                        }
                    }
                }
            });
        });
    }

    /// A work item has not returned within the stall limit: the subject hangs (or is slower by
    /// orders of magnitude than on the unchanged tree). Written out as a violation; the process
    /// ends here because the hung thread cannot be interrupted.
    fn report_hang(&self, item: usize, after: Duration) -> ! {
        let family = self.sh.lock().map(|sh| sh.bounds.last().map(|b| b.0.clone()).unwrap_or_default()).unwrap_or_default();
        let dir = self.root.join("replays").join(self.id);
        let _ = std::fs::remove_dir_all(&dir);
        let _ = std::fs::create_dir_all(&dir);
        let path = dir.join("hang.scene");
        let body = format!(
            "property={}\ntier={}\nsig=hang/subject-did-not-return\ncase=hang family={:?} work_item={}\n--- detail\nwork item {} of the family {:?} had not returned after {:.0} s (stall limit; the whole tier normally takes less); the cases of a work item are enumerated in a fixed order, so rerunning the tier reproduces it\n",
            self.id,
            self.tier.name(),
            family,
            item,
            item,
            family,
            after.as_secs_f64()
        );
        let _ = std::fs::write(&path, body);
        let wall = self.start.elapsed().as_secs_f64();
        let ev = J::obj()
            .put("property_id", J::s(self.id))
            .put("tier", J::s(self.tier.name()))
            .put("seed", J::Int(self.seed))
            .put("level", J::s("model_checking"))
            .put(
                "coverage",
                J::obj()
                    // the interrupted run's counters live in the worker threads and are lost: only
                    // the work item that hung is counted
                    .put("states", J::Int(1))
                    .put("transitions", J::Int(1))
                    .put("traces_validated_against_impl", J::Int(0))
                    .put("evaluations", J::Int(1))
                    .put("distinct_nontrivial", J::Int(1))
                    .put("rule", J::s(self.rule.lock().map(|r| r.clone()).unwrap_or_default()))
                    .put("samples", J::Arr(vec![J::s(format!("hang family={:?} work_item={}", family, item))]))
                    .put("exhaustive", J::Bool(false))
                    .put("hang", J::s(format!("work item {} of family {:?} did not return within {:.0} s; counts of the interrupted run are not available", item, family, after.as_secs_f64()))),
            )
            .put("wall_s", J::Num((wall * 1000.0).round() / 1000.0))
            .put("violations", J::Int(1));
        let evdir = self.root.join("evidence");
        let _ = std::fs::create_dir_all(&evdir);
        let _ = std::fs::write(evdir.join(format!("{}.json", self.id)), ev.render());
        println!("VIOLATION property={} replay={}", self.id, path.display());
        println!("FAIL {} tier={} hang: work item {} of family {:?} did not return within {:.0} s", self.id, self.tier.name(), item, family, after.as_secs_f64());
        std::process::exit(1);
    }

    /// single-threaded section with its own Local
    pub fn seq<F: FnOnce(&mut Local)>(&self, f: F) {
        let mut local = Local::new();
        f(&mut local);
        self.merge(local);
    }

    /// Write evidence and replay files, print verdict lines, return the exit code.
    pub fn finish(&self, check: &dyn Check) -> i32 {
        let wall = self.start.elapsed().as_secs_f64();
        let mut sh = self.sh.lock().unwrap();
        let known = load_known(&self.root);
        // shortest counterexample first, then by shard (deterministic work-split order)
        sh.violations.sort_by(|a, b| (a.1.case.len(), a.0).cmp(&(b.1.case.len(), b.0)));

        let mut real: Vec<&Violation> = Vec::new();
        let mut known_hits: BTreeMap<String, (u64, String)> = BTreeMap::new();
        // counts per finding id over *all* violations (not only the stored ones)
        let mut finding_totals: BTreeMap<String, u64> = BTreeMap::new();
        let mut real_total: u64 = 0;
        for (key, n) in sh.sig_counts.iter() {
            let fid = key.split('|').next().unwrap_or("");
            let is_known = !fid.is_empty() && known.iter().any(|k| k.property == self.id && k.id == fid && k.status == "open");
            if is_known {
                *finding_totals.entry(fid.to_string()).or_insert(0) += n;
            } else {
                real_total += n;
            }
        }
        for (_, v) in sh.violations.iter() {
            let hit = v.finding.as_ref().and_then(|fid| known.iter().find(|k| k.property == self.id && &k.id == fid && k.status == "open"));
            match hit {
                Some(k) => {
                    known_hits.entry(k.id.clone()).or_insert((*finding_totals.get(&k.id).unwrap_or(&0), k.what.clone()));
                }
                None => real.push(v),
            }
        }

        if std::env::var("VERIF_DUMP_SIGS").is_ok() {
            let mut seen = HashSet::new();
            for (_, v) in sh.violations.iter() {
                if seen.insert(format!("{:?}|{}", v.finding, v.sig)) {
                    eprintln!("SIG {:?} {}\n    case: {}\n    detail: {}", v.finding, v.sig, v.case, v.detail.lines().next().unwrap_or(""));
                }
            }
        }
        // keep up to five violations with pairwise different signatures
        let mut chosen: Vec<&Violation> = Vec::new();
        let mut seen = HashSet::new();
        for v in real.iter() {
            if seen.insert(v.sig.clone()) {
                chosen.push(v);
                if chosen.len() >= 5 {
                    break;
                }
            }
        }

        // stale replay files of earlier runs of this property would be misleading
        let _ = std::fs::remove_dir_all(self.root.join("replays").join(self.id));
        let mut exit = 0;
        let mut lines = Vec::new();
        let mut machinery = sh.machinery_errors.clone();
        if !chosen.is_empty() {
            let dir = self.root.join("replays").join(self.id);
            let _ = std::fs::create_dir_all(&dir);
            for (n, v) in chosen.iter().enumerate() {
                // replay twice outside the explorer before believing the violation
                let r1 = check.replay(&v.case);
                let r2 = check.replay(&v.case);
                let same = match (&r1, &r2) {
                    (Ok(Some(a)), Ok(Some(b))) => a.detail == b.detail && a.sig == b.sig,
                    _ => false,
                };
                if !same {
                    machinery.push(format!("violation did not replay deterministically: sig={} case={} r1={:?} r2={:?}", v.sig, v.case, r1.as_ref().map(|o| o.as_ref().map(|x| x.sig.clone())), r2.as_ref().map(|o| o.as_ref().map(|x| x.sig.clone()))));
                    continue;
                }
                let path = dir.join(format!("{}.scene", n));
                let body = format!("property={}\ntier={}\nsig={}\ncase={}\n--- detail\n{}\n", self.id, self.tier.name(), v.sig, v.case, v.detail);
                if let Err(e) = std::fs::write(&path, body) {
                    machinery.push(format!("cannot write {}: {}", path.display(), e));
                    continue;
                }
                lines.push(format!("VIOLATION property={} replay={}", self.id, path.display()));
                exit = 1;
            }
        }
        for (fid, (n, what)) in known_hits.iter() {
            lines.push(format!("KNOWN-FINDING: property={} {} [{}; {} explored cases hit it]", self.id, what, fid, n));
        }
        if !machinery.is_empty() {
            for m in machinery.iter().take(10) {
                eprintln!("MACHINERY-ERROR property={} {}", self.id, m);
            }
            if exit == 0 {
                exit = 2;
            }
        }

        let exhaustive = !self.expired.load(Ordering::Relaxed) && machinery.is_empty();
        let mut cov = J::obj()
            .put("states", J::Int(sh.states as i64))
            .put("transitions", J::Int(sh.transitions as i64))
            .put("traces_validated_against_impl", J::Int(sh.traces as i64))
            .put("evaluations", J::Int(sh.evals as i64))
            .put("distinct_nontrivial", J::Int(sh.nontrivial as i64))
            .put("rule", J::s(self.rule.lock().unwrap().clone()))
            .put("samples", J::Arr(sh.samples.iter().map(|s| J::s(s.clone())).collect()))
            .put("exhaustive", J::Bool(exhaustive))
            .put("distinct_observed_outcomes", J::Int(sh.outcomes.len() as i64))
            .put("distinct_observed_outcomes_is_lower_bound", J::Bool(sh.outcomes_capped))
            .put("bounds_completed", J::Obj(sh.bounds.iter().map(|(k, v)| (k.clone(), J::s(v.clone()))).collect()))
            .put("counters", J::from_map(&sh.counters))
            .put("threads", J::Int(self.threads as i64));
        cov = cov.put(
            "known_findings_hit",
            J::Obj(known_hits.iter().map(|(k, (n, w))| (k.clone(), J::obj().put("cases", J::Int(*n as i64)).put("what", J::s(w.clone())))).collect()),
        );
        cov = cov.put("violation_signatures", J::Obj(sh.sig_counts.iter().map(|(k, v)| (k.clone(), J::Int(*v as i64))).collect()));
        if !machinery.is_empty() {
            cov = cov.put("machinery_errors", J::Arr(machinery.iter().take(10).map(|s| J::s(s.clone())).collect()));
        }
        let ev = J::obj()
            .put("property_id", J::s(self.id))
            .put("title", J::s(check.title()))
            .put("tier", J::s(self.tier.name()))
            .put("seed", J::Int(self.seed))
            .put("level", J::s("model_checking"))
            .put("coverage", cov)
            .put("assumptions", J::Arr(sh.assumptions.iter().map(|s| J::s(s.clone())).collect()))
            .put("wall_s", J::Num((wall * 1000.0).round() / 1000.0))
            .put("violations", J::Int(real_total as i64));
        let evdir = self.root.join("evidence");
        let _ = std::fs::create_dir_all(&evdir);
        let evpath = evdir.join(format!("{}.json", self.id));
        if let Err(e) = std::fs::write(&evpath, ev.render()) {
            eprintln!("MACHINERY-ERROR cannot write evidence {}: {}", evpath.display(), e);
            if exit == 0 {
                exit = 2;
            }
        }

        for l in &lines {
            println!("{}", l);
        }
        println!(
            "{} {} tier={} states={} transitions={} traces={} nontrivial={} outcomes={}{} violations={} known_hits={} wall={:.1}s exhaustive={}",
            if exit == 0 { "PASS" } else if exit == 1 { "FAIL" } else { "ERROR" },
            self.id,
            self.tier.name(),
            sh.states,
            sh.transitions,
            sh.traces,
            sh.nontrivial,
            sh.outcomes.len(),
            if sh.outcomes_capped { "+" } else { "" },
            real_total,
            finding_totals.values().sum::<u64>(),
            wall,
            exhaustive
        );
        exit
    }
}

pub struct Known {
    pub property: String,
    pub id: String,
    pub status: String,
    pub what: String,
}

pub fn load_known(root: &PathBuf) -> Vec<Known> {
    let p = root.join("known_findings.json");
    let txt = match std::fs::read_to_string(&p) {
        Ok(t) => t,
        Err(_) => return Vec::new(),
    };
    let j = match json::parse(&txt) {
        Ok(j) => j,
        Err(e) => {
            eprintln!("MACHINERY-ERROR cannot parse known_findings.json: {}", e);
            std::process::exit(2);
        }
    };
    let mut out = Vec::new();
    if let Some(arr) = j.get("findings").and_then(|f| f.as_arr()) {
        for f in arr {
            let g = |k: &str| f.get(k).and_then(|v| v.as_str()).unwrap_or("").to_string();
            out.push(Known { property: g("property"), id: g("id"), status: g("status"), what: g("what") });
        }
    }
    out
}

/// parse "k=v k=v" case strings
pub fn kv(case: &str) -> BTreeMap<String, String> {
    let mut m = BTreeMap::new();
    for tok in case.split_whitespace() {
        if let Some(i) = tok.find('=') {
            m.insert(tok[..i].to_string(), tok[i + 1..].to_string());
        }
    }
    m
}

pub fn kv_i(m: &BTreeMap<String, String>, k: &str) -> Result<i64, String> {
    m.get(k).ok_or_else(|| format!("missing key {}", k))?.parse::<i64>().map_err(|e| format!("{}: {}", k, e))
}

pub fn kv_s<'a>(m: &'a BTreeMap<String, String>, k: &str) -> Result<&'a str, String> {
    m.get(k).map(|s| s.as_str()).ok_or_else(|| format!("missing key {}", k))
}

pub fn kv_list(m: &BTreeMap<String, String>, k: &str) -> Result<Vec<i64>, String> {
    let s = kv_s(m, k)?;
    if s.is_empty() {
        return Ok(Vec::new());
    }
    s.split(',').map(|t| t.parse::<i64>().map_err(|e| format!("{}: {}", k, e))).collect()
}


/// The exploring process was killed by a signal (a subject that corrupts memory can take the
/// in-process explorer down with it): recorded like a hang - a violation whose replay re-runs the tier.
pub fn report_crash(id: &str, tier: Tier, root: &std::path::Path, signal: i32, wall: f64) -> ! {
    // only the signals a faulting subject raises in its own process are a verdict (SIGILL 4, SIGABRT 6,
    // SIGBUS 7, SIGFPE 8, SIGSEGV 11); a process killed from outside (SIGKILL by the out-of-memory
    // killer, SIGTERM, SIGINT ...) says nothing about the subject: machinery error, exit 2
    if ![4, 6, 7, 8, 11].contains(&signal) {
        eprintln!("MACHINERY-ERROR property={} tier={} the exploring process was killed from outside by signal {} after {:.1} s; no verdict", id, tier.name(), signal, wall);
        std::process::exit(2);
    }
    let dir = root.join("replays").join(id);
    let _ = std::fs::remove_dir_all(&dir);
    let _ = std::fs::create_dir_all(&dir);
    let path = dir.join("crash.scene");
    let body = format!("property={}\ntier={}\nsig=crash/explorer-killed-by-signal-{}\ncase=hang crash signal={}\n--- detail\nthe exploring process was killed by signal {} while running the subject in-process (memory corruption, stack exhaustion or an abort inside the subject); the cases are enumerated in a fixed order, so rerunning the tier reproduces it\n", id, tier.name(), signal, signal, signal);
    let _ = std::fs::write(&path, body);
    let ev = J::obj()
        .put("property_id", J::s(id))
        .put("tier", J::s(tier.name()))
        .put("seed", J::Int(std::env::var("VERIF_SEED").ok().and_then(|s| s.parse().ok()).unwrap_or(0)))
        .put("level", J::s("model_checking"))
        .put(
            "coverage",
            J::obj()
                .put("states", J::Int(1))
                .put("transitions", J::Int(1))
                .put("traces_validated_against_impl", J::Int(0))
                .put("evaluations", J::Int(1))
                .put("distinct_nontrivial", J::Int(1))
                .put("rule", J::s("(the run was killed; see the crash record)"))
                .put("samples", J::Arr(vec![J::s(format!("crash signal={}", signal))]))
                .put("exhaustive", J::Bool(false))
                .put("hang", J::s(format!("the exploring process was killed by signal {}; counts of the interrupted run are not available", signal))),
        )
        .put("wall_s", J::Num((wall * 1000.0).round() / 1000.0))
        .put("violations", J::Int(1));
    let evdir = root.join("evidence");
    let _ = std::fs::create_dir_all(&evdir);
    let _ = std::fs::write(evdir.join(format!("{}.json", id)), ev.render());
    println!("VIOLATION property={} replay={}", id, path.display());
    println!("FAIL {} tier={} crash: the exploring process was killed by signal {}", id, tier.name(), signal);
    std::process::exit(1);
}
