//! Minimal JSON value, writer and parser (the harness may only use crates that are
//! already pinned in /repo/Cargo.lock, so no serde).

use std::collections::BTreeMap;
use std::fmt::Write;

#[derive(Clone, Debug, PartialEq)]
pub enum J {
    Null,
    Bool(bool),
    Int(i64),
    Num(f64),
    Str(String),
    Arr(Vec<J>),
    Obj(Vec<(String, J)>),
}

impl J {
    pub fn s<S: Into<String>>(s: S) -> J {
        J::Str(s.into())
    }
    pub fn obj() -> J {
        J::Obj(Vec::new())
    }
    pub fn put<K: Into<String>>(mut self, k: K, v: J) -> J {
        if let J::Obj(ref mut o) = self {
            o.push((k.into(), v));
        }
        self
    }
    pub fn get(&self, k: &str) -> Option<&J> {
        match self {
            J::Obj(o) => o.iter().find(|(kk, _)| kk == k).map(|(_, v)| v),
            _ => None,
        }
    }
    pub fn as_str(&self) -> Option<&str> {
        match self {
            J::Str(s) => Some(s),
            _ => None,
        }
    }
    pub fn as_arr(&self) -> Option<&[J]> {
        match self {
            J::Arr(a) => Some(a),
            _ => None,
        }
    }
    pub fn from_map(m: &BTreeMap<String, u64>) -> J {
        J::Obj(m.iter().map(|(k, v)| (k.clone(), J::Int(*v as i64))).collect())
    }

    pub fn render(&self) -> String {
        let mut s = String::new();
        self.write(&mut s, 0);
        s.push('\n');
        s
    }

    fn write(&self, out: &mut String, ind: usize) {
        match self {
            J::Null => out.push_str("null"),
            J::Bool(b) => out.push_str(if *b { "true" } else { "false" }),
            J::Int(i) => {
                let _ = write!(out, "{}", i);
            }
            J::Num(f) => {
                if f.is_finite() {
                    let t = format!("{}", f);
                    out.push_str(&t);
                    if !t.contains('.') && !t.contains('e') {
                        out.push_str(".0");
                    }
                } else {
                    out.push_str("null");
                }
            }
            J::Str(s) => esc(s, out),
            J::Arr(a) => {
                if a.is_empty() {
                    out.push_str("[]");
                    return;
                }
                out.push('[');
                for (i, v) in a.iter().enumerate() {
                    if i > 0 {
                        out.push(',');
                    }
                    out.push('\n');
                    pad(out, ind + 1);
                    v.write(out, ind + 1);
                }
                out.push('\n');
                pad(out, ind);
                out.push(']');
            }
            J::Obj(o) => {
                if o.is_empty() {
                    out.push_str("{}");
                    return;
                }
                out.push('{');
                for (i, (k, v)) in o.iter().enumerate() {
                    if i > 0 {
                        out.push(',');
                    }
                    out.push('\n');
                    pad(out, ind + 1);
                    esc(k, out);
                    out.push_str(": ");
                    v.write(out, ind + 1);
                }
                out.push('\n');
                pad(out, ind);
                out.push('}');
            }
        }
    }
}

fn pad(out: &mut String, n: usize) {
    for _ in 0..n {
        out.push(' ');
    }
}

fn esc(s: &str, out: &mut String) {
    out.push('"');
    for c in s.chars() {
        match c {
            '"' => out.push_str("\\\""),
            '\\' => out.push_str("\\\\"),
            '\n' => out.push_str("\\n"),
            '\r' => out.push_str("\\r"),
            '\t' => out.push_str("\\t"),
            c if (c as u32) < 0x20 => {
                let _ = write!(out, "\\u{:04x}", c as u32);
            }
            c => out.push(c),
        }
    }
    out.push('"');
}

pub fn parse(src: &str) -> Result<J, String> {
    let b: Vec<char> = src.chars().collect();
    let mut p = P { b: &b, i: 0 };
    p.ws();
    let v = p.val()?;
    p.ws();
    if p.i != b.len() {
        return Err(format!("trailing data at {}", p.i));
    }
    Ok(v)
}

struct P<'a> {
    b: &'a [char],
    i: usize,
}

impl<'a> P<'a> {
    fn ws(&mut self) {
        while self.i < self.b.len() && self.b[self.i].is_whitespace() {
            self.i += 1;
        }
    }
    fn eat(&mut self, c: char) -> Result<(), String> {
        if self.i < self.b.len() && self.b[self.i] == c {
            self.i += 1;
            Ok(())
        } else {
            Err(format!("expected '{}' at {}", c, self.i))
        }
    }
    fn lit(&mut self, s: &str, v: J) -> Result<J, String> {
        for c in s.chars() {
            self.eat(c)?;
        }
        Ok(v)
    }
    fn val(&mut self) -> Result<J, String> {
        self.ws();
        if self.i >= self.b.len() {
            return Err("eof".into());
        }
        match self.b[self.i] {
            'n' => self.lit("null", J::Null),
            't' => self.lit("true", J::Bool(true)),
            'f' => self.lit("false", J::Bool(false)),
            '"' => Ok(J::Str(self.string()?)),
            '[' => {
                self.i += 1;
                let mut a = Vec::new();
                self.ws();
                if self.i < self.b.len() && self.b[self.i] == ']' {
                    self.i += 1;
                    return Ok(J::Arr(a));
                }
                loop {
                    a.push(self.val()?);
                    self.ws();
                    if self.i < self.b.len() && self.b[self.i] == ',' {
                        self.i += 1;
                        continue;
                    }
                    self.eat(']')?;
                    return Ok(J::Arr(a));
                }
            }
            '{' => {
                self.i += 1;
                let mut o = Vec::new();
                self.ws();
                if self.i < self.b.len() && self.b[self.i] == '}' {
                    self.i += 1;
                    return Ok(J::Obj(o));
                }
                loop {
                    self.ws();
                    let k = self.string()?;
                    self.ws();
                    self.eat(':')?;
                    let v = self.val()?;
                    o.push((k, v));
                    self.ws();
                    if self.i < self.b.len() && self.b[self.i] == ',' {
                        self.i += 1;
                        continue;
                    }
                    self.eat('}')?;
                    return Ok(J::Obj(o));
                }
            }
            _ => {
                let st = self.i;
                while self.i < self.b.len() && (self.b[self.i].is_ascii_digit() || "+-.eE".contains(self.b[self.i])) {
                    self.i += 1;
                }
                let t: String = self.b[st..self.i].iter().collect();
                if let Ok(i) = t.parse::<i64>() {
                    Ok(J::Int(i))
                } else {
                    t.parse::<f64>().map(J::Num).map_err(|_| format!("bad number '{}' at {}", t, st))
                }
            }
        }
    }
    fn string(&mut self) -> Result<String, String> {
        self.eat('"')?;
        let mut s = String::new();
        while self.i < self.b.len() {
            let c = self.b[self.i];
            self.i += 1;
            match c {
                '"' => return Ok(s),
                '\\' => {
                    let e = *self.b.get(self.i).ok_or("eof in escape")?;
                    self.i += 1;
                    match e {
                        'n' => s.push('\n'),
                        't' => s.push('\t'),
                        'r' => s.push('\r'),
                        'b' => s.push('\u{8}'),
                        'f' => s.push('\u{c}'),
                        'u' => {
                            let h: String = self.b[self.i..self.i + 4].iter().collect();
                            self.i += 4;
                            let cp = u32::from_str_radix(&h, 16).map_err(|e| e.to_string())?;
                            s.push(char::from_u32(cp).unwrap_or('?'));
                        }
                        o => s.push(o),
                    }
                }
                c => s.push(c),
            }
        }
        Err("unterminated string".into())
    }
}
