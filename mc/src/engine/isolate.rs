//! Process isolation for checks whose subject may abort or hang (C07): cases run in child
//! processes under an address-space limit; the child announces every case before running it,
//! the parent kills a child that stalls past the horizon or dies and attributes the failure
//! to the announced case, then resumes after it.

use std::io::{BufRead, BufReader, Write};
use std::process::{Command, Stdio};
use std::sync::mpsc;
use std::time::{Duration, Instant};

#[derive(Debug, Clone)]
pub enum ChildEvent {
    /// subject panic caught inside the child: (case index, message)
    Panic(usize, String),
    /// other per-case complaint raised by the child's oracle: (case index, clause, message)
    Complaint(usize, String, String),
    /// the child stalled on this case past the horizon and was killed
    Hang(usize),
    /// the child died (abort, signal, allocation failure) while running this case
    Died(usize, String),
}

#[derive(Default, Debug, Clone)]
pub struct GroupResult {
    pub events: Vec<ChildEvent>,
    pub cases: u64,
    pub transitions: u64,
    pub nontrivial: u64,
    pub outcomes: Vec<u64>,
    /// machinery problems (child could not be started, protocol error)
    pub errors: Vec<String>,
    /// the group was abandoned after this case because too many children stalled or died
    /// (each such event is reported; the cases after it were not run)
    pub aborted_after: Option<usize>,
}

/// Run one group of cases in child processes. `args` are passed to the current executable
/// followed by the start index; the child protocol is line based:
///   c <idx>            about to run case idx
///   p <idx> <msg>      case idx panicked (caught)
///   v <idx> <clause>|<msg>   case idx violates a per-case clause
///   o <hash>           an observed outcome hash
///   d <cases> <transitions> <nontrivial>   finished
/// user + system CPU time of a process in clock ticks (100 per second on Linux)
fn cpu_ticks(pid: u32) -> Option<u64> {
    let s = std::fs::read_to_string(format!("/proc/{}/stat", pid)).ok()?;
    let rest = &s[s.rfind(')')? + 1..];
    let f: Vec<&str> = rest.split_whitespace().collect();
    Some(f.get(11)?.parse::<u64>().ok()? + f.get(12)?.parse::<u64>().ok()?)
}

pub fn run_group(args: &[String], horizon: Duration, mem_kb: u64, first: usize, max_restarts: usize) -> GroupResult {
    let exe = std::env::current_exe().expect("current_exe");
    let mut res = GroupResult::default();
    let mut start = first;
    let mut restarts = 0;
    loop {
        let mut cmdline = format!("ulimit -v {} 2>/dev/null; exec \"$0\" \"$@\"", mem_kb);
        if mem_kb == 0 {
            cmdline = "exec \"$0\" \"$@\"".to_string();
        }
        let mut child = match Command::new("sh").arg("-c").arg(&cmdline).arg(&exe).args(args).arg(start.to_string()).stdout(Stdio::piped()).stderr(Stdio::null()).stdin(Stdio::null()).spawn() {
            Ok(c) => c,
            Err(e) => {
                res.errors.push(format!("cannot spawn child: {}", e));
                return res;
            }
        };
        let out = child.stdout.take().unwrap();
        let (tx, rx) = mpsc::channel::<String>();
        let reader = std::thread::spawn(move || {
            let br = BufReader::new(out);
            for line in br.lines() {
                match line {
                    Ok(l) => {
                        if tx.send(l).is_err() {
                            break;
                        }
                    }
                    Err(_) => break,
                }
            }
        });
        let mut current: Option<usize> = None;
        let mut last = Instant::now();
        let pid = child.id();
        let mut cpu_last = cpu_ticks(pid).unwrap_or(0);
        let mut finished = false;
        let mut hung = false;
        loop {
            match rx.recv_timeout(Duration::from_millis(100)) {
                Ok(l) => {
                    last = Instant::now();
                    cpu_last = cpu_ticks(pid).unwrap_or(cpu_last);
                    let mut it = l.splitn(3, ' ');
                    match (it.next(), it.next()) {
                        (Some("c"), Some(i)) => current = i.parse().ok(),
                        (Some("p"), Some(i)) => res.events.push(ChildEvent::Panic(i.parse().unwrap_or(0), it.next().unwrap_or("").to_string())),
                        (Some("v"), Some(i)) => {
                            let rest = it.next().unwrap_or("");
                            let (c, m) = rest.split_once('|').unwrap_or((rest, ""));
                            res.events.push(ChildEvent::Complaint(i.parse().unwrap_or(0), c.to_string(), m.to_string()));
                        }
                        (Some("o"), Some(h)) => {
                            if let Ok(h) = u64::from_str_radix(h, 16) {
                                res.outcomes.push(h);
                            }
                        }
                        (Some("d"), Some(n)) => {
                            res.cases += n.parse::<u64>().unwrap_or(0);
                            let rest = it.next().unwrap_or("");
                            let mut r = rest.split(' ');
                            res.transitions += r.next().and_then(|x| x.parse::<u64>().ok()).unwrap_or(0);
                            res.nontrivial += r.next().and_then(|x| x.parse::<u64>().ok()).unwrap_or(0);
                            finished = true;
                        }
                        _ => {}
                    }
                }
                Err(mpsc::RecvTimeoutError::Timeout) => {
                    // the horizon is measured in CPU time the child has used since its last line (a
                    // child that is merely starved by other load is not hung); a wall-clock limit
                    // of 20 horizons catches a child that neither runs nor reports
                    if last.elapsed() > horizon {
                        let used = cpu_ticks(pid).map(|t| t.saturating_sub(cpu_last)).unwrap_or(u64::MAX);
                        if used as f64 / 100.0 > horizon.as_secs_f64() || last.elapsed() > horizon * 20 {
                            hung = true;
                            let _ = child.kill();
                            break;
                        }
                    }
                }
                Err(mpsc::RecvTimeoutError::Disconnected) => break,
            }
        }
        let status = child.wait();
        let _ = reader.join();
        // drain anything that arrived between the last recv and the disconnect
        if finished {
            return res;
        }
        restarts += 1;
        let idx = match current {
            Some(i) => i,
            None => {
                res.errors.push(format!("child for {:?} ended before announcing a case (status {:?})", args, status));
                return res;
            }
        };
        if hung {
            res.events.push(ChildEvent::Hang(idx));
        } else {
            res.events.push(ChildEvent::Died(idx, format!("{:?}", status.map(|s| s.to_string()))));
        }
        // cases before idx were completed by this child but its summary line is lost: count them
        res.cases += (idx + 1 - start) as u64;
        start = idx + 1;
        if restarts >= max_restarts {
            res.aborted_after = Some(idx);
            return res;
        }
    }
}

/// child side: announce a case
pub struct Announcer {
    out: std::io::Stdout,
}

impl Announcer {
    pub fn new() -> Announcer {
        Announcer { out: std::io::stdout() }
    }
    pub fn line(&mut self, s: &str) {
        let mut l = self.out.lock();
        let _ = l.write_all(s.as_bytes());
        let _ = l.write_all(b"\n");
        let _ = l.flush();
    }
}
