//! raqote-mc: bounded exhaustive exploration of raqote's public API against reference
//! models. Usage: mc <Cnn> quick|thorough   |   mc replay <file>   |   mc list

mod checks;
mod engine;
mod model;
mod scene;

use engine::*;
use std::path::PathBuf;

/// Global allocator that keeps, per thread, the number of live heap bytes allocated by that thread
/// (C10 uses it: calls that draw nothing must not make a reused target grow).
pub struct Counting;

thread_local! {
    pub static LIVE_BYTES: std::cell::Cell<isize> = const { std::cell::Cell::new(0) };
}

unsafe impl std::alloc::GlobalAlloc for Counting {
    unsafe fn alloc(&self, l: std::alloc::Layout) -> *mut u8 {
        let p = std::alloc::System.alloc(l);
        if !p.is_null() {
            let _ = LIVE_BYTES.try_with(|c| c.set(c.get() + l.size() as isize));
        }
        p
    }
    unsafe fn dealloc(&self, p: *mut u8, l: std::alloc::Layout) {
        std::alloc::System.dealloc(p, l);
        let _ = LIVE_BYTES.try_with(|c| c.set(c.get() - l.size() as isize));
    }
    unsafe fn alloc_zeroed(&self, l: std::alloc::Layout) -> *mut u8 {
        let p = std::alloc::System.alloc_zeroed(l);
        if !p.is_null() {
            let _ = LIVE_BYTES.try_with(|c| c.set(c.get() + l.size() as isize));
        }
        p
    }
    unsafe fn realloc(&self, p: *mut u8, l: std::alloc::Layout, new_size: usize) -> *mut u8 {
        let q = std::alloc::System.realloc(p, l, new_size);
        if !q.is_null() {
            let _ = LIVE_BYTES.try_with(|c| c.set(c.get() + new_size as isize - l.size() as isize));
        }
        q
    }
}

#[global_allocator]
static ALLOC: Counting = Counting;

pub fn live_bytes() -> isize {
    LIVE_BYTES.with(|c| c.get())
}

fn root() -> PathBuf {
    std::env::var("VERIF_ROOT").map(PathBuf::from).unwrap_or_else(|_| PathBuf::from("/verif"))
}

fn main() {
    install_panic_hook();
    let args: Vec<String> = std::env::args().collect();
    if args.len() < 2 {
        eprintln!("usage: mc <Cnn> quick|thorough | mc replay <file> | mc list");
        std::process::exit(2);
    }
    let checks = checks::all();
    match args[1].as_str() {
        "c07-child" => std::process::exit(checks::c07::child_main(&args[2..])),
        "c07-one" => std::process::exit(checks::c07::one_main(&args[2..])),
        "list" => {
            for c in &checks {
                println!("{} {}", c.id(), c.title());
            }
        }
        "replay" => {
            let path = args.get(2).expect("replay <file>");
            let txt = std::fs::read_to_string(path).unwrap_or_else(|e| {
                eprintln!("cannot read {}: {}", path, e);
                std::process::exit(2)
            });
            let mut prop = String::new();
            let mut case = String::new();
            let mut tier = String::from("quick");
            for line in txt.lines() {
                if line.starts_with("---") {
                    break;
                }
                if let Some(v) = line.strip_prefix("tier=") {
                    tier = v.trim().to_string();
                }
                if let Some(v) = line.strip_prefix("property=") {
                    prop = v.trim().to_string();
                }
                if let Some(v) = line.strip_prefix("case=") {
                    case = v.trim().to_string();
                }
            }
            let c = checks.iter().find(|c| c.id() == prop).unwrap_or_else(|| {
                eprintln!("unknown property '{}' in {}", prop, path);
                std::process::exit(2)
            });
            if case.starts_with("hang ") {
                // a hang is recorded per work item, not per case: replaying it means running the
                // tier again (the enumeration order is fixed), with the same watchdog
                println!("hang record: re-running {} {} under the watchdog", prop, tier);
                let st = std::process::Command::new(std::env::current_exe().expect("own path")).arg(&prop).arg(&tier).status().expect("spawn self");
                std::process::exit(st.code().unwrap_or(2));
            }
            match c.replay(&case) {
                Ok(Some(v)) => {
                    println!("VIOLATION property={} replay={}", prop, path);
                    println!("sig={}\n{}", v.sig, v.detail);
                    if let Some(f) = v.finding {
                        println!("matches known-finding predicate: {}", f);
                    }
                    std::process::exit(1);
                }
                Ok(None) => {
                    println!("OK property={} case holds on the current tree", prop);
                }
                Err(e) => {
                    eprintln!("cannot replay: {}", e);
                    std::process::exit(2);
                }
            }
        }
        id => {
            let tier = match args.get(2).map(|s| s.as_str()).or(std::env::var("VERIF_TIER").ok().as_deref().map(|_| "env")) {
                Some("quick") => Tier::Quick,
                Some("thorough") => Tier::Thorough,
                Some("env") => {
                    if std::env::var("VERIF_TIER").unwrap() == "thorough" {
                        Tier::Thorough
                    } else {
                        Tier::Quick
                    }
                }
                _ => Tier::Quick,
            };
            let c = match checks.iter().find(|c| c.id() == id) {
                Some(c) => c,
                None => {
                    eprintln!("unknown check {}", id);
                    std::process::exit(2);
                }
            };
            // the exploration runs in a child of its own: a subject that corrupts memory takes the
            // in-process explorer down with it, and a process killed by a signal must still end in a
            // verdict line and an evidence file
            if std::env::var("VERIF_INNER").is_err() {
                use std::os::unix::process::ExitStatusExt;
                let t0 = std::time::Instant::now();
                let st = std::process::Command::new(std::env::current_exe().expect("own path")).args(&args[1..]).env("VERIF_INNER", "1").status().expect("spawn self");
                match (st.code(), st.signal()) {
                    (Some(code), _) => std::process::exit(code),
                    (None, sig) => engine::report_crash(c.id(), tier, &root(), sig.unwrap_or(0), t0.elapsed().as_secs_f64()),
                }
            }
            let run = Run::new(c.id(), tier, root());
            c.run(&run);
            let code = run.finish(c.as_ref());
            std::process::exit(code);
        }
    }
}
