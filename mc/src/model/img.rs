//! M-IMG: reference image sampler. Position of a device pixel in image space is computed in
//! f64 from the f32 matrices; the admissible results are those of the property's formulas at
//! any position within the fixed-point slack of the exact one.

use crate::scene::*;
use sw_composite::{alpha_mul, alpha_to_alpha256};

pub struct ImgModel<'a> {
    pub w: i32,
    pub h: i32,
    pub data: &'a [u32],
    pub repeat: bool,
    pub bilinear: bool,
    /// total sampling matrix (device -> image), f64, from CTM^-1 then the source transform
    pub m: [f64; 6],
    pub alpha256: u32,
    /// true when the f32 product is exactly an integer translation (fast path: exact texel)
    pub integer: bool,
}

pub fn mat_inverse(t: &[f64; 6]) -> Option<[f64; 6]> {
    let det = t[0] * t[3] - t[1] * t[2];
    if det == 0.0 || !det.is_finite() {
        return None;
    }
    let (a, b, c, d, e, f) = (t[0], t[1], t[2], t[3], t[4], t[5]);
    Some([d / det, -b / det, -c / det, a / det, (c * f - d * e) / det, (b * e - a * f) / det])
}

/// row-vector convention of euclid: p' = p * A then B
pub fn mat_then(a: &[f64; 6], b: &[f64; 6]) -> [f64; 6] {
    [
        a[0] * b[0] + a[1] * b[2],
        a[0] * b[1] + a[1] * b[3],
        a[2] * b[0] + a[3] * b[2],
        a[2] * b[1] + a[3] * b[3],
        a[4] * b[0] + a[5] * b[2] + b[4],
        a[4] * b[1] + a[5] * b[3] + b[5],
    ]
}

pub fn mat_apply(m: &[f64; 6], x: f64, y: f64) -> (f64, f64) {
    (x * m[0] + y * m[2] + m[4], x * m[1] + y * m[3] + m[5])
}

pub fn xf64(t: &Xf) -> [f64; 6] {
    [t[0] as f64, t[1] as f64, t[2] as f64, t[3] as f64, t[4] as f64, t[5] as f64]
}

impl<'a> ImgModel<'a> {
    pub fn new(w: i32, h: i32, data: &'a [u32], repeat: bool, bilinear: bool, ctm: &Xf, sxf: &Xf, alpha_byte: u32) -> Option<ImgModel<'a>> {
        let ti = mat_inverse(&xf64(ctm))?;
        let m = mat_then(&ti, &xf64(sxf));
        // the implementation's own integer-translation test, on the f32 product
        let mut integer = false;
        if let Some(ti32) = xf_to(ctm).inverse() {
            let p = ti32.then(&xf_to(sxf));
            integer = p.m11 == 1. && p.m12 == 0. && p.m21 == 0. && p.m22 == 1. && p.m31.fract() == 0. && p.m32.fract() == 0.;
        }
        Some(ImgModel { w, h, data, repeat, bilinear, m, alpha256: alpha_to_alpha256(alpha_byte), integer })
    }

    fn texel(&self, mut x: i64, mut y: i64) -> u32 {
        if self.repeat {
            x = x.rem_euclid(self.w as i64);
            y = y.rem_euclid(self.h as i64);
        } else {
            x = x.max(0).min(self.w as i64 - 1);
            y = y.max(0).min(self.h as i64 - 1);
        }
        self.data[(y * self.w as i64 + x) as usize]
    }

    fn bilin(&self, x1: i64, y1: i64, dx: u32, dy: u32) -> u32 {
        let (tl, tr, bl, br) = (self.texel(x1, y1), self.texel(x1 + 1, y1), self.texel(x1, y1 + 1), self.texel(x1 + 1, y1 + 1));
        let mut out = 0u32;
        for sh in [0u32, 8, 16, 24] {
            let c = |p: u32| (p >> sh) & 0xff;
            let v = c(tl) * (16 - dx) * (16 - dy) + c(tr) * dx * (16 - dy) + c(bl) * (16 - dx) * dy + c(br) * dx * dy;
            out |= ((v >> 8) & 0xff) << sh;
        }
        out
    }

    /// admissible colours (already scaled by the global alpha) of device pixel (x, y)
    pub fn admissible(&self, x: i32, y: i32) -> Vec<u32> {
        let (px, py) = mat_apply(&self.m, x as f64 + 0.5, y as f64 + 0.5);
        let mag = self.m.iter().fold(0.0f64, |a, b| a.max(b.abs()));
        // a pure translation by a multiple of 2^-16 is represented exactly in the 16.16 matrix and
        // every pixel centre maps exactly: no slack (texel-boundary ties must go to floor)
        let dyadic = |v: f64| (v * 65536.0).fract() == 0.0 && v.abs() < 16384.0;
        let exact_translation = self.m[0] == 1.0 && self.m[1] == 0.0 && self.m[2] == 0.0 && self.m[3] == 1.0 && dyadic(self.m[4]) && dyadic(self.m[5]);
        let slack = if self.integer || exact_translation { 0.0 } else { (x.abs() + y.abs() + 2) as f64 * 1.5 / 65536.0 * (1.0 + mag) + 2e-6 * (1.0 + px.abs() + py.abs()) * (1.0 + mag) };
        let mut out = Vec::new();
        if self.integer || !self.bilinear {
            // nearest (and the integer-translation route for either filter): texel floor(p)
            let xs = cand_floor(px, slack);
            let ys = cand_floor(py, slack);
            for &ix in &xs {
                for &iy in &ys {
                    let v = alpha_mul(self.texel(ix, iy), self.alpha256);
                    if !out.contains(&v) {
                        out.push(v);
                    }
                }
            }
        } else {
            // bilinear: 4-bit weights of (p - 0.5)
            let xs = cand_weight(px - 0.5, slack);
            let ys = cand_weight(py - 0.5, slack);
            for &(ix, dx) in &xs {
                for &(iy, dy) in &ys {
                    let v = alpha_mul(self.bilin(ix, iy, dx, dy), self.alpha256);
                    if !out.contains(&v) {
                        out.push(v);
                    }
                }
            }
        }
        out
    }
}

fn cand_floor(v: f64, slack: f64) -> Vec<i64> {
    let a = (v - slack).floor() as i64;
    let b = (v + slack).floor() as i64;
    if a == b { vec![a] } else { (a..=b).collect() }
}

fn cand_weight(v: f64, slack: f64) -> Vec<(i64, u32)> {
    let mut out = Vec::new();
    let lo = ((v - slack) * 16.0).floor() as i64;
    let hi = ((v + slack) * 16.0).floor() as i64;
    for k in lo..=hi {
        out.push((k.div_euclid(16), k.rem_euclid(16) as u32));
    }
    out
}
