//! M-PIX: per-pixel compositing reference built only from sw_composite's public per-pixel
//! primitives (the reference the property itself names).

use raqote::BlendMode;
use sw_composite::blend::*;
use sw_composite::{alpha_lerp, alpha_mul, alpha_to_alpha256, lerp, muldiv255, over, over_in, over_in_in};

/// blend(source, previous) for a mode. May panic for the non-separable modes (sw-composite
/// 0.7.16 overflows in `lum()` when overflow checks are on) - callers use `try_blend`.
pub fn blend(mode: BlendMode, src: u32, dst: u32) -> u32 {
    match mode {
        BlendMode::Dst => Dst::blend(src, dst),
        BlendMode::Src => Src::blend(src, dst),
        BlendMode::Clear => Clear::blend(src, dst),
        BlendMode::SrcOver => SrcOver::blend(src, dst),
        BlendMode::DstOver => DstOver::blend(src, dst),
        BlendMode::SrcIn => SrcIn::blend(src, dst),
        BlendMode::DstIn => DstIn::blend(src, dst),
        BlendMode::SrcOut => SrcOut::blend(src, dst),
        BlendMode::DstOut => DstOut::blend(src, dst),
        BlendMode::SrcAtop => SrcAtop::blend(src, dst),
        BlendMode::DstAtop => DstAtop::blend(src, dst),
        BlendMode::Xor => Xor::blend(src, dst),
        BlendMode::Add => Add::blend(src, dst),
        BlendMode::Screen => Screen::blend(src, dst),
        BlendMode::Overlay => Overlay::blend(src, dst),
        BlendMode::Darken => Darken::blend(src, dst),
        BlendMode::Lighten => Lighten::blend(src, dst),
        BlendMode::ColorDodge => ColorDodge::blend(src, dst),
        BlendMode::ColorBurn => ColorBurn::blend(src, dst),
        BlendMode::HardLight => HardLight::blend(src, dst),
        BlendMode::SoftLight => SoftLight::blend(src, dst),
        BlendMode::Difference => Difference::blend(src, dst),
        BlendMode::Exclusion => Exclusion::blend(src, dst),
        BlendMode::Multiply => Multiply::blend(src, dst),
        BlendMode::Hue => Hue::blend(src, dst),
        BlendMode::Saturation => Saturation::blend(src, dst),
        BlendMode::Color => Color::blend(src, dst),
        BlendMode::Luminosity => Luminosity::blend(src, dst),
    }
}

/// None when the public primitive itself panics on these inputs (reference undefined)
pub fn try_blend(mode: BlendMode, src: u32, dst: u32) -> Option<u32> {
    if crate::scene::is_nonseparable(mode) {
        crate::engine::guard(|| blend(mode, src, dst)).ok()
    } else {
        Some(blend(mode, src, dst))
    }
}

/// the byte the implementation derives from a global alpha / layer opacity in [0,1]
pub fn alpha_byte(alpha: f32) -> u32 {
    (alpha * 255. + 0.5) as u32
}

/// source colour scaled by the global alpha
pub fn scale(c: u32, alpha_byte: u32) -> u32 {
    alpha_mul(c, alpha_to_alpha256(alpha_byte))
}

/// Admissible new values of one pixel.
///  cover: None = mask-less route (full coverage), Some(m) = coverage byte
///  clip:  None = no clip path on the stack, Some(c) = product of the clip paths' coverages
/// Two candidates are returned where the property leaves the composition of coverage and
/// clip coverage open (multiply then weight, or sw_composite's combined primitives).
pub fn admissible(mode: BlendMode, src: u32, dst: u32, cover: Option<u32>, clip: Option<u32>) -> Option<[u32; 2]> {
    let b = if mode == BlendMode::SrcOver { 0 } else { try_blend(mode, src, dst)? };
    Some(match (cover, clip) {
        (None, None) => {
            let v = if mode == BlendMode::SrcOver { over(src, dst) } else { b };
            [v, v]
        }
        (m, c) => {
            let m = m.unwrap_or(255);
            match c {
                None => {
                    if m == 0 {
                        [dst, dst]
                    } else if mode == BlendMode::SrcOver {
                        let v = over_in(src, dst, m);
                        [v, v]
                    } else {
                        let v = lerp(dst, b, alpha_to_alpha256(m));
                        [v, v]
                    }
                }
                Some(c) => {
                    let w = muldiv255(m, c);
                    if m == 0 || c == 0 {
                        [dst, dst]
                    } else if m == 255 && c == 255 {
                        let v = if mode == BlendMode::SrcOver { over_in(src, dst, 255) } else { b };
                        [v, v]
                    } else if mode == BlendMode::SrcOver {
                        [over_in_in(src, dst, m, c), if w == 0 { dst } else { over_in(src, dst, w) }]
                    } else {
                        [alpha_lerp(dst, b, m, c), if w == 0 { dst } else { lerp(dst, b, alpha_to_alpha256(w)) }]
                    }
                }
            }
        }
    })
}

pub fn valid_premul(p: u32) -> bool {
    let a = p >> 24;
    ((p >> 16) & 0xff) <= a && ((p >> 8) & 0xff) <= a && (p & 0xff) <= a
}
