//! Single-step oracle: given the observable state of a DrawTarget before a call (pixels of
//! the surface and of every open layer, clip stack, transform - read through the
//! cfg(raqote_verif) accessors), the call, and the state after it, decide whether every pixel
//! of every buffer is one of the values M-PIX admits for that pixel's own inputs.
//!
//! Shape coverage is taken from an independent reference render (opaque white, SrcOver, on a
//! fresh transparent target of the same size under the same transform); C01/C04/C08 validate
//! that render against exact / analytic models.

use crate::engine::guard;
use crate::model::pix;
use crate::scene::*;
use raqote::*;

#[derive(Clone, Debug, PartialEq)]
pub struct LayerSnap {
    pub rect: [i32; 4],
    pub px: Vec<u32>,
    pub opacity: f32,
    pub blend: BlendMode,
}

#[derive(Clone, Debug, PartialEq)]
pub struct ClipSnap {
    pub rect: [i32; 4],
    pub mask: Option<Vec<u8>>,
}

#[derive(Clone, Debug, PartialEq)]
pub struct Snap {
    pub w: i32,
    pub h: i32,
    pub base: Vec<u32>,
    pub layers: Vec<LayerSnap>,
    pub clips: Vec<ClipSnap>,
    pub xf: Xf,
    pub idle: bool,
}

fn r4(r: &IntRect) -> [i32; 4] {
    [r.min.x, r.min.y, r.max.x, r.max.y]
}

pub fn snap(dt: &DrawTarget) -> Snap {
    let (nc, nl) = dt.verif_stack_depths();
    let mut layers = Vec::new();
    for i in 0..nl {
        let (r, px, o, b) = dt.verif_layer(i).unwrap();
        layers.push(LayerSnap { rect: r4(&r), px: px.to_vec(), opacity: o, blend: b });
    }
    let mut clips = Vec::new();
    for i in 0..nc {
        let (r, m) = dt.verif_clip(i).unwrap();
        clips.push(ClipSnap { rect: r4(&r), mask: m.map(|m| m.to_vec()) });
    }
    Snap { w: dt.width(), h: dt.height(), base: dt.get_data().to_vec(), layers, clips, xf: xf_from(dt.get_transform()), idle: dt.verif_rasterizer_idle() }
}

impl Snap {
    /// rect and pixels of the buffer drawing goes to
    pub fn top(&self) -> ([i32; 4], &[u32]) {
        match self.layers.last() {
            Some(l) => (l.rect, &l.px[..]),
            None => ([0, 0, self.w, self.h], &self.base[..]),
        }
    }
    /// effective clip as the implementation holds it: rect and full-surface coverage mask
    pub fn clip(&self) -> ([i32; 4], Option<&[u8]>) {
        match self.clips.last() {
            Some(c) => (c.rect, c.mask.as_deref()),
            None => ([0, 0, self.w, self.h], None),
        }
    }
}

/// alpha channel of an opaque-white SrcOver fill on a fresh transparent w x h target
pub fn ref_cov_path(w: i32, h: i32, xf: &Xf, path: &PathSpec, aa: bool) -> Result<Vec<u8>, String> {
    let t = xf_to(xf);
    if !(t.determinant() != 0.0) || !t.determinant().is_finite() {
        // a non-invertible transform draws nothing (C11)
        return Ok(vec![0; (w * h).max(0) as usize]);
    }
    // the path is mapped to device space first and filled under the identity: the reference does
    // not ask the fill under test how it treats the current transform (bit-identical to the fill
    // under T on a correct tree - that equivalence is C11's clause (i))
    guard(|| {
        let mut dt = DrawTarget::new(w, h);
        let dev = path.build().transform(&t);
        dt.fill(&dev, &Source::Solid(SolidSource { r: 255, g: 255, b: 255, a: 255 }), &DrawOptions { blend_mode: BlendMode::SrcOver, alpha: 1.0, antialias: if aa { AntialiasMode::Gray } else { AntialiasMode::None } });
        dt.get_data().iter().map(|p| (p >> 24) as u8).collect()
    })
}

/// coverage of a text run: the alpha an opaque white SrcOver draw_text leaves on a transparent
/// surface (over_in(white, 0, m) has alpha exactly m) - the glyph rasteriser is font-kit's, not
/// the subject's; what is checked is how draw_text composites that coverage
pub fn ref_cov_text(w: i32, h: i32, xf: &Xf, size: f32, text: &str, x: f32, y: f32, aa: bool) -> Result<Vec<u8>, String> {
    let t = xf_to(xf);
    if !(t.determinant() != 0.0) || !t.determinant().is_finite() {
        return Ok(vec![0; (w * h).max(0) as usize]);
    }
    guard(|| {
        let mut dt = DrawTarget::new(w, h);
        dt.set_transform(&t);
        with_font(|font| {
            if let Some(font) = font {
                dt.draw_text(font, size, text, Point::new(x, y), &Source::Solid(SolidSource { r: 255, g: 255, b: 255, a: 255 }), &DrawOptions { blend_mode: BlendMode::SrcOver, alpha: 1.0, antialias: if aa { AntialiasMode::Gray } else { AntialiasMode::None } });
            }
        });
        dt.get_data().iter().map(|p| (p >> 24) as u8).collect()
    })
}

pub fn ref_cov_stroke(w: i32, h: i32, xf: &Xf, path: &PathSpec, style: &StyleSpec, aa: bool) -> Result<Vec<u8>, String> {
    let t = xf_to(xf);
    if !(t.determinant() != 0.0) || !t.determinant().is_finite() {
        return Ok(vec![0; (w * h).max(0) as usize]);
    }
    guard(|| {
        let mut dt = DrawTarget::new(w, h);
        dt.set_transform(&t);
        dt.stroke(&path.build(), &Source::Solid(SolidSource { r: 255, g: 255, b: 255, a: 255 }), &style.to(), &DrawOptions { blend_mode: BlendMode::SrcOver, alpha: 1.0, antialias: if aa { AntialiasMode::Gray } else { AntialiasMode::None } });
        dt.get_data().iter().map(|p| (p >> 24) as u8).collect()
    })
}

fn premultiply(c: u32) -> u32 {
    let a = c >> 24;
    if a == 255 {
        return c;
    }
    let f = |v: u32| sw_composite::muldiv255(v & 0xff, a);
    (a << 24) | (f(c >> 16) << 16) | (f(c >> 8) << 8) | f(c)
}

/// Source colour delivered to device pixel (x, y), already scaled by the global alpha, when
/// it is exactly determined by the property (solid; image whose total sampling transform is
/// an integer translation; constant gradient at alpha 1). None = not decided here (C12/C13).
pub struct SrcEval<'a> {
    spec: &'a SrcSpec,
    ab: u32,
    /// integer translation of the total sampling matrix, for images
    off: Option<(i32, i32)>,
    /// the total sampling matrix exists and is finite
    sampling_finite: bool,
    /// device -> user space (f64), for gradients whose defined region is decided here
    inv: Option<[f64; 6]>,
}

impl<'a> SrcEval<'a> {
    pub fn new(spec: &'a SrcSpec, alpha: f32, xf: &Xf) -> SrcEval<'a> {
        let ab = pix::alpha_byte(alpha);
        let mut off = None;
        let mut sampling_finite = false;
        if let SrcSpec::Image { xf: sxf, .. } = spec {
            if let Some(ti) = xf_to(xf).inverse() {
                let m = ti.then(&xf_to(sxf));
                sampling_finite = [m.m11, m.m12, m.m21, m.m22, m.m31, m.m32].iter().all(|v| v.is_finite() && v.abs() < 1000.0);
                if m.m11 == 1. && m.m12 == 0. && m.m21 == 0. && m.m22 == 1. && m.m31.fract() == 0. && m.m32.fract() == 0. && m.m31.abs() < 1e6 && m.m32.abs() < 1e6 {
                    off = Some((m.m31 as i32, m.m32 as i32));
                }
            }
        }
        let inv = crate::model::img::mat_inverse(&crate::model::img::xf64(xf));
        SrcEval { spec, ab, off, sampling_finite, inv }
    }
    pub fn at(&self, x: i32, y: i32) -> Option<u32> {
        match self.spec {
            SrcSpec::Solid(c) => Some(pix::scale(*c, self.ab)),
            SrcSpec::Image { w, h, data, repeat, .. } => {
                // an image whose texels are all equal has that colour wherever and however it is sampled
                if self.off.is_none() && !data.is_empty() && data.iter().all(|t| *t == data[0]) && self.sampling_finite {
                    return Some(pix::scale(data[0], self.ab));
                }
                let (ox, oy) = self.off?;
                let (mut ix, mut iy) = (x + ox, y + oy);
                if *repeat {
                    ix = ix.rem_euclid(*w);
                    iy = iy.rem_euclid(*h);
                } else {
                    ix = ix.max(0).min(*w - 1);
                    iy = iy.max(0).min(*h - 1);
                }
                Some(pix::scale(data[(iy * *w + ix) as usize], self.ab))
            }
            SrcSpec::Linear { stops, .. } | SrcSpec::Radial { stops, .. } | SrcSpec::Sweep { stops, .. } | SrcSpec::LinearRaw { stops, .. } | SrcSpec::RadialRaw { stops, .. } => {
                // constant gradients only, and only at alpha 1 (alpha handling of gradient
                // colour tables is C12's subject)
                // (at a global alpha below 1 the colour-table entry - the premultiplied stop colour - is
                // scaled like every other source colour)
                if !stops.is_empty() && stops.iter().all(|s| s.color == stops[0].color) {
                    if let SrcSpec::Linear { p, .. } = self.spec {
                        if p[0] == p[2] && p[1] == p[3] {
                            return None;
                        }
                    }
                    Some(pix::scale(premultiply(stops[0].color), self.ab))
                } else {
                    None
                }
            }
            SrcSpec::TwoCircle { .. } => {
                // where no circle of the family passes (robustly: the pixel centre and four points
                // a quarter pixel around it) the gradient is transparent; elsewhere it is C12's
                let inv = self.inv?;
                let px_user = ((inv[0] * inv[0] + inv[1] * inv[1]).sqrt()).max((inv[2] * inv[2] + inv[3] * inv[3]).sqrt());
                for (dx, dy) in [(0.0, 0.0), (-0.25, -0.25), (0.25, -0.25), (-0.25, 0.25), (0.25, 0.25)] {
                    let (ux, uy) = crate::model::img::mat_apply(&inv, x as f64 + 0.5 + dx, y as f64 + 0.5 + dy);
                    match crate::model::grad::t_at(self.spec, ux, uy, px_user) {
                        crate::model::grad::TVal::Empty => {}
                        _ => return None,
                    }
                }
                Some(0)
            }
        }
    }
}

#[derive(Clone, Debug, PartialEq)]
pub enum Kind {
    /// a pixel with zero shape coverage, outside the clip, or in a buffer that is not the
    /// drawing destination changed (C02)
    OutsideChanged,
    /// a covered pixel is not one of the admissible values (C03)
    WrongValue,
    /// a buffer other than the innermost open layer (or the surface when no layer is open)
    /// was written (C06)
    WrongBuffer,
    /// state other than pixels changed that the call must not touch (transform, stacks)
    StateChanged,
    /// subject panicked
    Panic,
    /// the rasteriser is not idle after the call (C10)
    NotIdle,
}

thread_local! {
    /// further violations of the last failed drawing step: the first one of every other
    /// (kind, speaks-about-the-clip) category in scan order, so that each check can pick the
    /// clause it owns even when a clause owned by another check comes first
    static OTHERS: std::cell::RefCell<Vec<StepViolation>> = std::cell::RefCell::new(Vec::new());
}

pub fn take_others() -> Vec<StepViolation> {
    OTHERS.with(|o| std::mem::take(&mut *o.borrow_mut()))
}

fn category(v: &StepViolation) -> (u8, bool) {
    let k = match v.kind {
        Kind::OutsideChanged => 0,
        Kind::WrongValue => 1,
        _ => 2,
    };
    (k, v.clause.contains("clip") || v.detail.contains("clip coverage Some"))
}

#[derive(Clone, Debug)]
pub struct StepViolation {
    pub kind: Kind,
    pub clause: String,
    pub detail: String,
}

#[derive(Default, Clone, Copy, Debug)]
pub struct StepStats {
    pub checked: u64,
    pub undecided: u64,
    pub partial: u64,
}

fn in_rect(r: &[i32; 4], x: i32, y: i32) -> bool {
    x >= r[0] && x < r[2] && y >= r[1] && y < r[3]
}

/// per-pixel description of a drawing call
pub struct DrawModel<'a> {
    /// shape coverage over the whole surface (row-major w*h)
    pub cov: Vec<u8>,
    pub mode: BlendMode,
    pub src: SrcEval<'a>,
}

fn draw_model<'a>(before: &Snap, op: &'a Op, solid_tmp: &'a mut Option<SrcSpec>) -> Result<Option<DrawModel<'a>>, String> {
    let (w, h) = (before.w, before.h);
    let n = (w * h).max(0) as usize;
    Ok(Some(match op {
        Op::Fill(p, s, o) => DrawModel { cov: ref_cov_path(w, h, &before.xf, p, o.aa)?, mode: o.mode, src: SrcEval::new(s, o.alpha, &before.xf) },
        Op::FillRect(x, y, rw, rh, s, o) => DrawModel { cov: ref_cov_path(w, h, &before.xf, &PathSpec::rect(*x, *y, *rw, *rh), o.aa)?, mode: o.mode, src: SrcEval::new(s, o.alpha, &before.xf) },
        Op::Stroke(p, st, s, o) => DrawModel { cov: ref_cov_stroke(w, h, &before.xf, p, st, o.aa)?, mode: o.mode, src: SrcEval::new(s, o.alpha, &before.xf) },
        Op::Clear(c) => {
            *solid_tmp = Some(SrcSpec::Solid(*c));
            DrawModel { cov: vec![255; n], mode: BlendMode::Src, src: SrcEval::new(solid_tmp.as_ref().unwrap(), 1.0, &IDENT) }
        }
        Op::Mask(mx, my, mw, mh, data, s) => {
            let mut cov = vec![0u8; n];
            // where the mask lands ignores the transform, but its source lives in user space: under a
            // non-invertible transform the call draws nothing, like every other drawing call
            let singular = before.xf[0] * before.xf[3] - before.xf[1] * before.xf[2] == 0.0;
            for y in 0..if singular { 0 } else { h } {
                for x in 0..w {
                    let (ix, iy) = (x - mx, y - my);
                    if ix >= 0 && ix < *mw && iy >= 0 && iy < *mh {
                        cov[(y * w + x) as usize] = data[(iy * mw + ix) as usize];
                    }
                }
            }
            DrawModel { cov, mode: BlendMode::SrcOver, src: SrcEval::new(s, 1.0, &before.xf) }
        }
        Op::DrawImageAt(x, y, iw, ih, data, o) => {
            *solid_tmp = Some(SrcSpec::Image { w: *iw, h: *ih, data: data.clone(), repeat: false, bilinear: true, xf: [1., 0., 0., 1., -*x, -*y] });
            DrawModel { cov: ref_cov_path(w, h, &before.xf, &PathSpec::rect(*x, *y, *iw as f32, *ih as f32), o.aa)?, mode: o.mode, src: SrcEval::new(solid_tmp.as_ref().unwrap(), o.alpha, &before.xf) }
        }
        Op::DrawImageSize(sw, sh, x, y, iw, ih, data, o) => {
            let t = Transform::translation(-*x, -*y).then_scale(*iw as f32 / *sw, *ih as f32 / *sh);
            *solid_tmp = Some(SrcSpec::Image { w: *iw, h: *ih, data: data.clone(), repeat: false, bilinear: true, xf: xf_from(&t) });
            DrawModel { cov: ref_cov_path(w, h, &before.xf, &PathSpec::rect(*x, *y, *sw, *sh), o.aa)?, mode: o.mode, src: SrcEval::new(solid_tmp.as_ref().unwrap(), o.alpha, &before.xf) }
        }
        Op::Text(size, text, x, y, s, o) => DrawModel { cov: ref_cov_text(w, h, &before.xf, *size, text, *x, *y, o.aa)?, mode: o.mode, src: SrcEval::new(s, o.alpha, &before.xf) },
        _ => return Ok(None),
    }))
}

fn buf_diff(name: &str, a: &[u32], b: &[u32]) -> Option<String> {
    if a.len() != b.len() {
        return Some(format!("{} changed length {} -> {}", name, a.len(), b.len()));
    }
    for i in 0..a.len() {
        if a[i] != b[i] {
            return Some(format!("{} index {} changed {:#010x} -> {:#010x}", name, i, a[i], b[i]));
        }
    }
    None
}

/// Check one transition `before --op--> after`. `clip_override` lets C05 supply the clip
/// computed by its own model stack instead of the implementation's top-of-stack entry.
pub fn check_step(before: &Snap, op: &Op, after: &Snap, clip_override: Option<([i32; 4], Option<&[u8]>)>) -> Result<StepStats, StepViolation> {
    let mut st = StepStats::default();
    let (w, h) = (before.w, before.h);
    OTHERS.with(|o| o.borrow_mut().clear());
    if !after.idle {
        return Err(StepViolation { kind: Kind::NotIdle, clause: "rasterizer-idle-after-call".into(), detail: format!("after {} the rasteriser still holds edges or non-reset bounds", op.kind()) });
    }
    // transform is only changed by set_transform
    match op {
        Op::SetTransform(t) => {
            if after.xf.iter().zip(t.iter()).any(|(a, b)| a.to_bits() != b.to_bits()) {
                return Err(StepViolation { kind: Kind::StateChanged, clause: "set_transform-stores-transform".into(), detail: format!("{:?} vs {:?}", after.xf, t) });
            }
        }
        _ => {
            if after.xf.iter().zip(before.xf.iter()).any(|(a, b)| a.to_bits() != b.to_bits()) {
                return Err(StepViolation { kind: Kind::StateChanged, clause: format!("{}-leaves-transform", op.kind()), detail: format!("transform {:?} -> {:?}", before.xf, after.xf) });
            }
        }
    }
    // stack bookkeeping
    let (dc, dl): (i32, i32) = match op {
        Op::PushClipRect(..) | Op::PushClip(..) => (1, 0),
        Op::PopClip => (if before.clips.is_empty() { 0 } else { -1 }, 0),
        Op::PushLayer(..) => (0, 1),
        Op::PopLayer => (0, -1),
        _ => (0, 0),
    };
    if after.clips.len() as i32 != before.clips.len() as i32 + dc || after.layers.len() as i32 != before.layers.len() as i32 + dl {
        return Err(StepViolation { kind: Kind::StateChanged, clause: format!("{}-stack-depths", op.kind()), detail: format!("clip depth {} -> {}, layer depth {} -> {}", before.clips.len(), after.clips.len(), before.layers.len(), after.layers.len()) });
    }
    // entries below the top of either stack never change
    let keep_c = before.clips.len().min(after.clips.len());
    if before.clips[..keep_c] != after.clips[..keep_c] {
        return Err(StepViolation { kind: Kind::StateChanged, clause: format!("{}-lower-clip-entries", op.kind()), detail: "a clip stack entry below the top changed".into() });
    }

    let mut tmp = None;
    let dm = match draw_model(before, op, &mut tmp) {
        Ok(d) => d,
        Err(p) => return Err(StepViolation { kind: Kind::Panic, clause: "reference-render-panicked".into(), detail: p }),
    };

    if let Some(dm) = dm {
        // drawing call: only the top buffer may change
        if let Some(d) = buf_diff("surface", &before.base, &after.base).filter(|_| !before.layers.is_empty()) {
            return Err(StepViolation { kind: Kind::WrongBuffer, clause: format!("{}-into-layer-touched-surface", op.kind()), detail: d });
        }
        let nl = before.layers.len();
        for i in 0..nl.saturating_sub(1) {
            if let Some(d) = buf_diff(&format!("layer {}", i), &before.layers[i].px, &after.layers[i].px) {
                return Err(StepViolation { kind: Kind::WrongBuffer, clause: format!("{}-touched-lower-layer", op.kind()), detail: d });
            }
        }
        let (trect, tb) = before.top();
        let (_, ta) = after.top();
        let (crect, cmask) = clip_override.unwrap_or_else(|| before.clip());
        let tw = trect[2].saturating_sub(trect[0]);
        if ta.len() != tb.len() {
            return Err(StepViolation { kind: Kind::StateChanged, clause: "top-buffer-size".into(), detail: "top buffer changed size".into() });
        }
        let mut found: Vec<StepViolation> = Vec::new();
        for ty in trect[1]..trect[3] {
            for tx in trect[0]..trect[2] {
                let bi = ((ty - trect[1]) * tw + (tx - trect[0])) as usize;
                let (old, new) = (tb[bi], ta[bi]);
                let on_surface = tx >= 0 && tx < w && ty >= 0 && ty < h;
                if !on_surface {
                    // part of a layer buffer that can never reach the surface: unobservable
                    continue;
                }
                let m = if on_surface { dm.cov[(ty * w + tx) as usize] as u32 } else { 0 };
                let inclip = in_rect(&crect, tx, ty) && on_surface;
                let c = match cmask {
                    Some(cm) if on_surface => Some(cm[(ty * w + tx) as usize] as u32),
                    Some(_) => Some(0),
                    None => None,
                };
                if m == 0 || !inclip || c == Some(0) {
                    st.checked += 1;
                    if new != old {
                        let why = if !on_surface {
                            "outside the surface"
                        } else if !inclip {
                            "outside a pushed clip rectangle"
                        } else if c == Some(0) {
                            "zero coverage in a pushed clip path"
                        } else {
                            "zero shape coverage"
                        };
                        let v = StepViolation {
                            kind: Kind::OutsideChanged,
                            clause: format!("{}-{}", op.kind(), why.replace(' ', "-")),
                            detail: format!("pixel ({},{}) ({}) changed {:#010x} -> {:#010x}; mode {:?}", tx, ty, why, old, new, dm.mode),
                        };
                        if !found.iter().any(|f| category(f) == category(&v)) {
                            found.push(v);
                        }
                    }
                    continue;
                }
                let s = match dm.src.at(tx, ty) {
                    Some(s) => s,
                    None => {
                        st.undecided += 1;
                        continue;
                    }
                };
                let adm = match pix::admissible(dm.mode, s, old, Some(m), c) {
                    Some(a) => a,
                    None => {
                        st.undecided += 1;
                        continue;
                    }
                };
                st.checked += 1;
                if m != 255 || c.map_or(false, |c| c != 255) {
                    st.partial += 1;
                }
                if new != adm[0] && new != adm[1] {
                    let clause = if m == 255 && c.map_or(true, |c| c == 255) { "full-coverage-is-exactly-blend" } else { "partial-coverage-interpolation" };
                    let v = StepViolation {
                        kind: Kind::WrongValue,
                        clause: format!("{}-{}", op.kind(), clause),
                        detail: format!(
                            "pixel ({},{}): previous {:#010x}, source {:#010x}, coverage {}, clip coverage {:?}, mode {:?} -> observed {:#010x}, admissible {:#010x} / {:#010x}",
                            tx, ty, old, s, m, c, dm.mode, new, adm[0], adm[1]
                        ),
                    };
                    if !found.iter().any(|f| category(f) == category(&v)) {
                        found.push(v);
                    }
                }
            }
        }
        if !found.is_empty() {
            // which buffer the call drew into (a layer behaves as a surface of its own: C06)
            for f in found.iter_mut() {
                f.detail.push_str(&format!("; open layers {}", nl));
            }
            let first = found.remove(0);
            OTHERS.with(|o| *o.borrow_mut() = found);
            return Err(first);
        }
        return Ok(st);
    }

    // non-drawing calls
    match op {
        Op::PopLayer => {
            let l = before.layers.last().unwrap();
            // lower layers (except the new top) and, if the new top is a layer, the surface are untouched
            let nl = after.layers.len();
            // a buffer other than the parent written: reported, but the parent's pixels are still
            // judged (the group must arrive in the parent whatever else happened)
            let mut wrong_buffer: Option<StepViolation> = None;
            if nl > 0 {
                if let Some(d) = buf_diff("surface", &before.base, &after.base) {
                    wrong_buffer = Some(StepViolation { kind: Kind::WrongBuffer, clause: "pop_layer-nested-touched-surface".into(), detail: d });
                }
                for i in 0..nl - 1 {
                    if let Some(d) = buf_diff(&format!("layer {}", i), &before.layers[i].px, &after.layers[i].px) {
                        if wrong_buffer.is_none() {
                            wrong_buffer = Some(StepViolation { kind: Kind::WrongBuffer, clause: "pop_layer-touched-lower-layer".into(), detail: d });
                        }
                    }
                }
            }
            let pixels = (|| -> Result<(), StepViolation> {
            let (prect, pb): ([i32; 4], &[u32]) = if nl > 0 { (before.layers[nl - 1].rect, &before.layers[nl - 1].px[..]) } else { ([0, 0, w, h], &before.base[..]) };
            let (_, pa) = after.top();
            let (crect, cmask) = clip_override.unwrap_or_else(|| before.clip());
            let ob = pix::alpha_byte(l.opacity.max(0.0).min(1.0));
            let pw = prect[2].saturating_sub(prect[0]);
            let lw = l.rect[2].saturating_sub(l.rect[0]);
            for py in prect[1]..prect[3] {
                for px in prect[0]..prect[2] {
                    let bi = ((py - prect[1]) * pw + (px - prect[0])) as usize;
                    let (old, new) = (pb[bi], pa[bi]);
                    let on_surface = px >= 0 && px < w && py >= 0 && py < h;
                    if !on_surface {
                        continue;
                    }
                    let inl = in_rect(&l.rect, px, py);
                    let inclip = in_rect(&crect, px, py) && on_surface;
                    let c = match cmask {
                        Some(cm) if on_surface => Some(cm[(py * w + px) as usize] as u32),
                        Some(_) => Some(0),
                        None => None,
                    };
                    st.checked += 1;
                    if !inl || !inclip || c == Some(0) || ob == 0 {
                        if new != old {
                            let why = if !inl { "outside the layer" } else if !inclip { "outside the clip at pop time" } else if ob == 0 { "layer opacity is zero" } else { "zero clip coverage" };
                            return Err(StepViolation { kind: Kind::OutsideChanged, clause: format!("pop_layer-{}", why.replace(' ', "-")), detail: format!("pixel ({},{}) ({}) changed {:#010x} -> {:#010x}; layer blend {:?} opacity {}", px, py, why, old, new, l.blend, l.opacity) });
                        }
                        continue;
                    }
                    let s = l.px[((py - l.rect[1]) * lw + (px - l.rect[0])) as usize];
                    let adm = match pix::admissible(l.blend, s, old, Some(ob), c) {
                        Some(a) => a,
                        None => {
                            st.checked -= 1;
                            st.undecided += 1;
                            continue;
                        }
                    };
                    if new != adm[0] && new != adm[1] {
                        return Err(StepViolation {
                            kind: Kind::WrongValue,
                            clause: "pop_layer-group-composite".into(),
                            detail: format!("pixel ({},{}): parent {:#010x}, layer {:#010x}, opacity byte {}, clip coverage {:?}, blend {:?} -> observed {:#010x}, admissible {:#010x} / {:#010x}", px, py, old, s, ob, c, l.blend, new, adm[0], adm[1]),
                        });
                    }
                }
            }
            Ok(())
            })();
            match (wrong_buffer, pixels) {
                (Some(w), Err(p)) => {
                    OTHERS.with(|o| *o.borrow_mut() = vec![p]);
                    Err(w)
                }
                (Some(w), Ok(())) => Err(w),
                (None, Err(p)) => Err(p),
                (None, Ok(())) => Ok(st),
            }
        }
        Op::PushLayer(o, b) => {
            // all existing buffers unchanged; new layer is transparent and as large as the clip bounds
            if let Some(d) = buf_diff("surface", &before.base, &after.base) {
                return Err(StepViolation { kind: Kind::OutsideChanged, clause: "push_layer-touched-surface".into(), detail: d });
            }
            for i in 0..before.layers.len() {
                if before.layers[i] != after.layers[i] {
                    return Err(StepViolation { kind: Kind::OutsideChanged, clause: "push_layer-touched-lower-layer".into(), detail: format!("layer {}", i) });
                }
            }
            let l = after.layers.last().unwrap();
            let (crect, _) = before.clip();
            // the layer must cover exactly the on-surface pixels of the clip bounds
            let mut same_cover = true;
            for y in 0..h {
                for x in 0..w {
                    if in_rect(&l.rect, x, y) != in_rect(&crect, x, y) {
                        same_cover = false;
                    }
                }
            }
            let area = if l.rect[2] > l.rect[0] && l.rect[3] > l.rect[1] { ((l.rect[2] - l.rect[0]) * (l.rect[3] - l.rect[1])) as usize } else { 0 };
            if !same_cover || l.px.len() != area || l.px.iter().any(|p| *p != 0) || l.opacity.to_bits() != o.to_bits() || l.blend != *b {
                return Err(StepViolation { kind: Kind::StateChanged, clause: "push_layer-new-layer".into(), detail: format!("new layer rect {:?} (clip bounds {:?}), nonzero pixels {}, opacity {}, blend {:?}", l.rect, crect, l.px.iter().filter(|p| **p != 0).count(), l.opacity, l.blend) });
            }
            Ok(st)
        }
        _ => {
            // clip and transform calls never touch pixels
            if let Some(d) = buf_diff("surface", &before.base, &after.base) {
                return Err(StepViolation { kind: Kind::OutsideChanged, clause: format!("{}-touched-surface", op.kind()), detail: d });
            }
            if before.layers != after.layers {
                return Err(StepViolation { kind: Kind::OutsideChanged, clause: format!("{}-touched-layer", op.kind()), detail: "layer stack changed".into() });
            }
            Ok(st)
        }
    }
}

/// Execute `op` on `dt` (guarded) and check the transition.
pub fn exec_checked(dt: &mut DrawTarget, op: &Op, clip_override: Option<([i32; 4], Option<&[u8]>)>) -> Result<(Snap, StepStats), StepViolation> {
    let before = snap(dt);
    match guard(|| exec(dt, op)) {
        Ok(()) => {}
        Err(p) => return Err(StepViolation { kind: Kind::Panic, clause: format!("{}-panicked", op.kind()), detail: p }),
    }
    let after = snap(dt);
    let st = check_step(&before, op, &after, clip_override)?;
    Ok((after, st))
}
