//! M-WIND: exact integer winding number and on-segment test for polygons and query points
//! with integer coordinates (i64 arithmetic only).

use super::rast::QOp;

pub type P = (i64, i64);

/// all segments of the path under the fill semantics (MoveTo closes the open subpath, LineTo
/// without a current point starts one, Close returns to the subpath start, implicit final close)
pub fn segments(ops: &[QOp]) -> Vec<(P, P)> {
    let mut cur: Option<P> = None;
    let mut first: Option<P> = None;
    let mut out = Vec::new();
    for op in ops {
        match *op {
            QOp::M(x, y) => {
                if let (Some(f), Some(c)) = (first, cur) {
                    out.push((c, f));
                }
                cur = Some((x as i64, y as i64));
                first = cur;
            }
            QOp::L(x, y) => {
                let p = (x as i64, y as i64);
                match cur {
                    None => {
                        cur = Some(p);
                        first = Some(p);
                        out.push((p, p));
                    }
                    Some(c) => {
                        out.push((c, p));
                        cur = Some(p);
                    }
                }
            }
            QOp::Z => {
                if let (Some(f), Some(c)) = (first, cur) {
                    out.push((c, f));
                }
                cur = first;
            }
        }
    }
    if let (Some(f), Some(c)) = (first, cur) {
        out.push((c, f));
    }
    out
}

fn cross(a: P, b: P, q: P) -> i64 {
    (b.0 - a.0) * (q.1 - a.1) - (b.1 - a.1) * (q.0 - a.0)
}

#[derive(PartialEq, Debug, Clone, Copy)]
pub enum On {
    No,
    /// on a segment of positive length
    Segment,
    /// only coincides with a zero-length segment (a lone point): the property does not say
    Point,
}

pub fn on_path(segs: &[(P, P)], q: P) -> On {
    let mut r = On::No;
    for &(a, b) in segs {
        if a == b {
            if q == a && r == On::No {
                r = On::Point;
            }
            continue;
        }
        if cross(a, b, q) == 0 && q.0 >= a.0.min(b.0) && q.0 <= a.0.max(b.0) && q.1 >= a.1.min(b.1) && q.1 <= a.1.max(b.1) {
            return On::Segment;
        }
    }
    r
}

/// winding number of a point that is not on any segment (half-open crossing rule, ray to -x)
pub fn winding(segs: &[(P, P)], q: P) -> i32 {
    let mut w = 0;
    for &(a, b) in segs {
        if a.1 <= q.1 && q.1 < b.1 {
            // edge going down (y grows); point strictly to the right of it?
            if cross(a, b, q) < 0 {
                w += 1;
            }
        } else if b.1 <= q.1 && q.1 < a.1 {
            if cross(a, b, q) > 0 {
                w -= 1;
            }
        }
    }
    w
}
