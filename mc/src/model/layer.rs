//! M-LAYER: layers as literally separate surfaces. Every open layer is a real DrawTarget of
//! the full surface size, initially transparent, with the clip stack and transform replicated;
//! pop composites it onto its parent per pixel with M-PIX (opacity byte as coverage, clip at
//! pop time, restricted to the clip bounds at push time).

use crate::engine::guard;
use crate::model::clip::ClipModel;
use crate::model::pix;
use crate::scene::*;
use raqote::*;

struct RefLayer {
    dt: DrawTarget,
    /// second variant of the pixels (alternative admissible composition at pops)
    alt: Vec<u32>,
    opacity: f32,
    blend: BlendMode,
    /// clip bounds (intersection of rects with the surface) when the layer was pushed
    bounds: [i32; 4],
}

pub struct Machine {
    w: i32,
    h: i32,
    stack: Vec<RefLayer>,
    clip: ClipModel,
    xf: Xf,
}

pub struct Outcome {
    /// final surface, main variant and alternative variant (differ only where a pop happened
    /// under a partially covering clip path)
    pub main: Vec<u32>,
    pub alt: Vec<u32>,
    /// pixels whose value could not be decided (reference primitive undefined)
    pub undecided: Vec<bool>,
}

impl Machine {
    pub fn new(w: i32, h: i32, px: Vec<u32>) -> Machine {
        let dt = DrawTarget::from_vec(w, h, px.clone());
        Machine { w, h, stack: vec![RefLayer { dt, alt: px, opacity: 1.0, blend: BlendMode::SrcOver, bounds: [0, 0, w, h] }], clip: ClipModel::default(), xf: IDENT }
    }

    /// replay the open clip pushes (each under its own transform) on a fresh target
    fn establish(&self, dt: &mut DrawTarget) {
        for it in &self.clip.items {
            match it {
                crate::model::clip::Item::Rect(r) => dt.push_clip_rect(IntRect::new(IntPoint::new(r[0], r[1]), IntPoint::new(r[2], r[3]))),
                crate::model::clip::Item::Path(p, xf) => {
                    dt.set_transform(&xf_to(xf));
                    dt.push_clip(&p.build());
                }
            }
        }
        dt.set_transform(&xf_to(&self.xf));
    }

    /// apply one op; Err = the reference machine itself panicked (dependency defect) or the
    /// scene is not balanced
    pub fn apply(&mut self, op: &Op, undecided: &mut Vec<bool>) -> Result<(), String> {
        match op {
            Op::SetTransform(t) => {
                self.xf = *t;
                for l in self.stack.iter_mut() {
                    l.dt.set_transform(&xf_to(t));
                }
            }
            Op::PushClipRect(..) | Op::PushClip(..) => {
                self.clip.push(op, &self.xf.clone());
                for l in self.stack.iter_mut() {
                    guard(|| exec(&mut l.dt, op))?;
                }
            }
            Op::PopClip => {
                self.clip.pop();
                for l in self.stack.iter_mut() {
                    l.dt.pop_clip();
                }
            }
            Op::PushLayer(o, b) => {
                let eff = self.clip.effective(self.w, self.h)?;
                let mut dt = DrawTarget::new(self.w, self.h);
                self.establish(&mut dt);
                self.stack.push(RefLayer { dt, alt: vec![0; (self.w * self.h) as usize], opacity: *o, blend: *b, bounds: eff.rect });
            }
            Op::PopLayer => {
                if self.stack.len() < 2 {
                    return Err("unbalanced pop_layer".into());
                }
                let l = self.stack.pop().unwrap();
                let eff = self.clip.effective(self.w, self.h)?;
                let ob = pix::alpha_byte(l.opacity.max(0.0).min(1.0));
                let lp = l.dt.get_data().to_vec();
                let parent = self.stack.last_mut().unwrap();
                let w = self.w;
                let pm = parent.dt.get_data_mut();
                for y in 0..self.h {
                    for x in 0..w {
                        let i = (y * w + x) as usize;
                        let inb = x >= l.bounds[0] && x < l.bounds[2] && y >= l.bounds[1] && y < l.bounds[3];
                        let inc = x >= eff.rect[0] && x < eff.rect[2] && y >= eff.rect[1] && y < eff.rect[3];
                        if !inb && inc && (lp[i] != 0 || l.alt[i] != 0) {
                            // drawn while the clip was wider than at push time: whether a layer can
                            // hold such pixels is not something the property lets us demand either way
                            undecided[i] = true;
                            continue;
                        }
                        if !inb || !inc || ob == 0 {
                            continue;
                        }
                        let c = eff.mask.as_ref().map(|m| m[i] as u32);
                        if c == Some(0) {
                            continue;
                        }
                        // main variant: what is drawn inside the layer is the layer's main content
                        match (pix::admissible(l.blend, lp[i], pm[i], Some(ob), c), pix::admissible(l.blend, l.alt[i], parent.alt[i], Some(ob), c)) {
                            (Some(a), Some(b)) => {
                                // implementation-like choice: combined primitive for SrcOver, multiply-then-weight otherwise
                                let pick = if l.blend == BlendMode::SrcOver { 0 } else { 1 };
                                pm[i] = a[pick];
                                parent.alt[i] = b[1 - pick];
                            }
                            _ => undecided[i] = true,
                        }
                    }
                }
            }
            draw => {
                let top = self.stack.last_mut().unwrap();
                // keep the alternative variant in step: draw on a scratch target holding `alt`
                let same = top.alt == top.dt.get_data();
                if !same {
                    let mut scratch = DrawTarget::from_vec(self.w, self.h, top.alt.clone());
                    // same clip stack and transform
                    let m = Machine { w: self.w, h: self.h, stack: Vec::new(), clip: self.clip.clone(), xf: self.xf };
                    m.establish(&mut scratch);
                    guard(|| exec(&mut scratch, draw))?;
                    let top = self.stack.last_mut().unwrap();
                    top.alt = scratch.get_data().to_vec();
                    guard(|| exec(&mut top.dt, draw))?;
                } else {
                    guard(|| exec(&mut top.dt, draw))?;
                    top.alt = top.dt.get_data().to_vec();
                }
            }
        }
        Ok(())
    }

    pub fn run(w: i32, h: i32, px: Vec<u32>, ops: &[Op]) -> Result<Outcome, String> {
        let mut m = Machine::new(w, h, px);
        let mut und = vec![false; (w * h).max(0) as usize];
        for op in ops {
            m.apply(op, &mut und)?;
        }
        if m.stack.len() != 1 {
            return Err("scene leaves layers open".into());
        }
        let base = m.stack.pop().unwrap();
        Ok(Outcome { main: base.dt.get_data().to_vec(), alt: base.alt, undecided: und })
    }
}
