pub mod rast;
