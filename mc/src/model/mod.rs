pub mod rast;
pub mod pix;
pub mod step;
