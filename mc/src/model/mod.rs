pub mod rast;
pub mod pix;
pub mod step;
pub mod wind;
pub mod curve;
pub mod clip;
pub mod layer;
