//! M-CLIP: the clip stack as a plain Vec of pushed items. Effective clip = intersection of all
//! pushed rectangles (and the surface); coverage = product (muldiv255) of the antialiased
//! full-surface coverages of all pushed paths.

use crate::model::step::ref_cov_path;
use crate::scene::*;
use sw_composite::muldiv255;

#[derive(Clone, Debug)]
pub enum Item {
    Rect([i32; 4]),
    /// path and the transform in force when it was pushed
    Path(PathSpec, Xf),
}

#[derive(Clone, Debug, Default)]
pub struct ClipModel {
    pub items: Vec<Item>,
}

pub struct Effective {
    /// intersection of all rects with the surface; [0,0,0,0] when empty
    pub rect: [i32; 4],
    /// per-pixel admissible coverage values (1..=6 candidates) when at least one path is pushed
    pub cov: Option<Vec<Vec<u8>>>,
    /// the push-order product (first candidate), as a flat mask
    pub mask: Option<Vec<u8>>,
}

impl ClipModel {
    pub fn push(&mut self, op: &Op, xf: &Xf) {
        match op {
            Op::PushClipRect(a, b, c, d) => self.items.push(Item::Rect([*a, *b, *c, *d])),
            Op::PushClip(p) => self.items.push(Item::Path(p.clone(), *xf)),
            _ => {}
        }
    }
    pub fn pop(&mut self) {
        self.items.pop();
    }

    pub fn effective(&self, w: i32, h: i32) -> Result<Effective, String> {
        let mut r = [0, 0, w, h];
        let mut covs: Vec<Vec<u8>> = Vec::new();
        for it in &self.items {
            match it {
                Item::Rect(q) => {
                    r = [r[0].max(q[0]), r[1].max(q[1]), r[2].min(q[2]), r[3].min(q[3])];
                }
                Item::Path(p, xf) => covs.push(ref_cov_path(w, h, xf, p, true)?),
            }
        }
        if r[2] <= r[0] || r[3] <= r[1] {
            r = [0, 0, 0, 0];
        }
        if covs.is_empty() {
            return Ok(Effective { rect: r, cov: None, mask: None });
        }
        let n = (w * h) as usize;
        let mut cand: Vec<Vec<u8>> = Vec::with_capacity(n);
        let mut mask = Vec::with_capacity(n);
        let k = covs.len();
        // all association orders matter only from three paths on
        let perms: Vec<Vec<usize>> = if k <= 2 { vec![(0..k).collect()] } else if k == 3 { vec![vec![0, 1, 2], vec![0, 2, 1], vec![1, 2, 0]] } else { vec![(0..k).collect()] };
        for i in 0..n {
            let mut c = Vec::new();
            for p in &perms {
                let mut v = covs[p[0]][i] as u32;
                for &j in &p[1..] {
                    v = muldiv255(covs[j][i] as u32, v);
                }
                if !c.contains(&(v as u8)) {
                    c.push(v as u8);
                }
            }
            mask.push(c[0]);
            cand.push(c);
        }
        Ok(Effective { rect: r, cov: Some(cand), mask: Some(mask) })
    }
}
