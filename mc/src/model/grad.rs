//! M-GRAD: gradient colour function g(t) (piecewise-linear on unpremultiplied stops,
//! premultiplied, scaled by the global alpha, Pad / Repeat / Reflect) and the four t(x, y)
//! definitions, all in f64.

use crate::scene::*;

/// premultiplied [a, r, g, b] in 0..=255 (real valued) of the gradient at parameter t in [0,1]
pub fn color_at(stops: &[Stop], t: f64) -> [f64; 4] {
    let ch = |c: u32| [(c >> 24) as f64, ((c >> 16) & 0xff) as f64, ((c >> 8) & 0xff) as f64, (c & 0xff) as f64];
    let un = if stops.is_empty() {
        [0.0; 4]
    } else if t <= stops[0].pos as f64 {
        ch(stops[0].color)
    } else if t >= stops[stops.len() - 1].pos as f64 {
        ch(stops[stops.len() - 1].color)
    } else {
        let mut out = ch(stops[stops.len() - 1].color);
        for w in stops.windows(2) {
            let (p0, p1) = (w[0].pos as f64, w[1].pos as f64);
            if t >= p0 && t <= p1 {
                let (c0, c1) = (ch(w[0].color), ch(w[1].color));
                if p1 > p0 {
                    let f = (t - p0) / (p1 - p0);
                    out = [c0[0] + (c1[0] - c0[0]) * f, c0[1] + (c1[1] - c0[1]) * f, c0[2] + (c1[2] - c0[2]) * f, c0[3] + (c1[3] - c0[3]) * f];
                } else {
                    out = c1;
                }
                break;
            }
        }
        out
    };
    let a = un[0];
    [a, un[1] * a / 255.0, un[2] * a / 255.0, un[3] * a / 255.0]
}

pub fn spread_t(t: f64, s: Spr) -> f64 {
    match s {
        Spr::Pad => t.max(0.0).min(1.0),
        Spr::Repeat => t - t.floor(),
        Spr::Reflect => {
            let k = t - 2.0 * (t / 2.0).floor();
            if k > 1.0 {
                2.0 - k
            } else {
                k
            }
        }
    }
}

/// per-channel [min, max] of the alpha-scaled premultiplied colour over t' in [t-d, t+d]
pub fn window(stops: &[Stop], spread: Spr, t: f64, d: f64, alpha: f64) -> ([f64; 4], [f64; 4]) {
    let mut lo = [f64::INFINITY; 4];
    let mut hi = [f64::NEG_INFINITY; 4];
    let mut visit = |tt: f64| {
        let c = color_at(stops, spread_t(tt, spread));
        for k in 0..4 {
            let v = c[k] * alpha;
            lo[k] = lo[k].min(v);
            hi[k] = hi[k].max(v);
        }
    };
    let n = 96;
    for i in 0..=n {
        visit(t - d + 2.0 * d * i as f64 / n as f64);
    }
    // breakpoints: stop positions in every period touched by the window, both sides of each
    let k0 = (t - d).floor() as i64 - 1;
    let k1 = (t + d).ceil() as i64 + 1;
    for k in k0..=k1 {
        for s in stops {
            for base in [k as f64 + s.pos as f64, k as f64 + 1.0 - s.pos as f64, k as f64] {
                for e in [-1e-9, 0.0, 1e-9] {
                    let tt = base + e;
                    if tt >= t - d && tt <= t + d {
                        visit(tt);
                    }
                }
            }
        }
    }
    (lo, hi)
}

#[derive(Clone, Copy, Debug)]
pub enum TVal {
    T(f64),
    /// no valid circle: the gradient is transparent here
    Empty,
    /// t is discontinuous here (gradient centre, sweep seam): not asserted
    Skip,
}

/// t at user-space point (ux, uy); `px_user` = size of one device pixel in user units (for
/// the exclusion zones around discontinuities)
pub fn t_at(src: &SrcSpec, ux: f64, uy: f64, px_user: f64) -> TVal {
    match src {
        SrcSpec::Linear { p, .. } => {
            let (sx, sy, ex, ey) = (p[0] as f64, p[1] as f64, p[2] as f64, p[3] as f64);
            let (dx, dy) = (ex - sx, ey - sy);
            let l2 = dx * dx + dy * dy;
            if l2 == 0.0 {
                return TVal::Skip;
            }
            TVal::T(((ux - sx) * dx + (uy - sy) * dy) / l2)
        }
        SrcSpec::Radial { p, .. } => {
            let (cx, cy, r) = (p[0] as f64, p[1] as f64, p[2] as f64);
            TVal::T(((ux - cx).powi(2) + (uy - cy).powi(2)).sqrt() / r)
        }
        SrcSpec::TwoCircle { p, .. } => {
            let (c1x, c1y, r1, c2x, c2y, r2) = (p[0] as f64, p[1] as f64, p[2] as f64, p[3] as f64, p[4] as f64, p[5] as f64);
            let (cdx, cdy, pdx, pdy, dr) = (c2x - c1x, c2y - c1y, ux - c1x, uy - c1y, r2 - r1);
            let a = cdx * cdx + cdy * cdy - dr * dr;
            let b = pdx * cdx + pdy * cdy + r1 * dr;
            let c = pdx * pdx + pdy * pdy - r1 * r1;
            if a.abs() < 1e-12 {
                if b.abs() < 1e-12 {
                    return TVal::Skip;
                }
                let t = 0.5 * c / b;
                return if r1 + t * dr >= 0.0 { TVal::T(t) } else { TVal::Empty };
            }
            let disc = b * b - a * c;
            if disc < -1e-9 {
                return TVal::Empty;
            }
            if disc.abs() <= 1e-9 * (1.0 + b * b) {
                return TVal::Skip;
            }
            let sq = disc.max(0.0).sqrt();
            let (t1, t2) = ((b + sq) / a, (b - sq) / a);
            let (big, small) = if t1 > t2 { (t1, t2) } else { (t2, t1) };
            if r1 + big * dr >= 0.0 {
                TVal::T(big)
            } else if r1 + small * dr >= 0.0 {
                TVal::T(small)
            } else {
                TVal::Empty
            }
        }
        SrcSpec::Sweep { p, .. } => {
            let (cx, cy, a0, a1) = (p[0] as f64, p[1] as f64, p[2] as f64, p[3] as f64);
            let (dx, dy) = (ux - cx, uy - cy);
            let dist = (dx * dx + dy * dy).sqrt();
            if dist < 1.5 * px_user {
                return TVal::Skip;
            }
            // seam: the ray at angle 0 (positive x)
            if dx > 0.0 && dy.abs() < 1.0 * px_user {
                return TVal::Skip;
            }
            let mut ang = dy.atan2(dx).to_degrees();
            if ang < 0.0 {
                ang += 360.0;
            }
            if a1 == a0 {
                return TVal::Skip;
            }
            TVal::T((ang - a0) / (a1 - a0))
        }
        _ => TVal::Skip,
    }
}
