//! M-DASH: independent arc-length dasher (f64). For every subpath: cumulative lengths,
//! on-intervals of the cyclic (odd -> doubled) dash array shifted by the offset (Euclidean
//! remainder), restarted per subpath, pieces joined across a closed subpath's seam; output =
//! open polylines, or one closed polyline when the whole closed subpath is on.

use crate::model::curve::{dist, P2};
use crate::model::region::Polyline;

pub struct Dashed {
    pub pieces: Vec<Polyline>,
    /// a dash boundary falls within `tol` of a vertex, of the subpath's start/end or of
    /// another boundary: the piece structure is ambiguous there
    pub ambiguous: bool,
    pub on_length: f64,
}

fn point_at(pts: &[P2], cum: &[f64], s: f64) -> (P2, usize) {
    // segment index i such that cum[i] <= s <= cum[i+1]
    let mut i = 0;
    while i + 2 < cum.len() && s > cum[i + 1] {
        i += 1;
    }
    let l = cum[i + 1] - cum[i];
    let t = if l > 0.0 { (s - cum[i]) / l } else { 0.0 };
    let (a, b) = (pts[i], pts[i + 1]);
    ((a.0 + (b.0 - a.0) * t, a.1 + (b.1 - a.1) * t), i)
}

pub fn dash(lines: &[Polyline], array: &[f64], offset: f64, tol: f64) -> Option<Dashed> {
    let mut arr: Vec<f64> = array.to_vec();
    if arr.len() % 2 == 1 {
        arr.extend_from_slice(array);
    }
    let period: f64 = arr.iter().sum();
    if !(period > 0.0) || !period.is_finite() {
        return None;
    }
    let mut out = Dashed { pieces: Vec::new(), ambiguous: false, on_length: 0.0 };
    // pattern position of the start of every subpath
    let phase = offset.rem_euclid(period);
    for pl in lines {
        // vertex ring incl. the closing segment
        let mut pts = pl.pts.clone();
        if pl.closed {
            pts.push(pl.pts[0]);
        }
        let mut cum = vec![0.0];
        for w in pts.windows(2) {
            let c = cum[cum.len() - 1] + dist(w[0], w[1]);
            cum.push(c);
        }
        let total = *cum.last().unwrap();
        if total == 0.0 {
            continue;
        }
        // on-intervals [s0, s1] clipped to [0, total]
        let mut ivs: Vec<(f64, f64)> = Vec::new();
        let mut pos = -phase; // path position of the start of the current pattern period
        while pos < total {
            let mut b = pos;
            for (k, d) in arr.iter().enumerate() {
                let (s0, s1) = (b, b + d);
                b = s1;
                if k % 2 == 0 {
                    let (c0, c1) = (s0.max(0.0), s1.min(total));
                    if c1 > c0 || (c1 == c0 && *d > 0.0 && c0 > 0.0 && c0 < total && false) {
                        // merge with a directly preceding interval (zero-length off dash)
                        if let Some(last) = ivs.last_mut() {
                            if (last.1 - c0).abs() == 0.0 {
                                last.1 = c1;
                                continue;
                            }
                        }
                        ivs.push((c0, c1));
                    }
                }
            }
            pos += period;
        }
        // ambiguity: boundaries near vertices, near the ends, near each other
        for &(s0, s1) in &ivs {
            for s in [s0, s1] {
                let interior_boundary = s > 0.0 && s < total;
                for (vi, c) in cum.iter().enumerate() {
                    let is_end = vi == 0 || vi == cum.len() - 1;
                    if (s - c).abs() < tol && (interior_boundary || !is_end) {
                        out.ambiguous = true;
                    }
                }
                if interior_boundary && (s < tol || total - s < tol) {
                    out.ambiguous = true;
                }
            }
            // a short on-interval is only well defined when it is a whole dash entry (a "dot"),
            // not the clipped remainder of one
            if s1 - s0 < tol && !arr.iter().step_by(2).any(|d| (*d - (s1 - s0)).abs() < 1e-12) {
                out.ambiguous = true;
            }
        }
        for w in ivs.windows(2) {
            if w[1].0 - w[0].1 < tol {
                out.ambiguous = true;
            }
        }
        // pieces
        let mut pieces: Vec<Vec<P2>> = Vec::new();
        for &(s0, s1) in &ivs {
            out.on_length += s1 - s0;
            let (p0, i0) = point_at(&pts, &cum, s0);
            let (p1, i1) = point_at(&pts, &cum, s1);
            let mut v = vec![p0];
            for i in i0 + 1..=i1 {
                if cum[i] > s0 && cum[i] < s1 {
                    v.push(pts[i]);
                }
            }
            v.push(p1);
            v.dedup_by(|a, b| dist(*a, *b) < 1e-9);
            pieces.push(v);
        }
        if pl.closed && !pieces.is_empty() {
            let starts_on = ivs[0].0 == 0.0;
            let ends_on = ivs[ivs.len() - 1].1 == total;
            if starts_on && ends_on {
                if pieces.len() == 1 {
                    // the whole subpath is on: the complete closed outline
                    let mut ring = pieces.pop().unwrap();
                    ring.pop(); // last point == first
                    out.pieces.push(Polyline { pts: ring, closed: true });
                    continue;
                }
                // join the piece reaching the end to the piece starting at the beginning
                let first = pieces.remove(0);
                let mut last = pieces.pop().unwrap();
                last.extend(first.into_iter().skip(1));
                pieces.push(last);
            }
        }
        for p in pieces {
            if p.len() >= 2 {
                out.pieces.push(Polyline { pts: p, closed: false });
            }
        }
    }
    Some(out)
}
