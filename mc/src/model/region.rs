//! M-REGION: the analytic stroke region as a union of convex pieces (one rectangle per
//! segment, join pieces on the outer side of every interior / closing vertex, cap pieces at
//! the ends of open subpaths), with point queries "inside by more than d" / "outside by more
//! than d". Round pieces come in an inscribed variant (used for inside claims) and a
//! circumscribed one (used for outside claims). All f64.

use crate::model::curve::{dist, dist_seg, P2};

pub type Poly = Vec<P2>;

#[derive(Clone, Debug)]
pub struct Polyline {
    pub pts: Vec<P2>,
    pub closed: bool,
}

#[derive(Clone, Copy, Debug, PartialEq)]
pub enum Join {
    Miter,
    Round,
    Bevel,
}

#[derive(Clone, Copy, Debug, PartialEq)]
pub enum Cap {
    Butt,
    Round,
    Square,
}

#[derive(Clone, Debug)]
pub struct Region {
    /// pieces never larger than the true region
    pub inner: Vec<Poly>,
    /// pieces never smaller than the true region
    pub outer: Vec<Poly>,
}

fn sub(a: P2, b: P2) -> P2 {
    (a.0 - b.0, a.1 - b.1)
}
fn add(a: P2, b: P2) -> P2 {
    (a.0 + b.0, a.1 + b.1)
}
fn mul(a: P2, k: f64) -> P2 {
    (a.0 * k, a.1 * k)
}
fn dot(a: P2, b: P2) -> f64 {
    a.0 * b.0 + a.1 * b.1
}
fn cross(a: P2, b: P2) -> f64 {
    a.0 * b.1 - a.1 * b.0
}
fn unit(a: P2) -> Option<P2> {
    let l = (a.0 * a.0 + a.1 * a.1).sqrt();
    if l == 0.0 {
        None
    } else {
        Some((a.0 / l, a.1 / l))
    }
}
/// left normal
fn perp(d: P2) -> P2 {
    (-d.1, d.0)
}

const ARC_STEPS_PER_PI: usize = 48;

/// circular sector centre c radius r from angle a0 sweeping by `sweep` (|sweep| <= pi):
/// (inscribed polygon, circumscribed polygon)
thread_local! {
    /// when positive: round pieces are approximated so finely that the inscribed and the
    /// circumscribed polygon differ by at most this much (user units); 0 = ARC_STEPS_PER_PI
    static ARC_TOL: std::cell::Cell<f64> = std::cell::Cell::new(0.0);
}

/// run `f` with round pieces approximated to within `tol` user units
pub fn with_arc_tolerance<T>(tol: f64, f: impl FnOnce() -> T) -> T {
    let old = ARC_TOL.with(|c| c.replace(tol));
    let r = f();
    ARC_TOL.with(|c| c.set(old));
    r
}

fn sector(c: P2, r: f64, a0: f64, sweep: f64) -> (Poly, Poly) {
    let mut n = ((sweep.abs() / std::f64::consts::PI * ARC_STEPS_PER_PI as f64).ceil() as usize).max(2);
    let tol = ARC_TOL.with(|c| c.get());
    if tol > 0.0 && r > tol {
        // r (1 / cos(step / 2) - 1) <= tol
        let step = 2.0 * (1.0 / (1.0 + tol / r)).acos();
        n = n.max(((sweep.abs() / step).ceil() as usize).min(1 << 12));
    }
    let step = sweep / n as f64;
    let rr = r / (step.abs() / 2.0).cos();
    let mut inn = vec![c];
    let mut out = vec![c];
    for i in 0..=n {
        let a = a0 + step * i as f64;
        inn.push((c.0 + r * a.cos(), c.1 + r * a.sin()));
        out.push((c.0 + rr * a.cos(), c.1 + rr * a.sin()));
    }
    (inn, out)
}

fn angle(v: P2) -> f64 {
    v.1.atan2(v.0)
}

/// sweep from direction a to direction b the short way (in (-pi, pi])
fn short_sweep(a: P2, b: P2) -> f64 {
    cross(a, b).atan2(dot(a, b))
}

pub struct StrokeParams {
    pub width: f64,
    pub join: Join,
    pub cap: Cap,
    pub miter_limit: f64,
}

/// Result of building a region: None when a decision sits exactly on the miter limit
/// ("either" band) and the caller should not assert.
pub fn stroke_region(lines: &[Polyline], sp: &StrokeParams) -> Option<Region> {
    let hw = sp.width / 2.0;
    let mut reg = Region { inner: Vec::new(), outer: Vec::new() };
    let mut both = |reg: &mut Region, p: Poly| {
        reg.inner.push(p.clone());
        reg.outer.push(p);
    };
    for pl in lines {
        // drop repeated points (zero-length segments are skipped by the stroker)
        let mut pts: Vec<P2> = Vec::new();
        for &p in &pl.pts {
            if pts.last() != Some(&p) {
                pts.push(p);
            }
        }
        let mut closed = pl.closed;
        if closed && pts.len() >= 2 && pts.first() == pts.last() {
            pts.pop();
        }
        if pts.len() < 2 {
            continue;
        }
        if closed && pts.len() < 2 {
            closed = false;
        }
        let n = pts.len();
        let nseg = if closed { n } else { n - 1 };
        let dirs: Vec<P2> = (0..nseg).map(|i| unit(sub(pts[(i + 1) % n], pts[i])).unwrap()).collect();
        for i in 0..nseg {
            let (a, b) = (pts[i], pts[(i + 1) % n]);
            let nn = mul(perp(dirs[i]), hw);
            both(&mut reg, vec![add(a, nn), add(b, nn), sub(b, nn), sub(a, nn)]);
        }
        // joins
        let joins: Vec<(usize, usize, usize)> = if closed { (0..n).map(|i| ((i + n - 1) % n, i, i)).collect() } else { (1..n - 1).map(|i| (i - 1, i, i)).collect() };
        for (s_in, vtx, s_out) in joins {
            let v = pts[vtx];
            let (d1, d2) = (dirs[s_in], dirs[s_out]);
            let cr = cross(d1, d2);
            let dt = dot(d1, d2);
            if cr.abs() < 1e-12 && dt > 0.0 {
                continue; // straight on: no join
            }
            let reversal = cr.abs() < 1e-12 && dt < 0.0;
            // outer-side normals
            let (o1, o2) = if reversal {
                (perp(d1), mul(perp(d1), -1.0))
            } else if cr > 0.0 {
                (mul(perp(d1), -1.0), mul(perp(d2), -1.0))
            } else {
                (perp(d1), perp(d2))
            };
            let mut kind = sp.join;
            if kind == Join::Miter {
                // miter ratio 1 / cos(phi / 2), phi = turning angle
                let c = ((1.0 + dot(o1, o2)) / 2.0).max(0.0).sqrt();
                let ratio = if c > 0.0 { 1.0 / c } else { f64::INFINITY };
                if (ratio - sp.miter_limit).abs() <= 1e-4 * ratio.min(1e12) {
                    return None;
                }
                if !(ratio <= sp.miter_limit) {
                    kind = Join::Bevel;
                }
            }
            match kind {
                Join::Bevel => {
                    if !reversal {
                        both(&mut reg, orient(vec![v, add(v, mul(o1, hw)), add(v, mul(o2, hw))]));
                    }
                }
                Join::Miter => {
                    let tip = add(v, mul(add(o1, o2), hw / (1.0 + dot(o1, o2))));
                    both(&mut reg, orient(vec![v, add(v, mul(o1, hw)), tip, add(v, mul(o2, hw))]));
                }
                Join::Round => {
                    let sweep = if reversal {
                        // half disc on the far side of the turn (towards d1)
                        let s = short_sweep(o1, d1);
                        2.0 * s
                    } else {
                        short_sweep(o1, o2)
                    };
                    let (i, o) = sector(v, hw, angle(o1), sweep);
                    reg.inner.push(orient(i));
                    reg.outer.push(orient(o));
                }
            }
        }
        // caps
        if !closed {
            for (p, outward) in [(pts[0], mul(dirs[0], -1.0)), (pts[n - 1], dirs[nseg - 1])] {
                let nn = perp(outward);
                match sp.cap {
                    Cap::Butt => {}
                    Cap::Square => {
                        let a = add(p, mul(nn, hw));
                        let b = sub(p, mul(nn, hw));
                        let e = mul(outward, hw);
                        both(&mut reg, orient(vec![a, add(a, e), add(b, e), b]));
                    }
                    Cap::Round => {
                        // from +nn through outward to -nn
                        let s = short_sweep(nn, outward) * 2.0;
                        let (i, o) = sector(p, hw, angle(nn), s);
                        reg.inner.push(orient(i));
                        reg.outer.push(orient(o));
                    }
                }
            }
        }
    }
    for p in reg.inner.iter_mut().chain(reg.outer.iter_mut()) {
        *p = orient(std::mem::take(p));
    }
    Some(reg)
}

fn area2(p: &Poly) -> f64 {
    let mut a = 0.0;
    for i in 0..p.len() {
        a += cross(p[i], p[(i + 1) % p.len()]);
    }
    a
}

/// counter-clockwise orientation (positive signed area)
fn orient(mut p: Poly) -> Poly {
    if area2(&p) < 0.0 {
        p.reverse();
    }
    p
}

impl Region {
    pub fn transform(&self, m: &[f64; 6]) -> Region {
        let f = |polys: &Vec<Poly>| polys.iter().map(|p| orient(p.iter().map(|q| (q.0 * m[0] + q.1 * m[2] + m[4], q.0 * m[1] + q.1 * m[3] + m[5])).collect())).collect();
        Region { inner: f(&self.inner), outer: f(&self.outer) }
    }
    pub fn bbox(&self) -> Option<(f64, f64, f64, f64)> {
        let mut b: Option<(f64, f64, f64, f64)> = None;
        for p in &self.outer {
            for q in p {
                b = Some(match b {
                    None => (q.0, q.1, q.0, q.1),
                    Some((x0, y0, x1, y1)) => (x0.min(q.0), y0.min(q.1), x1.max(q.0), y1.max(q.1)),
                });
            }
        }
        b
    }
}

pub fn poly_contains(p: &Poly, q: P2, eps: f64) -> bool {
    if p.len() < 3 || area2(p).abs() < 1e-18 {
        return false;
    }
    for i in 0..p.len() {
        let (a, b) = (p[i], p[(i + 1) % p.len()]);
        let e = sub(b, a);
        let l = (e.0 * e.0 + e.1 * e.1).sqrt();
        if l == 0.0 {
            continue;
        }
        // signed distance to the edge's line, positive inside (CCW)
        if cross(e, sub(q, a)) / l < -eps {
            return false;
        }
    }
    true
}

pub fn union_contains(polys: &[Poly], q: P2) -> bool {
    polys.iter().any(|p| poly_contains(p, q, 1e-9))
}

/// distance from q to the union of the polygons (0 inside)
pub fn dist_to_union(polys: &[Poly], q: P2) -> f64 {
    let mut d = f64::INFINITY;
    for p in polys {
        if poly_contains(p, q, 0.0) {
            return 0.0;
        }
        for i in 0..p.len() {
            d = d.min(dist_seg(q, p[i], p[(i + 1) % p.len()]));
        }
    }
    d
}

/// the parts of the pieces' edges that are boundary of the union: an edge point is boundary
/// where the point 1e-6 outside it lies in no other piece
fn bbox_of(p: &Poly) -> (f64, f64, f64, f64) {
    let mut b = (f64::INFINITY, f64::INFINITY, f64::NEG_INFINITY, f64::NEG_INFINITY);
    for q in p {
        b = (b.0.min(q.0), b.1.min(q.1), b.2.max(q.0), b.3.max(q.1));
    }
    b
}

/// distance from q to the boundary of one polygon
pub fn own_depth(p: &Poly, q: P2) -> f64 {
    let mut d = f64::INFINITY;
    for i in 0..p.len() {
        d = d.min(dist_seg(q, p[i], p[(i + 1) % p.len()]));
    }
    d
}

pub fn exposed_boundary(polys: &[Poly]) -> Vec<(P2, P2)> {
    const EPS: f64 = 1e-6;
    let mut out = Vec::new();
    let boxes: Vec<(f64, f64, f64, f64)> = polys.iter().map(bbox_of).collect();
    for (pi, p) in polys.iter().enumerate() {
        if p.len() < 3 {
            continue;
        }
        for i in 0..p.len() {
            let (a, b) = (p[i], p[(i + 1) % p.len()]);
            let e = sub(b, a);
            let l = dist(a, b);
            if l < 1e-12 {
                continue;
            }
            // outward normal of a CCW polygon edge: right of the direction
            let nrm = (e.1 / l, -e.0 / l);
            let (oa, ob) = (add(a, mul(nrm, EPS)), add(b, mul(nrm, EPS)));
            // covered parameter intervals
            let mut cov: Vec<(f64, f64)> = Vec::new();
            for (qi, qpoly) in polys.iter().enumerate() {
                if qi == pi || qpoly.len() < 3 {
                    continue;
                }
                let bb = boxes[qi];
                if oa.0.max(ob.0) < bb.0 - 1e-6 || oa.0.min(ob.0) > bb.2 + 1e-6 || oa.1.max(ob.1) < bb.1 - 1e-6 || oa.1.min(ob.1) > bb.3 + 1e-6 {
                    continue;
                }
                if let Some(iv) = clip_segment(qpoly, oa, ob) {
                    cov.push(iv);
                }
            }
            cov.sort_by(|x, y| x.0.partial_cmp(&y.0).unwrap());
            let mut t = 0.0f64;
            for (c0, c1) in cov {
                if c0 > t + 1e-9 {
                    out.push((add(a, mul(e, t)), add(a, mul(e, c0))));
                }
                t = t.max(c1);
            }
            if t < 1.0 - 1e-9 {
                out.push((add(a, mul(e, t)), b));
            }
        }
    }
    out
}

/// Cyrus-Beck: parameter interval of segment a->b inside the convex CCW polygon
fn clip_segment(p: &Poly, a: P2, b: P2) -> Option<(f64, f64)> {
    let d = sub(b, a);
    let (mut t0, mut t1) = (0.0f64, 1.0f64);
    for i in 0..p.len() {
        let (u, v) = (p[i], p[(i + 1) % p.len()]);
        let e = sub(v, u);
        let l = (e.0 * e.0 + e.1 * e.1).sqrt();
        if l < 1e-12 {
            continue;
        }
        // inside: cross(e, x - u) >= 0
        let f0 = cross(e, sub(a, u)) / l + 1e-9;
        let fd = cross(e, d) / l;
        if fd.abs() < 1e-15 {
            if f0 < 0.0 {
                return None;
            }
            continue;
        }
        let t = -f0 / fd;
        if fd > 0.0 {
            t0 = t0.max(t);
        } else {
            t1 = t1.min(t);
        }
        if t0 > t1 {
            return None;
        }
    }
    Some((t0, t1))
}

pub fn depth(exposed: &[(P2, P2)], q: P2) -> f64 {
    let mut d = f64::INFINITY;
    for (a, b) in exposed {
        d = d.min(dist_seg(q, *a, *b));
    }
    d
}


/// acceleration structure for the point queries of one region
pub struct Query {
    inner: Vec<Poly>,
    outer: Vec<Poly>,
    inner_boxes: Vec<(f64, f64, f64, f64)>,
    outer_boxes: Vec<(f64, f64, f64, f64)>,
    exposed: Vec<(P2, P2)>,
}

fn box_dist(b: &(f64, f64, f64, f64), q: P2) -> f64 {
    let dx = (b.0 - q.0).max(0.0).max(q.0 - b.2);
    let dy = (b.1 - q.1).max(0.0).max(q.1 - b.3);
    (dx * dx + dy * dy).sqrt()
}

impl Query {
    pub fn new(reg: &Region) -> Query {
        Query {
            inner_boxes: reg.inner.iter().map(bbox_of).collect(),
            outer_boxes: reg.outer.iter().map(bbox_of).collect(),
            exposed: exposed_boundary(&reg.inner),
            inner: reg.inner.clone(),
            outer: reg.outer.clone(),
        }
    }
    pub fn in_inner(&self, q: P2) -> bool {
        self.inner.iter().zip(self.inner_boxes.iter()).any(|(p, b)| box_dist(b, q) == 0.0 && poly_contains(p, q, 1e-9))
    }
    /// is q inside the union by more than `margin`? (precondition: in_inner(q))
    pub fn deeper_than(&self, q: P2, margin: f64) -> bool {
        for (a, b) in &self.exposed {
            if (q.0 < a.0.min(b.0) - margin) || (q.0 > a.0.max(b.0) + margin) || (q.1 < a.1.min(b.1) - margin) || (q.1 > a.1.max(b.1) + margin) {
                continue;
            }
            if dist_seg(q, *a, *b) <= margin {
                return false;
            }
        }
        true
    }
    /// is q farther than `margin` from the (circumscribed) union?
    pub fn farther_than(&self, q: P2, margin: f64) -> bool {
        for (p, b) in self.outer.iter().zip(self.outer_boxes.iter()) {
            if box_dist(b, q) > margin {
                continue;
            }
            if poly_contains(p, q, 0.0) {
                return false;
            }
            for i in 0..p.len() {
                if dist_seg(q, p[i], p[(i + 1) % p.len()]) <= margin {
                    return false;
                }
            }
        }
        true
    }
    pub fn depth(&self, q: P2) -> f64 {
        depth(&self.exposed, q)
    }
    pub fn exposed(&self) -> &[(P2, P2)] {
        &self.exposed
    }
}
