//! M-RAST: exact integer model of the 4x4 supersampling rasteriser for polygons whose
//! vertices lie on the quarter-pixel grid ("q" units, 4 q = 1 px).
//!
//! Property C01: on sample row s (y = s/4 px) a quarter cell [c, c+1) is covered when the
//! winding rule holds for the edges whose crossing, rounded to the nearest q, is <= c, i.e.
//! whose exact crossing X satisfies X < c + 1/2 (a tie X == c + 1/2 may round either way).
//! The implementation steps a 16.16 slope truncated toward zero, so after k steps its x is
//! within k * 2^-14 q of X; crossings that close to a rounding boundary are "ambiguous" and
//! both outcomes are admitted. Everything is i64 arithmetic; no floats.

#[derive(Clone, Copy, Debug, PartialEq, Eq, Hash)]
pub enum QOp {
    M(i32, i32),
    L(i32, i32),
    Z,
}

#[derive(Clone, Copy, Debug)]
pub struct QEdge {
    pub x1: i64,
    pub y1: i64,
    pub x2: i64,
    pub y2: i64,
    pub w: i32,
}

/// Path-to-edges semantics of filling: MoveTo implicitly closes the open subpath, LineTo
/// without a current point starts a subpath there, Close returns the cursor to the subpath
/// start, and the last subpath is closed implicitly. `cursor` is the (current, first) point
/// the target holds when the path is applied (None on a fresh target).
pub fn edges_from_ops(ops: &[QOp]) -> Vec<QEdge> {
    let mut cur: Option<(i32, i32)> = None;
    let mut first: Option<(i32, i32)> = None;
    let mut out = Vec::new();
    fn add(out: &mut Vec<QEdge>, a: (i32, i32), b: (i32, i32)) {
        if a.1 == b.1 {
            return;
        }
        if b.1 < a.1 {
            out.push(QEdge { x1: b.0 as i64, y1: b.1 as i64, x2: a.0 as i64, y2: a.1 as i64, w: -1 });
        } else {
            out.push(QEdge { x1: a.0 as i64, y1: a.1 as i64, x2: b.0 as i64, y2: b.1 as i64, w: 1 });
        }
    }
    for op in ops {
        match *op {
            QOp::M(x, y) => {
                if let (Some(f), Some(c)) = (first, cur) {
                    add(&mut out, c, f);
                }
                cur = Some((x, y));
                first = Some((x, y));
            }
            QOp::L(x, y) => {
                match cur {
                    None => {
                        cur = Some((x, y));
                        first = Some((x, y));
                    }
                    Some(c) => {
                        add(&mut out, c, (x, y));
                        cur = Some((x, y));
                    }
                }
            }
            QOp::Z => {
                if let (Some(f), Some(c)) = (first, cur) {
                    add(&mut out, c, f);
                }
                cur = first;
            }
        }
    }
    if let (Some(f), Some(c)) = (first, cur) {
        add(&mut out, c, f);
    }
    out
}

#[derive(Clone, Copy, PartialEq, Debug)]
pub enum Rule {
    NonZero,
    EvenOdd,
}

impl Rule {
    #[inline]
    pub fn inside(self, w: i32) -> bool {
        match self {
            Rule::NonZero => w != 0,
            Rule::EvenOdd => w & 1 != 0,
        }
    }
}

/// Per-pixel result of the model.
pub struct Cov {
    pub w: usize,
    pub h: usize,
    /// number of certainly covered cells (0..=16)
    pub kmin: Vec<u8>,
    /// number of possibly covered cells
    pub kmax: Vec<u8>,
    /// aliased mode: pixel certainly painted / possibly painted
    pub na_min: Vec<bool>,
    pub na_max: Vec<bool>,
}

/// slack of the implementation's stepped x after k steps, as a fraction k / DRIFT_DEN of a q
const DRIFT_DEN: i64 = 16384;

pub fn coverage(edges: &[QEdge], w: usize, h: usize, rule: Rule) -> Cov {
    let n = w * h;
    let mut cov = Cov { w, h, kmin: vec![0; n], kmax: vec![0; n], na_min: vec![false; n], na_max: vec![false; n] };
    if n == 0 {
        return cov;
    }
    let cells = 4 * w;
    let mut base = vec![0i32; cells];
    let mut amb: Vec<Vec<i32>> = vec![Vec::new(); cells];
    for s in 0..(4 * h as i64) {
        for b in base.iter_mut() {
            *b = 0;
        }
        for a in amb.iter_mut() {
            a.clear();
        }
        let mut any = false;
        for e in edges {
            if !(e.y1 <= s && s < e.y2) {
                continue;
            }
            any = true;
            let dy = e.y2 - e.y1;
            let dx = e.x2 - e.x1;
            let k = s - e.y1;
            let num = e.x1 * dy + k * dx; // X = num / dy
            // drift exists only when the 16.16 slope is inexact
            let slack2 = if (dx * DRIFT_DEN) % dy == 0 { 0 } else { 2 * k * dy };
            for c in 0..cells as i64 {
                // N < 0  <=>  X < c + 1/2  (edge is left of the cell centre: crossed)
                let nn = 2 * num - (2 * c + 1) * dy;
                if nn.abs() * DRIFT_DEN <= slack2 || nn == 0 {
                    amb[c as usize].push(e.w);
                } else if nn < 0 {
                    base[c as usize] += e.w;
                }
            }
        }
        if !any {
            continue;
        }
        let py = (s / 4) as usize;
        for c in 0..cells {
            let (lo, hi) = if amb[c].is_empty() {
                let i = rule.inside(base[c]);
                (i, i)
            } else if amb[c].len() > 6 {
                (false, true)
            } else {
                let m = amb[c].len();
                let mut lo = true;
                let mut hi = false;
                for mask in 0..(1u32 << m) {
                    let mut wsum = base[c];
                    for (j, ww) in amb[c].iter().enumerate() {
                        if mask & (1 << j) != 0 {
                            wsum += ww;
                        }
                    }
                    let i = rule.inside(wsum);
                    lo &= i;
                    hi |= i;
                }
                (lo, hi)
            };
            let px = c / 4;
            let idx = py * w + px;
            if lo {
                cov.kmin[idx] += 1;
            }
            if hi {
                cov.kmax[idx] += 1;
            }
            if s % 4 == 0 && c % 4 == 3 {
                cov.na_min[idx] = lo;
                cov.na_max[idx] = hi;
            }
        }
    }
    cov
}

/// is alpha `a` admissible for a pixel with between kmin and kmax covered cells?
#[inline]
pub fn alpha_ok(a: u32, kmin: u8, kmax: u8) -> bool {
    for k in kmin..=kmax {
        let k = k as u32;
        if k == 0 {
            if a == 0 {
                return true;
            }
        } else if a == (16 * k).min(255) || a == 16 * k - 1 {
            return true;
        }
    }
    false
}
