//! M-CURVE: f64 evaluation of quadratic / cubic Béziers, closest-parameter search and
//! point-to-polyline distances.

pub type P2 = (f64, f64);

#[derive(Clone, Copy, Debug)]
pub enum Curve {
    Quad(P2, P2, P2),
    Cubic(P2, P2, P2, P2),
}

fn lerp(a: P2, b: P2, t: f64) -> P2 {
    (a.0 + (b.0 - a.0) * t, a.1 + (b.1 - a.1) * t)
}

impl Curve {
    pub fn eval(&self, t: f64) -> P2 {
        match *self {
            Curve::Quad(a, b, c) => lerp(lerp(a, b, t), lerp(b, c, t), t),
            Curve::Cubic(a, b, c, d) => {
                let ab = lerp(a, b, t);
                let bc = lerp(b, c, t);
                let cd = lerp(c, d, t);
                lerp(lerp(ab, bc, t), lerp(bc, cd, t), t)
            }
        }
    }
    pub fn start(&self) -> P2 {
        match *self {
            Curve::Quad(a, _, _) => a,
            Curve::Cubic(a, _, _, _) => a,
        }
    }
    pub fn end(&self) -> P2 {
        match *self {
            Curve::Quad(_, _, c) => c,
            Curve::Cubic(_, _, _, d) => d,
        }
    }
    /// (distance, parameter) of the point of the curve closest to p with parameter >= tmin
    pub fn closest(&self, p: P2, tmin: f64) -> (f64, f64) {
        let n = 256;
        let mut best = (f64::INFINITY, tmin);
        for i in 0..=n {
            let t = tmin + (1.0 - tmin) * i as f64 / n as f64;
            let d = dist(self.eval(t), p);
            if d < best.0 {
                best = (d, t);
            }
        }
        // refine by ternary-ish search around the best sample
        let mut lo = (best.1 - (1.0 - tmin) / n as f64).max(tmin);
        let mut hi = (best.1 + (1.0 - tmin) / n as f64).min(1.0);
        for _ in 0..40 {
            let m1 = lo + (hi - lo) / 3.0;
            let m2 = hi - (hi - lo) / 3.0;
            if dist(self.eval(m1), p) < dist(self.eval(m2), p) {
                hi = m2;
            } else {
                lo = m1;
            }
        }
        let t = (lo + hi) / 2.0;
        let d = dist(self.eval(t), p);
        if d < best.0 {
            (d, t)
        } else {
            best
        }
    }
    /// smallest parameter >= tmin at which the curve passes within `thr` of p (first local
    /// minimum of the distance along the curve), or the global closest point if there is none
    pub fn first_hit(&self, p: P2, tmin: f64, thr: f64) -> (f64, f64) {
        let n = 512usize;
        let tt = |i: usize| tmin + (1.0 - tmin) * i as f64 / n as f64;
        let d: Vec<f64> = (0..=n).map(|i| dist(self.eval(tt(i)), p)).collect();
        for i in 0..=n {
            let left = if i == 0 { f64::INFINITY } else { d[i - 1] };
            let right = if i == n { f64::INFINITY } else { d[i + 1] };
            if d[i] <= left && d[i] <= right {
                let mut lo = tt(i.saturating_sub(1));
                let mut hi = tt((i + 1).min(n));
                for _ in 0..50 {
                    let m1 = lo + (hi - lo) / 3.0;
                    let m2 = hi - (hi - lo) / 3.0;
                    if dist(self.eval(m1), p) < dist(self.eval(m2), p) {
                        hi = m2;
                    } else {
                        lo = m1;
                    }
                }
                let t = (lo + hi) / 2.0;
                let dd = dist(self.eval(t), p).min(d[i]);
                if dd <= thr {
                    return (dd, t);
                }
            }
        }
        self.closest(p, tmin)
    }
    pub fn sample(&self, n: usize) -> Vec<P2> {
        (0..=n).map(|i| self.eval(i as f64 / n as f64)).collect()
    }
}

pub fn dist(a: P2, b: P2) -> f64 {
    ((a.0 - b.0).powi(2) + (a.1 - b.1).powi(2)).sqrt()
}

pub fn dist_seg(p: P2, a: P2, b: P2) -> f64 {
    let (dx, dy) = (b.0 - a.0, b.1 - a.1);
    let l2 = dx * dx + dy * dy;
    if l2 == 0.0 {
        return dist(p, a);
    }
    let t = (((p.0 - a.0) * dx + (p.1 - a.1) * dy) / l2).max(0.0).min(1.0);
    dist(p, (a.0 + t * dx, a.1 + t * dy))
}

pub fn dist_polyline(p: P2, pts: &[P2]) -> f64 {
    if pts.len() == 1 {
        return dist(p, pts[0]);
    }
    let mut d = f64::INFINITY;
    for w in pts.windows(2) {
        d = d.min(dist_seg(p, w[0], w[1]));
    }
    d
}

/// winding number of point p with respect to closed polylines (each implicitly closed)
pub fn winding_polylines(p: P2, polys: &[Vec<P2>]) -> i32 {
    let mut w = 0;
    for poly in polys {
        let n = poly.len();
        if n < 2 {
            continue;
        }
        for i in 0..n {
            let a = poly[i];
            let b = poly[(i + 1) % n];
            let cr = (b.0 - a.0) * (p.1 - a.1) - (b.1 - a.1) * (p.0 - a.0);
            if a.1 <= p.1 && p.1 < b.1 {
                if cr < 0.0 {
                    w += 1;
                }
            } else if b.1 <= p.1 && p.1 < a.1 {
                if cr > 0.0 {
                    w -= 1;
                }
            }
        }
    }
    w
}

/// distance from p to the outline of closed polylines
pub fn dist_outline(p: P2, polys: &[Vec<P2>]) -> f64 {
    let mut d = f64::INFINITY;
    for poly in polys {
        let n = poly.len();
        if n == 0 {
            continue;
        }
        if n == 1 {
            d = d.min(dist(p, poly[0]));
            continue;
        }
        for i in 0..n {
            d = d.min(dist_seg(p, poly[i], poly[(i + 1) % n]));
        }
    }
    d
}
