//! C09 Dashes follow the dash pattern along arc length, restarted per subpath.
//!
//! Oracles: (1) the dasher's output polyline (read through the cfg(raqote_verif) hook) equals
//! the pieces of an independent arc-length dasher (M-DASH); (2) the painted pixels match the
//! stroke region (M-REGION) of those pieces with a 0.75 px margin; (3) a dash array whose
//! total is not positive paints nothing.

use super::c04::{check_region, polylines_of};
use crate::engine::*;
use crate::model::curve::{dist, P2};
use crate::model::dash::dash;
use crate::model::region::*;
use crate::scene::*;

pub struct C09;

const SURF: i32 = 40;

fn scene_of(path: &PathSpec, st: &StyleSpec) -> Scene {
    Scene { w: SURF, h: SURF, dst: Dst::Zero, ops: vec![Op::Stroke(path.clone(), st.clone(), SrcSpec::Solid(0xffffffff), Opts::default())] }
}

fn norm_piece(p: &Polyline) -> Vec<P2> {
    let mut v = p.pts.clone();
    v.dedup_by(|a, b| dist(*a, *b) < 1e-4);
    // an interior vertex lying on the straight line between its neighbours (a piece cut in two
    // and re-joined, a vertex repeated along a segment) does not change the piece
    let mut i = 1;
    while i + 1 < v.len() {
        let (a, b, c) = (v[i - 1], v[i], v[i + 1]);
        let cross = (b.0 - a.0) * (c.1 - a.1) - (b.1 - a.1) * (c.0 - a.0);
        let dot = (b.0 - a.0) * (c.0 - b.0) + (b.1 - a.1) * (c.1 - b.1);
        if cross.abs() <= 1e-6 * (dist(a, b) * dist(b, c)).max(1e-12) && dot > 0.0 {
            v.remove(i);
        } else {
            i += 1;
        }
    }
    v
}

fn same_piece(a: &Polyline, b: &Polyline) -> bool {
    if a.closed != b.closed {
        return false;
    }
    let (pa, pb) = (norm_piece(a), norm_piece(b));
    if pa.len() != pb.len() {
        return false;
    }
    if !a.closed {
        return pa.iter().zip(pb.iter()).all(|(x, y)| dist(*x, *y) < 1e-3);
    }
    // closed rings: same cyclic sequence (any rotation)
    let n = pa.len();
    (0..n).any(|r| (0..n).all(|i| dist(pa[i], pb[(i + r) % n]) < 1e-3))
}

struct Stat {
    hash: u64,
    ambiguous: bool,
    asserted: u64,
}

/// C02's clause for dashed strokes: the drawn shape is the set of dashes (the arc-length model's,
/// not the library's own dasher), so every pixel more than 0.75 px outside every dash keeps its
/// value - under any blend mode, over a non-empty destination. `scene` = [stroke(path, style, src, opts)]
/// on a 40x40 white surface. Ok(None): the model leaves the case undecided.
pub fn dashes_leave_the_rest_alone(scene: &Scene) -> Result<Option<u64>, Violation> {
    let case = format!("dashed | {}", scene);
    let (path, st) = match scene.ops.first() {
        Some(Op::Stroke(p, st, _, _)) => (p, st),
        _ => return Err(Violation::new("harness/no-stroke", case, String::new())),
    };
    let got = super::common::render(scene).map_err(|p| Violation::new("stroke/panic", case.clone(), p))?;
    let before = scene.dst.pixels(scene.w, scene.h);
    // changed pixels as "painted", unchanged ones as "untouched"
    let marks: Vec<u32> = got.iter().zip(before.iter()).map(|(g, b)| if g != b { 0xffffffff } else { 0 }).collect();
    let input = polylines_of(&path.build().ops);
    let arr: Vec<f64> = st.dash.iter().map(|d| *d as f64).collect();
    let model = match dash(&input, &arr, st.offset as f64, 2e-3) {
        None => {
            if marks.iter().any(|p| *p != 0) {
                return Err(Violation::new("dashed/outside-changed/non-positive-total-painted", case, "a dash array whose total is not positive changed pixels".to_string()));
            }
            return Ok(Some(hash64(&got)));
        }
        Some(m) => m,
    };
    if model.ambiguous {
        return Ok(None);
    }
    let sp = StrokeParams { width: st.width as f64, join: [Join::Miter, Join::Round, Join::Bevel][st.join as usize], cap: [Cap::Butt, Cap::Round, Cap::Square][st.cap as usize], miter_limit: st.miter as f64 };
    match check_region(&case, &marks, scene.w, scene.h, &model.pieces, &sp, &IDENT, 0.75, "dashed-stroke") {
        Ok(_) => Ok(Some(hash64(&got))),
        // only the outside clause is this property's
        Err(v) if v.sig.contains("exterior") => Err(v),
        Err(_) => Ok(None),
    }
}

fn eval(path: &PathSpec, st: &StyleSpec) -> Result<Stat, Violation> {
    eval_tol(path, st, 2e-3, "")
}

/// `tol`: how close to a vertex a dash boundary may fall before the case is left undecided. The
/// general families use 2e-3 (the library's running f32 sums decide the side); the family with exact
/// f32 arithmetic ("ulp | " replay prefix) uses 1e-7.
fn eval_tol(path: &PathSpec, st: &StyleSpec, tol: f64, prefix: &str) -> Result<Stat, Violation> {
    let scene = scene_of(path, st);
    let case = format!("{}{}", prefix, scene);
    let got = super::common::render(&scene).map_err(|p| Violation::new("stroke/panic", case.clone(), p))?;
    let input = polylines_of(&path.build().ops);
    let arr: Vec<f64> = st.dash.iter().map(|d| *d as f64).collect();
    let model = dash(&input, &arr, st.offset as f64, tol);
    let model = match model {
        None => {
            // total not positive: nothing painted
            if got.iter().any(|p| *p != 0) {
                return Err(Violation::new("dash/non-positive-total-painted", case, format!("dash array {:?} painted {} pixels", st.dash, got.iter().filter(|p| **p != 0).count())));
            }
            return Ok(Stat { hash: hash64(&got), ambiguous: false, asserted: (SURF * SURF) as u64 });
        }
        Some(m) => m,
    };
    if std::env::var("VERIF_DEBUG_DASH").is_ok() {
        eprintln!("DASH model ambiguous={} pieces={}", model.ambiguous, model.pieces.len());
    }
    if model.ambiguous {
        return Ok(Stat { hash: hash64(&got), ambiguous: true, asserted: 0 });
    }
    // (1) the dasher's own output
    let out = guard(|| raqote::verif_dash_path(&path.build(), &st.dash, st.offset)).map_err(|p| Violation::new("dash_path/panic", case.clone(), p))?;
    if out.ops.iter().any(|o| matches!(o, raqote::PathOp::QuadTo(..) | raqote::PathOp::CubicTo(..))) {
        return Err(Violation::new("dash/curve-in-output", case, "dashed path contains curves".to_string()));
    }
    // dots (whole dash entries shorter than 1e-3) are matched by position, everything else
    // vertex for vertex
    let plen = |p: &Polyline| p.pts.windows(2).map(|w| dist(w[0], w[1])).sum::<f64>();
    let is_dot = |p: &Polyline| !p.closed && plen(p) < 1e-3 && plen(p) > 0.0;
    let all_out = polylines_of(&out.ops);
    let mut got_dots: Vec<P2> = all_out.iter().filter(|p| is_dot(p)).map(|p| p.pts[0]).collect();
    let want_dots: Vec<P2> = model.pieces.iter().filter(|p| is_dot(p)).map(|p| p.pts[0]).collect();
    for d in &want_dots {
        match got_dots.iter().position(|g| dist(*g, *d) < 1e-3) {
            Some(i) => {
                got_dots.remove(i);
            }
            None => return Err(Violation::new("dash/missing-dot", case, format!("the arc-length model has a dot (a whole dash entry shorter than 1e-3) at ({:.3},{:.3}) which the dasher did not produce", d.0, d.1))),
        }
    }
    if let Some(d) = got_dots.first() {
        return Err(Violation::new("dash/extra-dot", case, format!("the dasher produced a dot at ({:.3},{:.3}) that is not in the pattern", d.0, d.1)));
    }
    let mut got_pieces: Vec<Polyline> = all_out.into_iter().filter(|p| !is_dot(p) && norm_piece(p).len() >= 2).collect();
    let fmt = |ps: &[Polyline]| ps.iter().map(|p| format!("{}{:?}", if p.closed { "closed" } else { "open" }, norm_piece(p).iter().map(|q| ((q.0 * 1000.0).round() / 1000.0, (q.1 * 1000.0).round() / 1000.0)).collect::<Vec<_>>())).collect::<Vec<_>>().join("\n    ");
    let all_got = fmt(&got_pieces);
    for want in model.pieces.iter().filter(|p| !is_dot(p)) {
        match got_pieces.iter().position(|g| same_piece(g, want)) {
            Some(i) => {
                got_pieces.remove(i);
            }
            None => {
                let clause = if want.closed { "fully-on-closed-subpath-must-stay-closed" } else { "missing-or-different-piece" };
                return Err(Violation::new(format!("dash/{}", clause), case, format!("the arc-length model has the piece\n    {}\nwhich the dasher did not produce; dasher output:\n    {}\nmodel:\n    {}", fmt(std::slice::from_ref(want)), all_got, fmt(&model.pieces))));
            }
        }
    }
    if !got_pieces.is_empty() {
        return Err(Violation::new("dash/extra-piece", case, format!("the dasher produced a piece that is not an on-interval of the pattern:\n    {}\nmodel:\n    {}", fmt(&got_pieces), fmt(&model.pieces))));
    }
    // (2) pixels
    let sp = StrokeParams { width: st.width as f64, join: [Join::Miter, Join::Round, Join::Bevel][st.join as usize], cap: [Cap::Butt, Cap::Round, Cap::Square][st.cap as usize], miter_limit: st.miter as f64 };
    let s = check_region(&case, &got, SURF, SURF, &model.pieces, &sp, &IDENT, 0.75, "dashed-stroke")?;
    Ok(Stat { hash: s.hash, ambiguous: s.undecided, asserted: s.inside + s.outside })
}

fn arrays(q: bool) -> Vec<Vec<f32>> {
    let vals = [2.0f32, 5.0, 11.0, 40.0, 200.0];
    let mut v: Vec<Vec<f32>> = Vec::new();
    if q {
        for a in [5.0f32, 11.0, 40.0, 200.0] {
            v.push(vec![a]);
        }
        for a in [5.0f32, 11.0, 40.0] {
            for b in [5.0f32, 11.0, 40.0] {
                v.push(vec![a, b]);
            }
        }
        v.extend([vec![2., 5.], vec![5., 2.], vec![200., 5.], vec![5., 200.], vec![2., 40.], vec![2.], vec![2., 5., 11.], vec![3., 7., 7., 3.], vec![3., 3., 7., 3., 7., 7.]]);
        // dotted lines: 'on' entries far below any plausible epsilon (caps make them visible)
        v.extend([vec![0.0002, 12.], vec![1e-4, 7., 3., 5.], vec![0., 9.]]);
        return v;
    }
    for a in vals {
        v.push(vec![a]);
    }
    for a in vals {
        for b in vals {
            v.push(vec![a, b]);
        }
    }
    if !q {
        for a in vals {
            for b in vals {
                for c in vals {
                    v.push(vec![a, b, c]);
                }
            }
        }
        for k in 0..16 {
            v.push((0..4).map(|i| if k >> i & 1 == 1 { 7.0 } else { 3.0 }).collect());
        }
        for k in 0..64 {
            v.push((0..6).map(|i| if k >> i & 1 == 1 { 7.0 } else { 3.0 }).collect());
        }
    } else {
        v.push(vec![2., 5., 11.]);
        v.push(vec![3., 7., 7., 3.]);
        v.push(vec![3., 3., 7., 3., 7., 7.]);
    }
    v.extend([vec![0.0002, 12.], vec![1e-4, 7., 3., 5.], vec![0., 9.]]);
    v
}

fn account(run: &Run, shard: usize, l: &mut Local, path: &PathSpec, st: &StyleSpec, sample: bool) {
    l.states += 1;
    l.transitions += 2;
    l.traces += 1;
    l.evals += 1;
    if sample {
        run.sample(scene_of(path, st).to_string());
    }
    match eval(path, st) {
        Ok(s) => {
            l.outcome(s.hash);
            if s.ambiguous {
                l.count("cases_with_a_dash_boundary_on_a_vertex_not_asserted", 1);
            } else {
                l.nontrivial += 1;
                l.count("pixels_asserted", s.asserted);
            }
        }
        Err(v) => run.report(shard, v),
    }
}

impl Check for C09 {
    fn id(&self) -> &'static str {
        "C09"
    }
    fn title(&self) -> &'static str {
        "Dashes follow the dash pattern along arc length, restarted per subpath"
    }

    fn run(&self, run: &Run) {
        let q = run.tier.quick();
        run.rule("polylines (open with 1-3 segments, closed triangles and quadrilaterals, two-subpath paths) on an off-axis grid x dash arrays of 1..6 positive entries (entries longer than the whole path included) x offsets of both signs and large magnitude x caps / joins / widths; the dasher's output (hook) must equal the pieces of an independent arc-length dasher, and the pixels must match the stroke region of those pieces at a 0.75 px margin; arrays whose total is not positive paint nothing; non-trivial = case asserted (no dash boundary within 2e-3 of a vertex; 1e-7 in the exact-arithmetic family)");
        // irrational-ish vertex spacing keeps dash boundaries off the vertices
        let g: Vec<(f32, f32)> = vec![(5.3, 6.1), (19.7, 5.2), (33.9, 7.4), (6.8, 19.9), (20.1, 21.3), (34.2, 18.6), (4.9, 33.8), (18.8, 34.6), (33.1, 32.7)];
        let arrs = arrays(q);
        let offs: Vec<f32> = if q { vec![0.0, 4.5, -4.5, 10000.5, -123456792.0, 1e9] } else { vec![0.0, 1.0, 4.5, -1.0, -4.5, 10000.5, -10000.5, 123456792.0, -123456792.0, 1e9, -1e9] };
        // width 8: caps (4 px deep) hold pixels that are inside by more than the margin
        let styles: Vec<(f32, u8, u8)> = if q { vec![(2.0, 0, 1), (8.0, 1, 0), (8.0, 2, 2)] } else { vec![(2.0, 0, 1), (4.0, 1, 0), (8.0, 2, 2), (8.0, 1, 1), (6.0, 0, 0)] };
        run.bound("polylines", format!("open 2- and 3-vertex polylines, open triangles ending on their own first point, closed triangles (and quadrilaterals) over 9 points x {} dash arrays x {} offsets x {} styles", arrs.len(), offs.len(), styles.len()));
        run.par(g.len() * g.len(), |s, l| {
            let (a, b) = (g[s / g.len()], g[s % g.len()]);
            if a == b {
                return;
            }
            let mut paths: Vec<PathSpec> = vec![PathSpec::new(vec![POp::M(a.0, a.1), POp::L(b.0, b.1)])];
            for (ci, c) in g.iter().enumerate() {
                if *c == b || *c == a {
                    continue;
                }
                paths.push(PathSpec::new(vec![POp::M(a.0, a.1), POp::L(b.0, b.1), POp::L(c.0, c.1)]));
                paths.push(PathSpec::new(vec![POp::M(a.0, a.1), POp::L(b.0, b.1), POp::L(c.0, c.1), POp::Z]));
                // the longer shapes: in the quick tier for three third points per (a, b) only
                if q && (ci + s) % 3 != 0 {
                    continue;
                }
                // an open subpath that returns to its own first point: its last dash and its first
                // dash stay two capped pieces (only Close joins them)
                paths.push(PathSpec::new(vec![POp::M(a.0, a.1), POp::L(b.0, b.1), POp::L(c.0, c.1), POp::L(a.0, a.1)]));
                paths.push(PathSpec::new(vec![POp::M(a.0, a.1), POp::L(b.0, b.1), POp::L(c.0, c.1), POp::L(a.0, a.1), POp::M(c.0, c.1), POp::L(b.0, b.1)]));
                // a polygon that returns to its first point before Close: the closing segment is empty,
                // Close still joins the last dash to the first and restarts the pattern
                paths.push(PathSpec::new(vec![POp::M(a.0, a.1), POp::L(b.0, b.1), POp::L(c.0, c.1), POp::L(a.0, a.1), POp::Z]));
                paths.push(PathSpec::new(vec![POp::M(a.0, a.1), POp::L(b.0, b.1), POp::L(c.0, c.1), POp::L(a.0, a.1), POp::Z, POp::L(20.1, 21.3)]));
                {
                    let d = g[(s + 4) % g.len()];
                    if d != a && d != b && d != *c {
                        paths.push(PathSpec::new(vec![POp::M(a.0, a.1), POp::L(b.0, b.1), POp::L(c.0, c.1), POp::L(d.0, d.1), POp::Z]));
                        paths.push(PathSpec::new(vec![POp::M(a.0, a.1), POp::L(b.0, b.1), POp::M(c.0, c.1), POp::L(d.0, d.1), POp::L(a.0, a.1), POp::Z]));
                        // a subpath begun implicitly by a LineTo right after Close (it starts at the
                        // closed subpath's first point, with the pattern restarted)
                        paths.push(PathSpec::new(vec![POp::M(a.0, a.1), POp::L(b.0, b.1), POp::L(c.0, c.1), POp::Z, POp::L(d.0, d.1)]));
                        // two closed subpaths, the second begun by LineTo directly after the first Close
                        paths.push(PathSpec::new(vec![POp::M(a.0, a.1), POp::L(b.0, b.1), POp::L(c.0, c.1), POp::Z, POp::L(d.0, d.1), POp::L(b.0, b.1), POp::Z]));
                        // a MoveTo exactly to the point the previous subpath ended on still starts a
                        // new subpath (pattern restarted, caps instead of a join)
                        paths.push(PathSpec::new(vec![POp::M(a.0, a.1), POp::L(b.0, b.1), POp::M(b.0, b.1), POp::L(c.0, c.1)]));
                        // the stroked region does not depend on the path's own fill rule
                        paths.push(PathSpec { evenodd: true, ops: vec![POp::M(a.0, a.1), POp::L(b.0, b.1), POp::L(c.0, c.1), POp::L(d.0, d.1), POp::Z] });
                    }
                }
            }
            for (pi, path) in paths.iter().enumerate() {
                for (ai, arr) in arrs.iter().enumerate() {
                    // besides the fixed offsets: offsets that end exactly on a dash boundary of this array
                    let mut offs_a = offs.clone();
                    offs_a.push(arr[0]);
                    if arr.len() >= 2 {
                        offs_a.push(arr[0] + arr[1]);
                        offs_a.push(-arr[arr.len() - 1]);
                    }
                    // minus a whole number of periods (the reduced offset is -0.0), and the floats next
                    // to minus one period (the period as the f32 sum the library forms)
                    {
                        let mut total: f32 = arr.iter().sum();
                        if arr.len() % 2 == 1 {
                            total *= 2.0;
                        }
                        if total > 0.0 && total.is_finite() {
                            offs_a.extend([-total, -2.0 * total, -0.0, -f32::from_bits(total.to_bits() - 1), -f32::from_bits(total.to_bits() + 1), total]);
                        }
                        // minus the sum of the last two / the last four entries of the period
                        let per: Vec<f32> = if arr.len() % 2 == 1 { arr.iter().chain(arr.iter()).cloned().collect() } else { arr.clone() };
                        if per.len() >= 4 {
                            offs_a.push(-(per[per.len() - 1] + per[per.len() - 2]));
                            offs_a.push(-(per[per.len() - 1] + per[per.len() - 2] + per[per.len() - 3] + per[per.len() - 4]));
                        }
                    }
                    let nfixed = offs.len();
                    for (oi, &off) in offs_a.iter().enumerate() {
                        // a period that is not exactly representable makes the phase of a huge
                        // offset depend on the rounding of the sum itself: not asserted
                        if off.abs() > 1e5 && arr.iter().any(|e| e.fract() != 0.0) {
                            continue;
                        }
                        for &(w, cap, join) in &styles {
                            // thin the product: every style with the first offsets, one style otherwise
                            if q && ((ai + pi) % 2 == 1 || oi >= nfixed) && (w, cap, join) != styles[0] {
                                continue;
                            }
                            let st = StyleSpec { width: w, cap, join, miter: 4.0, dash: arr.clone(), offset: off };
                            account(run, s, l, path, &st, s == 11 && pi == 4 && ai == 7 && off == 4.5 && cap == 0);
                        }
                    }
                }
                if run.expired() {
                    return;
                }
            }
        });
        // a long open subpath that reaches a gap, then a small closed subpath that fits inside the first dash
        // (and the reverse order): per-subpath state must be restored at every MoveTo
        let small: Vec<[(f32, f32); 3]> = vec![[(24.3, 22.1), (33.7, 23.4), (27.9, 31.2)], [(6.2, 24.8), (14.9, 26.1), (8.4, 33.9)]];
        let long_arrays: Vec<Vec<f32>> = vec![vec![40.0, 3.0], vec![37.0, 2.0, 5.0, 2.0], vec![45.0], vec![36.0, 7.0, 2.0]];
        run.bound("open-then-closed", format!("72 long open 2-segment polylines x {} small closed triangles x {} arrays x 3 offsets x 2 orders x 2 styles", small.len(), long_arrays.len()));
        run.par(g.len() * g.len(), |s, l| {
            let (a, b) = (g[s / g.len()], g[s % g.len()]);
            if a == b {
                return;
            }
            let c = g[(s * 5 + 3) % g.len()];
            if c == a || c == b {
                return;
            }
            for tri in &small {
                for arr in &long_arrays {
                    for off in [0.0f32, 3.5, -2.25] {
                        for order in 0..2 {
                            let open = vec![POp::M(a.0, a.1), POp::L(b.0, b.1), POp::L(c.0, c.1)];
                            let closed = vec![POp::M(tri[0].0, tri[0].1), POp::L(tri[1].0, tri[1].1), POp::L(tri[2].0, tri[2].1), POp::Z];
                            let ops = if order == 0 { [open, closed].concat() } else { [closed, open].concat() };
                            for &(w, cap, join) in &[(2.0f32, 0u8, 1u8), (6.0, 1, 0)] {
                                let st = StyleSpec { width: w, cap, join, miter: 4.0, dash: arr.clone(), offset: off };
                                account(run, 500 + s, l, &PathSpec::new(ops.clone()), &st, false);
                            }
                        }
                    }
                }
            }
        });
        // closed subpaths whose length is exactly a dash boundary (integer rectangles, perimeter 80):
        // a dash ending exactly at the closing point is still joined to the dash starting there
        {
            let rects: Vec<[(f32, f32); 4]> = vec![[(8., 8.), (28., 8.), (28., 28.), (8., 28.)], [(5., 12.), (35., 12.), (35., 22.), (5., 22.)], [(30., 6.), (30., 31.), (15., 31.), (15., 6.)]];
            let exact: Vec<(Vec<f32>, f32)> = vec![(vec![80., 5.], 0.), (vec![16., 16.], 0.), (vec![24., 8.], 8.), (vec![8., 8.], 0.), (vec![32., 16.], 16.), (vec![5., 3.], 0.), (vec![80.], 0.), (vec![72., 8.], -8.), (vec![160., 1.], 0.), (vec![16., 16.], 16.)];
            run.bound("exact lengths", format!("{} integer rectangles (perimeter 80) as closed subpaths, alone and followed by a LineTo tail x {} (array, offset) pairs whose boundaries fall exactly on the closing point x 2 styles", rects.len(), exact.len()));
            run.par(rects.len() * exact.len(), |s, l| {
                let r = rects[s / exact.len()];
                let (arr, off) = &exact[s % exact.len()];
                let closed = vec![POp::M(r[0].0, r[0].1), POp::L(r[1].0, r[1].1), POp::L(r[2].0, r[2].1), POp::L(r[3].0, r[3].1), POp::Z];
                let mut tail = closed.clone();
                tail.push(POp::L(r[2].0 + 3.0, r[2].1 + 4.0));
                for ops in [closed, tail] {
                    for &(w, cap, join) in &[(2.0f32, 0u8, 0u8), (6.0, 1, 1)] {
                        let st = StyleSpec { width: w, cap, join, miter: 4.0, dash: arr.clone(), offset: *off };
                        account(run, 3000 + s, l, &PathSpec::new(ops.clone()), &st, false);
                    }
                }
            });
        }
        // the offset lands in a gap that ends exactly on an interior vertex: the next dash begins at
        // that vertex (no join before it), it is not the subpath's initial dash, and a dash that is
        // 'on' at the closing point ends there with a cap. Integer lengths: the library's f32 sums are
        // exact, so a boundary "on" a vertex is on it for the library too (vertex tolerance 0).
        {
            let cases: Vec<([(f32, f32); 4], Vec<f32>, f32)> = vec![
                ([(8., 8.), (28., 8.), (28., 28.), (8., 28.)], vec![30., 20.], 30.),
                ([(8., 8.), (28., 8.), (28., 28.), (8., 28.)], vec![50., 20.], 50.),
                ([(8., 8.), (28., 8.), (28., 28.), (8., 28.)], vec![10., 20.], 10.),
                ([(8., 8.), (28., 8.), (28., 28.), (8., 28.)], vec![10., 20.], -20.),
                ([(5., 12.), (35., 12.), (35., 22.), (5., 22.)], vec![10., 30.], 10.),
                ([(30., 6.), (30., 31.), (15., 31.), (15., 6.)], vec![20., 25.], 20.),
                // the gap ends on the second vertex
                ([(8., 8.), (28., 8.), (28., 28.), (8., 28.)], vec![30., 40.], 30.),
            ];
            run.bound("gap ending exactly on a vertex", format!("{} (integer rectangle, array, offset) triples whose first gap ends exactly on an interior vertex, as closed subpaths, open polylines and closed + tail x 3 caps x 3 joins, width 4; exact f32 arithmetic, vertex tolerance 0", cases.len()));
            run.par(cases.len(), |s, l| {
                let (r, arr, off) = &cases[s];
                let closed = vec![POp::M(r[0].0, r[0].1), POp::L(r[1].0, r[1].1), POp::L(r[2].0, r[2].1), POp::L(r[3].0, r[3].1), POp::Z];
                let open = closed[..4].to_vec();
                let mut tail = closed.clone();
                tail.push(POp::L(r[2].0 + 3.0, r[2].1 + 4.0));
                for ops in [closed, open, tail] {
                    for cap in 0..3u8 {
                        for join in 0..3u8 {
                            let st = StyleSpec { width: 4.0, cap, join, miter: 4.0, dash: arr.clone(), offset: *off };
                            l.states += 1;
                            l.transitions += 2;
                            l.traces += 1;
                            l.evals += 1;
                            match eval_tol(&PathSpec::new(ops.clone()), &st, 0.0, "exact0 | ") {
                                Ok(st) => {
                                    l.outcome(st.hash);
                                    if st.ambiguous {
                                        l.count("cases_with_a_dash_boundary_on_a_vertex_not_asserted", 1);
                                    } else {
                                        l.nontrivial += 1;
                                        l.count("pixels_asserted", st.asserted);
                                        l.count("exact_arithmetic_cases_asserted", 1);
                                    }
                                }
                                Err(v) => run.report(4100 + s, v),
                            }
                        }
                    }
                }
            });
        }
        // long paths, thousands of dashes, dash arrays with a hundred entries
        {
            let mut zig: Vec<POp> = vec![POp::M(3.3, 2.1)];
            for r in 0..30 {
                let y = 3.2 + r as f32 * 1.17;
                zig.push(POp::L(if r % 2 == 0 { 36.7 } else { 3.1 + (r % 5) as f32 * 0.13 }, y));
            }
            let mut closed = zig.clone();
            closed.push(POp::Z);
            let hundred: Vec<f32> = (0..100).map(|i| 0.4 + ((i * 7) % 13) as f32 * 0.21).collect();
            let arrs: Vec<Vec<f32>> = vec![vec![0.7, 0.4], vec![0.31, 0.23], hundred.clone(), hundred[..99].to_vec(), vec![3.0, 0.05]];
            run.bound("long paths", format!("30-segment zigzag (open and closed, about 1000 px long) x {} dash arrays (down to 0.23 long, up to 100 entries) x 4 offsets x 2 styles", arrs.len()));
            run.par(arrs.len() * 2, |s, l| {
                let arr = &arrs[s / 2];
                let ops = if s % 2 == 0 { zig.clone() } else { closed.clone() };
                for off in [0.0f32, 0.13, -7.77, 55.5] {
                    for &(w, cap, join) in &[(1.0f32, 0u8, 1u8), (0.5, 1, 0)] {
                        let st = StyleSpec { width: w, cap, join, miter: 4.0, dash: arr.clone(), offset: off };
                        account(run, 2000 + s, l, &PathSpec::new(ops.clone()), &st, false);
                    }
                }
            });
        }
        // an entry far longer than any path ("one dash, then nothing"): small offsets of either sign
        // keep their exact meaning however long the period is; and subpaths begun by a LineTo
        {
            let arrs: Vec<Vec<f32>> = vec![vec![13.0, 1e9], vec![7.0, 4.0, 1e8], vec![1e9, 13.0], vec![25.0, 1e9, 5.0, 3.0], vec![9.0, 3e7]];
            let offs = [0.0f32, 4.5, -4.5, 40.0, -40.0, 12.75, -13.0, 100.25, -7.0];
            let tri = [(5.3f32, 6.1f32), (33.9, 7.4), (18.8, 34.6)];
            let shapes: Vec<PathSpec> = vec![
                PathSpec::new(vec![POp::M(tri[0].0, tri[0].1), POp::L(tri[1].0, tri[1].1), POp::L(tri[2].0, tri[2].1)]),
                PathSpec::new(vec![POp::M(tri[0].0, tri[0].1), POp::L(tri[1].0, tri[1].1), POp::L(tri[2].0, tri[2].1), POp::Z]),
                PathSpec::new(vec![POp::M(tri[2].0, tri[2].1), POp::L(tri[0].0, tri[0].1), POp::M(tri[1].0, tri[1].1), POp::L(20.1, 21.3), POp::L(tri[2].0, tri[2].1), POp::Z]),
            ];
            run.bound("one huge entry", format!("{} arrays with an entry of 3e7 .. 1e9 x {} small offsets of both signs x 3 shapes (open, closed, two subpaths) x 2 styles", arrs.len(), offs.len()));
            run.par(arrs.len() * shapes.len(), |s, l| {
                let arr = &arrs[s / shapes.len()];
                let path = &shapes[s % shapes.len()];
                for off in offs {
                    for &(w, cap, join) in &[(2.0f32, 0u8, 1u8), (6.0, 1, 0)] {
                        let st = StyleSpec { width: w, cap, join, miter: 4.0, dash: arr.clone(), offset: off };
                        account(run, 3000 + s, l, path, &st, false);
                    }
                }
            });
            // a LineTo with no current point begins a subpath there (as it does for fill, flatten,
            // contains_point and the plain stroker)
            let led: Vec<PathSpec> = vec![
                PathSpec::new(vec![POp::L(tri[0].0, tri[0].1), POp::L(tri[1].0, tri[1].1), POp::L(tri[2].0, tri[2].1)]),
                PathSpec::new(vec![POp::L(tri[0].0, tri[0].1), POp::L(tri[1].0, tri[1].1), POp::L(tri[2].0, tri[2].1), POp::Z]),
                PathSpec::new(vec![POp::L(tri[0].0, tri[0].1), POp::L(tri[1].0, tri[1].1), POp::L(tri[2].0, tri[2].1), POp::Z, POp::L(20.1, 21.3)]),
                PathSpec::new(vec![POp::Z, POp::L(tri[0].0, tri[0].1), POp::L(tri[1].0, tri[1].1), POp::L(tri[2].0, tri[2].1), POp::Z]),
            ];
            let larr: Vec<Vec<f32>> = vec![vec![5.0, 3.0], vec![11.0], vec![40.0, 5.0], vec![200.0, 5.0], vec![3.0, 7.0, 7.0, 3.0]];
            run.bound("subpaths begun by LineTo", format!("{} paths whose first drawing op is a LineTo (open, closed, closed + tail, leading Close) x {} arrays x 4 offsets x 2 styles", led.len(), larr.len()));
            run.par(led.len() * larr.len(), |s, l| {
                let path = &led[s / larr.len()];
                let arr = &larr[s % larr.len()];
                for off in [0.0f32, 4.5, -4.5, 10000.5] {
                    for &(w, cap, join) in &[(2.0f32, 0u8, 1u8), (8.0, 2, 2)] {
                        let st = StyleSpec { width: w, cap, join, miter: 4.0, dash: arr.clone(), offset: off };
                        account(run, 3500 + s, l, path, &st, false);
                    }
                }
            });
        }
        // a dash that ends one to three floats in front of a vertex ends there: it does not reach the
        // vertex, takes no join and does not turn the corner. Axis-aligned integer polylines and
        // dyadic entries keep every length and every remaining length exact in f32, so the side of
        // the vertex on which the boundary falls is decided, not a matter of rounding.
        {
            let below = |x: f32, k: u32| f32::from_bits(x.to_bits() - k);
            // (path, array as a function of k)
            let shapes: Vec<(Vec<POp>, Box<dyn Fn(u32) -> Vec<f32> + Sync>)> = vec![
                (vec![POp::M(6., 8.), POp::L(22., 8.), POp::L(22., 30.)], Box::new(move |k| vec![below(16., k), 1000.])),
                (vec![POp::M(30., 6.), POp::L(30., 22.), POp::L(8., 22.)], Box::new(move |k| vec![below(16., k), 1000.])),
                (vec![POp::M(6., 30.), POp::L(6., 14.), POp::L(22., 14.), POp::L(22., 30.)], Box::new(move |k| vec![5., 3., below(24., k), 1000.])),
                (vec![POp::M(8., 8.), POp::L(24., 8.), POp::L(24., 24.), POp::L(8., 24.), POp::Z], Box::new(move |k| vec![2., 44., below(18., k), 1000.])),
                (vec![POp::M(8., 8.), POp::L(24., 8.), POp::L(24., 24.), POp::L(8., 24.), POp::Z, POp::L(30., 8.)], Box::new(move |k| vec![2., 44., below(18., k), 1000.])),
            ];
            run.bound("a dash ending a few floats in front of a vertex", format!("{} axis-aligned integer polylines (open with 2 and 3 segments, closed square with the dash ending in front of the closing point, the same with a tail) x entries 1..3 floats short of the vertex x 3 caps x 3 joins, width 6; exact f32 arithmetic, asserted with a vertex tolerance of 1e-7", shapes.len()));
            run.par(shapes.len(), |s, l| {
                let (ops, arr) = &shapes[s];
                for k in 1..=3u32 {
                    for cap in 0..3u8 {
                        for join in 0..3u8 {
                            let st = StyleSpec { width: 6.0, cap, join, miter: 4.0, dash: arr(k), offset: 0.0 };
                            let path = PathSpec::new(ops.clone());
                            l.states += 1;
                            l.transitions += 2;
                            l.traces += 1;
                            l.evals += 1;
                            match eval_tol(&path, &st, 1e-7, "ulp | ") {
                                Ok(st) => {
                                    l.outcome(st.hash);
                                    if st.ambiguous {
                                        l.count("cases_with_a_dash_boundary_on_a_vertex_not_asserted", 1);
                                    } else {
                                        l.nontrivial += 1;
                                        l.count("pixels_asserted", st.asserted);
                                        l.count("exact_arithmetic_cases_asserted", 1);
                                    }
                                }
                                Err(v) => run.report(4000 + s, v),
                            }
                        }
                    }
                }
            });
        }
        // arrays whose total is not positive: nothing painted
        let bad: Vec<Vec<f32>> = vec![vec![0.], vec![0., 0.], vec![-1.], vec![5., -10.], vec![f32::NAN], vec![1., f32::NAN], vec![-3., 3.]];
        run.bound("non-positive totals", format!("{} arrays x 72 polylines x 3 offsets", bad.len()));
        run.par(g.len(), |s, l| {
            for b in &g {
                if *b == g[s] {
                    continue;
                }
                for arr in &bad {
                    for off in [0.0f32, -2.5, 1e9] {
                        let path = PathSpec::new(vec![POp::M(g[s].0, g[s].1), POp::L(b.0, b.1), POp::L(20., 20.), POp::Z]);
                        let st = StyleSpec { width: 3.0, cap: 1, join: 1, miter: 4.0, dash: arr.clone(), offset: off };
                        account(run, 1000 + s, l, &path, &st, false);
                    }
                }
            }
        });
    }

    fn replay(&self, case: &str) -> Result<Option<Violation>, String> {
        let (case, tol, prefix) = match (case.strip_prefix("ulp | "), case.strip_prefix("exact0 | ")) {
            (Some(rest), _) => (rest, 1e-7, "ulp | "),
            (_, Some(rest)) => (rest, 0.0, "exact0 | "),
            _ => (case, 2e-3, ""),
        };
        let scene = parse_scene(case)?;
        for op in &scene.ops {
            if let Op::Stroke(p, st, _, _) = op {
                return Ok(eval_tol(p, st, tol, prefix).err());
            }
        }
        Err("no stroke in scene".into())
    }
}
