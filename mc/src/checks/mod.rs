pub mod c01;

use crate::engine::Check;

pub fn all() -> Vec<Box<dyn Check>> {
    vec![Box::new(c01::C01)]
}
