//! C17 contains_point agrees with the fill rule.
//!
//! Grid polygons x both rules x all points of the half-step grid; oracle M-WIND (exact), plus
//! agreement with what fill paints for pixels whose exact coverage is full or zero.

use super::c01::{build_path, parse_ops, WHITE};
use crate::engine::*;
use crate::model::rast::{self, QOp, Rule};
use crate::model::wind::*;
use raqote::*;

pub struct C17;

/// coordinates are in half grid steps: a polygon vertex (gx, gy) is (2gx, 2gy)
thread_local! {
    /// power-of-two exponent applied to every coordinate (path and query point) of the grid
    /// families: the answer cannot depend on the unit (exact scaling keeps every float exact)
    static SCALE_EXP: std::cell::Cell<i32> = std::cell::Cell::new(0);
}

fn unit() -> f32 {
    0.5 * (2.0f32).powi(SCALE_EXP.with(|s| s.get()))
}

struct Case {
    ops: Vec<QOp>,
    rule: Rule,
    q: P,
    /// flattening tolerance handed to contains_point (irrelevant for straight paths)
    tol: f32,
}

fn ops_str(ops: &[QOp]) -> String {
    ops.iter()
        .map(|o| match o {
            QOp::M(x, y) => format!("M:{}:{}", x, y),
            QOp::L(x, y) => format!("L:{}:{}", x, y),
            QOp::Z => "Z".to_string(),
        })
        .collect::<Vec<_>>()
        .join(",")
}

fn case_str(c: &Case) -> String {
    format!("rule={} q={},{} tol={:?} sc={} ops={}", if c.rule == Rule::NonZero { "nz" } else { "eo" }, c.q.0, c.q.1, c.tol, SCALE_EXP.with(|s| s.get()), ops_str(&c.ops))
}

/// the raqote path in user units of half a grid step (coordinates = integer / 2)
fn user_path(ops: &[QOp], rule: Rule) -> Path {
    let mut pb = PathBuilder::new();
    for o in ops {
        match *o {
            QOp::M(x, y) => pb.move_to(x as f32 * unit(), y as f32 * unit()),
            QOp::L(x, y) => pb.line_to(x as f32 * unit(), y as f32 * unit()),
            QOp::Z => pb.close(),
        }
    }
    let mut p = pb.finish();
    p.winding = if rule == Rule::NonZero { Winding::NonZero } else { Winding::EvenOdd };
    p
}

fn expected(segs: &[(P, P)], rule: Rule, q: P) -> Option<bool> {
    match on_path(segs, q) {
        On::Segment => Some(true),
        On::No => Some(rule.inside(winding(segs, q))),
        On::Point => {
            if rule.inside(winding(segs, q)) {
                Some(true)
            } else {
                None
            }
        }
    }
}

fn eval_point(c: &Case, path: &Path, segs: &[(P, P)]) -> Result<Option<bool>, Violation> {
    let exp = match expected(segs, c.rule, c.q) {
        Some(e) => e,
        None => return Ok(None),
    };
    let (x, y) = (c.q.0 as f32 * unit(), c.q.1 as f32 * unit());
    let got = match guard(|| path.contains_point(c.tol, x, y)) {
        Ok(g) => g,
        Err(p) => return Err(Violation::new("contains_point/panic", case_str(c), format!("panicked: {}", p))),
    };
    if got != exp {
        let on = on_path(segs, c.q);
        let w = winding(segs, c.q);
        let clause = if on == On::Segment {
            "point-on-segment-must-be-true"
        } else if exp {
            "inside-point-reported-outside"
        } else {
            "outside-point-reported-inside"
        };
        return Err(Violation::new(format!("contains_point/{}", clause), case_str(c), format!("contains_point({}, {}) = {}, exact model: on-path {:?}, winding number {}, rule {:?} => {}", x, y, got, on, w, c.rule, exp)));
    }
    Ok(Some(got))
}

fn query_points() -> Vec<P> {
    let mut v = Vec::new();
    for y in -2..=10 {
        for x in -2..=10 {
            v.push((x, y));
        }
    }
    v
}

fn eval_path(run: &Run, shard: usize, l: &mut Local, ops: &[QOp], qs: &[P], with_fill: bool) {
    eval_path_tol(run, shard, l, ops, qs, with_fill, 0.1)
}

fn eval_path_tol(run: &Run, shard: usize, l: &mut Local, ops: &[QOp], qs: &[P], with_fill: bool, tol: f32) {
    let segs = segments(ops);
    l.transitions += ops.len() as u64;
    for rule in [Rule::NonZero, Rule::EvenOdd] {
        let path = user_path(ops, rule);
        let mut bits: u64 = 0;
        let mut inside = 0;
        let mut on = 0;
        for (i, &q) in qs.iter().enumerate() {
            let c = Case { ops: ops.to_vec(), rule, q, tol };
            l.transitions += 1;
            match eval_point(&c, &path, &segs) {
                Ok(Some(b)) => {
                    if b {
                        bits = bits.rotate_left(7) ^ (i as u64 + 1);
                        inside += 1;
                    }
                    if on_path(&segs, q) == On::Segment {
                        on += 1;
                    }
                }
                Ok(None) => l.count("points_undecided_lone_point", 1),
                Err(v) => {
                    run.report(shard, v);
                    break;
                }
            }
        }
        l.traces += 1;
        l.evals += 1;
        if inside > on {
            l.nontrivial += 1;
        }
        l.outcome(bits);
        if with_fill {
            // agreement with what fill paints: 1 half-step = 2 px, so a grid unit is 4 px
            if let Err(v) = fill_agreement(ops, rule) {
                run.report(shard, v);
            }
            l.transitions += 1;
        }
    }
}

/// fill the polygon scaled so that half a grid step is 2 px, on a 20x20 surface with the
/// origin at pixel (2,2); every pixel whose exact coverage is 16 cells (0 cells) must have
/// contains_point(centre) == true (false)
fn fill_agreement(ops: &[QOp], rule: Rule) -> Result<(), Violation> {
    // q-units: 1 half-step = 2 px = 8 q; shift by 2 px = 8 q... keep everything integer
    let qops: Vec<QOp> = ops
        .iter()
        .map(|o| match *o {
            QOp::M(x, y) => QOp::M(x * 8 + 8, y * 8 + 8),
            QOp::L(x, y) => QOp::L(x * 8 + 8, y * 8 + 8),
            QOp::Z => QOp::Z,
        })
        .collect();
    let (w, h) = (24usize, 24usize);
    let cov = rast::coverage(&rast::edges_from_ops(&qops), w, h, rule);
    let fpath = build_path(&qops, rule);
    let px = guard(|| {
        let mut dt = DrawTarget::new(w as i32, h as i32);
        dt.fill(&fpath, &Source::Solid(WHITE), &DrawOptions::new());
        dt.into_vec()
    })
    .map_err(|p| Violation::new("fill/panic", format!("rule={} q=0,0 ops={}", if rule == Rule::NonZero { "nz" } else { "eo" }, ops_str(ops)), p))?;
    let upath = user_path(ops, rule);
    // exact on-outline test for pixel centres: scale half-step units by 4, centre = (2px-3, 2py-3)
    let segs4: Vec<(P, P)> = segments(ops).iter().map(|&(a, b)| ((a.0 * 4, a.1 * 4), (b.0 * 4, b.1 * 4))).collect();
    for py in 0..h {
        for pxl in 0..w {
            let i = py * w + pxl;
            let full = cov.kmin[i] == 16;
            let empty = cov.kmax[i] == 0;
            if !full && !empty {
                continue;
            }
            if on_path(&segs4, (2 * pxl as i64 - 3, 2 * py as i64 - 3)) != On::No {
                // centre exactly on a (possibly zero-area) outline: "on a segment" wins
                continue;
            }
            // pixel centre in user units (half steps / 2): device px -> (px - 2) / 4 grid units
            let ux = (pxl as f32 + 0.5 - 2.0) / 4.0;
            let uy = (py as f32 + 0.5 - 2.0) / 4.0;
            let got = upath.contains_point(0.1, ux, uy);
            let painted = px[i] == 0xffffffff;
            if got != full || painted != full {
                return Err(Violation::new(
                    "contains_point/disagrees-with-fill",
                    format!("rule={} q={},{} ops={} fillcheck=1", if rule == Rule::NonZero { "nz" } else { "eo" }, pxl, py, ops_str(ops)),
                    format!("pixel ({},{}) of the 4x-scaled fill: exact model says {}, fill painted {:#010x}, contains_point({}, {}) = {}", pxl, py, if full { "fully inside" } else { "fully outside" }, px[i], ux, uy, got),
                ));
            }
        }
    }
    Ok(())
}

fn grid_pts(n: i32) -> Vec<(i32, i32)> {
    // vertices on the integer grid 0..n-1, in half-step units
    let mut v = Vec::new();
    for y in 0..n {
        for x in 0..n {
            v.push((2 * x, 2 * y));
        }
    }
    v
}

/// curved paths: contains_point(t, p) is "inside Path::flatten(t), or on one of its segments":
/// every vertex of flatten(t) must be contained, and every grid point farther than 1e-3 from
/// that polyline is decided by its f64 winding number
fn curve_eval(path: &crate::scene::PathSpec, tol: f32, q: Option<(f32, f32)>) -> Result<(u64, u64), Violation> {
    use crate::model::curve::{dist_outline, winding_polylines};
    let built = path.build();
    let case0 = format!("curve=1 tol={:?} path={}", tol, path);
    let flat = guard(|| built.flatten(tol)).map_err(|p| Violation::new("flatten/panic", case0.clone(), p))?;
    // closed polylines under the fill semantics
    let mut polys: Vec<Vec<(f64, f64)>> = Vec::new();
    let mut cur: Vec<(f64, f64)> = Vec::new();
    let mut start: Option<(f64, f64)> = None;
    for op in &flat.ops {
        match *op {
            PathOp::MoveTo(p) => {
                if cur.len() >= 2 {
                    polys.push(std::mem::take(&mut cur));
                }
                cur.clear();
                cur.push((p.x as f64, p.y as f64));
                start = Some((p.x as f64, p.y as f64));
            }
            PathOp::LineTo(p) => {
                if cur.is_empty() {
                    start = Some((p.x as f64, p.y as f64));
                }
                cur.push((p.x as f64, p.y as f64));
            }
            PathOp::Close => {
                if cur.len() >= 2 {
                    polys.push(std::mem::take(&mut cur));
                }
                cur.clear();
                if let Some(s) = start {
                    cur.push(s);
                }
            }
            _ => {}
        }
    }
    if cur.len() >= 2 {
        polys.push(cur);
    }
    // the true outline (every curve finely sampled from the model cursor, independent of
    // Path::flatten): points farther from it than the flattening deviation are decided by it
    let true_polys: Vec<Vec<(f64, f64)>> = {
        let ops = super::c04::model_flatten(&built.ops, 100.0);
        let mut polys: Vec<Vec<(f64, f64)>> = Vec::new();
        let mut cur: Vec<(f64, f64)> = Vec::new();
        let mut start: Option<(f64, f64)> = None;
        for op in &ops {
            match *op {
                PathOp::MoveTo(p) => {
                    if cur.len() >= 2 {
                        polys.push(std::mem::take(&mut cur));
                    }
                    cur.clear();
                    cur.push((p.x as f64, p.y as f64));
                    start = Some((p.x as f64, p.y as f64));
                }
                PathOp::LineTo(p) => {
                    if cur.is_empty() {
                        start = Some((p.x as f64, p.y as f64));
                    }
                    cur.push((p.x as f64, p.y as f64));
                }
                PathOp::Close => {
                    if cur.len() >= 2 {
                        polys.push(std::mem::take(&mut cur));
                    }
                    cur.clear();
                    if let Some(s) = start {
                        cur.push(s);
                    }
                }
                _ => {}
            }
        }
        if cur.len() >= 2 {
            polys.push(cur);
        }
        polys
    };
    let check = |x: f32, y: f32, want: bool, clause: &str| -> Result<(), Violation> {
        let got = guard(|| built.contains_point(tol, x, y)).map_err(|p| Violation::new("contains_point/panic", format!("{} q={:?},{:?}", case0, x, y), p))?;
        if got != want {
            return Err(Violation::new(format!("contains_point/curved/{}", clause), format!("{} q={:?},{:?}", case0, x, y), format!("contains_point({}, {}, {}) = {}, but the point is {} Path::flatten({})", tol, x, y, got, if clause == "vertex-of-flattened-path" { "a vertex of" } else if want { "inside" } else { "outside" }, tol)));
        }
        Ok(())
    };
    if let Some((x, y)) = q {
        // replay of one point: decide which clause applies
        let on_vertex = polys.iter().any(|p| p.iter().any(|v| v.0 as f32 == x && v.1 as f32 == y));
        if on_vertex {
            check(x, y, true, "vertex-of-flattened-path")?;
        } else if dist_outline((x as f64, y as f64), &polys) > 1e-3 {
            let w = winding_polylines((x as f64, y as f64), &polys);
            let inside = if path.evenodd { w & 1 != 0 } else { w != 0 };
            check(x, y, inside, if inside { "inside-point-reported-outside" } else { "outside-point-reported-inside" })?;
        }
        if !on_vertex && dist_outline((x as f64, y as f64), &true_polys) > 8.0 * tol as f64 + 0.02 {
            let wt = winding_polylines((x as f64, y as f64), &true_polys);
            let inside_t = if path.evenodd { wt & 1 != 0 } else { wt != 0 };
            check(x, y, inside_t, if inside_t { "point-inside-the-true-outline-reported-outside" } else { "point-outside-the-true-outline-reported-inside" })?;
        }
        return Ok((0, 0));
    }
    let (mut nv, mut ng) = (0u64, 0u64);
    let mut h = 0u64;
    for poly in &polys {
        for v in poly {
            nv += 1;
            check(v.0 as f32, v.1 as f32, true, "vertex-of-flattened-path")?;
        }
    }
    for gy in -2..=26 {
        for gx in -2..=26 {
            let (x, y) = (gx as f32 * 0.5, gy as f32 * 0.5);
            if dist_outline((x as f64, y as f64), &polys) <= 1e-3 {
                continue;
            }
            let w = winding_polylines((x as f64, y as f64), &polys);
            let inside = if path.evenodd { w & 1 != 0 } else { w != 0 };
            ng += 1;
            if inside {
                h = h.rotate_left(5) ^ ((gy * 64 + gx) as u64);
            }
            check(x, y, inside, if inside { "inside-point-reported-outside" } else { "outside-point-reported-inside" })?;
            if dist_outline((x as f64, y as f64), &true_polys) > 8.0 * tol as f64 + 0.02 {
                let wt = winding_polylines((x as f64, y as f64), &true_polys);
                let inside_t = if path.evenodd { wt & 1 != 0 } else { wt != 0 };
                check(x, y, inside_t, if inside_t { "point-inside-the-true-outline-reported-outside" } else { "point-outside-the-true-outline-reported-inside" })?;
            }
        }
    }
    Ok((h ^ nv, nv + ng))
}

fn curve_replay(m: &std::collections::BTreeMap<String, String>) -> Result<Option<Violation>, String> {
    let tol: f32 = kv_s(m, "tol")?.parse().map_err(|e: std::num::ParseFloatError| e.to_string())?;
    let path = crate::scene::parse_path(kv_s(m, "path")?)?;
    let q = match m.get("q") {
        Some(s) => {
            let v: Vec<&str> = s.split(',').collect();
            Some((v[0].parse::<f32>().map_err(|e| e.to_string())?, v[1].parse::<f32>().map_err(|e| e.to_string())?))
        }
        None => None,
    };
    Ok(curve_eval(&path, tol, q).err())
}

fn polygons(run: &Run, name: &str, pts: &[(i32, i32)], n: usize, close: bool, qs: &[P], with_fill: bool) {
    let np = pts.len();
    run.bound(name, format!("{}-vertex polygons over {} grid points x 2 rules x {} query points{}", n, np, qs.len(), if with_fill { " + agreement with a 4x-scaled fill" } else { "" }));
    run.par(np * np, |s, l| {
        let mut idx = vec![0usize; n];
        idx[0] = s / np;
        idx[1] = s % np;
        l.states += 1;
        loop {
            let mut ops: Vec<QOp> = idx.iter().enumerate().map(|(j, &k)| if j == 0 { QOp::M(pts[k].0, pts[k].1) } else { QOp::L(pts[k].0, pts[k].1) }).collect();
            if close {
                ops.push(QOp::Z);
            }
            l.states += 1;
            eval_path(run, s, l, &ops, qs, with_fill);
            if s == 7 * np + 3 && idx[2..].iter().all(|&k| k == 11 % np) {
                run.sample(format!("{} :: rule=nz q=3,3 ops={}", name, ops_str(&ops)));
            }
            let mut j = n - 1;
            loop {
                if j < 2 {
                    return;
                }
                idx[j] += 1;
                if idx[j] < np {
                    break;
                }
                idx[j] = 0;
                j -= 1;
            }
            if run.expired() {
                return;
            }
        }
    });
}

fn op_strings(run: &Run, name: &str, pts: &[(i32, i32)], depth: usize, qs: &[P]) {
    let mut alpha: Vec<QOp> = vec![QOp::Z];
    for p in pts {
        alpha.push(QOp::M(p.0, p.1));
    }
    for p in pts {
        alpha.push(QOp::L(p.0, p.1));
    }
    let na = alpha.len();
    run.bound(name, format!("all op strings of length 2..={} over {} ops ({{M,L}} x {} points + Z) x 2 rules x {} query points", depth, na, pts.len(), qs.len()));
    run.par(na * na, |s, l| {
        fn rec(run: &Run, s: usize, l: &mut Local, alpha: &[QOp], stack: &mut Vec<usize>, depth: usize, qs: &[P]) {
            l.states += 1;
            let ops: Vec<QOp> = stack.iter().map(|&i| alpha[i]).collect();
            eval_path(run, s, l, &ops, qs, stack.len() == depth);
            if stack.len() >= depth || run.expired() {
                return;
            }
            for i in 0..alpha.len() {
                stack.push(i);
                rec(run, s, l, alpha, stack, depth, qs);
                stack.pop();
            }
        }
        let mut stack = vec![s / na, s % na];
        rec(run, s, l, &alpha, &mut stack, depth, qs);
    });
}


// ---------------------------------------------------------------- queries a few ulps off a vertex

/// exact value of an f32 in units of 2^-40 (coordinates of this family are below 2^20 in
/// magnitude and multiples of 2^-40)
fn fx(v: f32) -> i128 {
    (v as f64 * (1u64 << 40) as f64) as i128
}

/// exact answer for a closed polygon given in f32 and a query point given in f32: Some(true) on an
/// edge, otherwise by the winding number
fn exact_contains(pts: &[(f32, f32)], rule: Rule, q: (f32, f32)) -> bool {
    let (qx, qy) = (fx(q.0), fx(q.1));
    let n = pts.len();
    let mut w = 0i32;
    for i in 0..n {
        let (a, b) = (pts[i], pts[(i + 1) % n]);
        let (x1, y1, x2, y2) = (fx(a.0), fx(a.1), fx(b.0), fx(b.1));
        let cross = (x2 - x1) * (qy - y1) - (y2 - y1) * (qx - x1);
        if cross == 0 && qx >= x1.min(x2) && qx <= x1.max(x2) && qy >= y1.min(y2) && qy <= y1.max(y2) {
            return true;
        }
        if y1 <= qy && qy < y2 {
            if cross < 0 {
                w -= 1;
            }
        } else if y2 <= qy && qy < y1 {
            if cross > 0 {
                w += 1;
            }
        }
    }
    rule.inside(w)
}

fn bits_list(v: &[(f32, f32)]) -> String {
    v.iter().map(|p| format!("{:08x}:{:08x}", p.0.to_bits(), p.1.to_bits())).collect::<Vec<_>>().join(",")
}

fn ulp_case(pts: &[(f32, f32)], rule: Rule, q: (f32, f32)) -> Result<bool, Violation> {
    ulp_case_tol(pts, rule, q, 0.1)
}

fn ulp_case_tol(pts: &[(f32, f32)], rule: Rule, q: (f32, f32), tol: f32) -> Result<bool, Violation> {
    let case = format!("ulp=1 rule={} qb={:08x}:{:08x} tol={:?} pts={}", if rule == Rule::NonZero { "nz" } else { "eo" }, q.0.to_bits(), q.1.to_bits(), tol, bits_list(pts));
    let mut pb = PathBuilder::new();
    for (i, p) in pts.iter().enumerate() {
        if i == 0 {
            pb.move_to(p.0, p.1)
        } else {
            pb.line_to(p.0, p.1)
        }
    }
    pb.close();
    let mut path = pb.finish();
    path.winding = if rule == Rule::NonZero { Winding::NonZero } else { Winding::EvenOdd };
    let got = guard(|| path.contains_point(tol, q.0, q.1)).map_err(|p| Violation::new("contains_point/panic", case.clone(), p))?;
    let exp = exact_contains(pts, rule, q);
    if got != exp {
        return Err(Violation::new(format!("contains_point/{}", if exp { "inside-point-reported-outside" } else { "outside-point-reported-inside" }), case, format!("polygon {:?}: contains_point({:?}, {:?}) = {}, exact rational model = {}", pts, q.0, q.1, got, exp)));
    }
    Ok(got)
}

fn step(v: f32, k: i32) -> f32 {
    let mut b = v;
    for _ in 0..k.abs() {
        let bits = b.to_bits();
        // v > 0 in this family
        b = f32::from_bits(if k > 0 { bits + 1 } else { bits - 1 });
    }
    b
}

fn ulp_family(run: &Run) {
    // kites and triangles with decimal coordinates; some with a far end of the opposite sign
    let polys: Vec<Vec<(f32, f32)>> = vec![
        vec![(12.0, 0.6), (22.0, 20.2), (12.0, 40.7), (2.0, 2.3)],
        vec![(12.0, -7.4), (22.0, 20.2), (12.0, 40.7), (2.0, 2.3)],
        vec![(3.1, 2.3), (30.7, 9.9), (17.3, 38.6)],
        vec![(5.3, 1.7), (28.9, 3.3), (33.1, 27.7), (4.9, 31.1)],
        vec![(16.0, 3.0), (31.0, -5.0), (29.0, 30.0), (2.0, 25.0), (3.0, -5.0)],
    ];
    run.bound("queries a few ulps off a vertex", format!("{} polygons (decimal coordinates, some with ends of opposite sign) x both vertex orders x every start vertex x 2 rules x for every vertex V: y in {{V.y, 1..4 floats above and below}} x x in {{V.x -+ 1.5, -+ 8.5, -40, 60}}; exact rational model", polys.len()));
    run.par(polys.len() * 2, |s, l| {
        let mut base = polys[s / 2].clone();
        if s % 2 == 1 {
            base.reverse();
        }
        for rot in 0..base.len() {
            let mut pts = base.clone();
            pts.rotate_left(rot);
            for rule in [Rule::NonZero, Rule::EvenOdd] {
                let mut bits = 0u64;
                let mut nin = 0;
                for v in &base {
                    if !(v.1 > 0.0) {
                        continue;
                    }
                    for k in -4..=4 {
                        let y = step(v.1, k);
                        for x in [v.0 - 1.5, v.0 + 1.5, v.0 - 8.5, v.0 + 8.5, -40.0, 60.0] {
                            l.transitions += 1;
                            match ulp_case(&pts, rule, (x, y)) {
                                Ok(b) => {
                                    bits = bits.rotate_left(3) ^ b as u64;
                                    nin += b as u32;
                                }
                                Err(v) => {
                                    run.report(85_000 + s, v);
                                    return;
                                }
                            }
                        }
                    }
                }
                l.states += 1;
                l.traces += 1;
                l.evals += 1;
                if nin > 0 {
                    l.nontrivial += 1;
                }
                l.outcome(bits);
            }
        }
    });
}

/// long edges on a large lattice: every lattice point of a sloped edge (where the two products of
/// the side test need more than 24 bits) and its neighbours on either side
fn long_edges(run: &Run) {
    let slopes: [(i32, i32, i32); 4] = [(1, 1, 10002), (3, 7, 3000), (7, 3, 3000), (5, 9, 2001)];
    run.bound("long edges on a large lattice", "right triangles whose sloped side runs from (0,0) to K*(sx,sy) half-steps for (sx,sy,K) in [(1,1,10002), (3,7,3000), (7,3,3000), (5,9,2001)], both vertex orders, mirrored into negative coordinates x 2 rules x every lattice point of the sloped side and its two horizontal neighbours".to_string());
    run.par(slopes.len() * 4, |s, l| {
        let (sx, sy, k) = slopes[s / 4];
        let (rev, mir) = (s % 2 == 1, (s / 2) % 2 == 1);
        let m = if mir { -1 } else { 1 };
        let mut v = vec![(0, 0), (m * k * sx, m * k * sy), (0, m * k * sy)];
        if rev {
            v.reverse();
        }
        let ops = vec![QOp::M(v[0].0, v[0].1), QOp::L(v[1].0, v[1].1), QOp::L(v[2].0, v[2].1), QOp::Z];
        let mut qs: Vec<P> = Vec::new();
        for j in 0..=k {
            let (x, y) = ((m * j * sx) as i64, (m * j * sy) as i64);
            qs.push((x, y));
            qs.push((x - 1, y));
            qs.push((x + 1, y));
        }
        l.states += 1;
        eval_path(run, 86_000 + s, l, &ops, &qs, false);
    });
}

/// straight polygons with decimal coordinates queried exactly at their vertices, at the midpoints of
/// their axis-aligned edges and just beside them, with tolerances from 100 down to 1e-12 (a straight
/// path does not depend on the tolerance, however it is routed inside)
fn exact_points_at_tiny_tolerances(run: &Run) {
    let polys: Vec<Vec<(f32, f32)>> = vec![vec![(0.1, 0.1), (0.7, 0.1), (0.7, 0.9), (0.1, 0.9)], vec![(12.0, 0.6), (22.0, 20.2), (12.0, 40.7), (2.0, 2.3)], vec![(3.3, 1.7), (9.1, 1.7), (9.1, 6.2), (5.5, 8.9), (3.3, 6.2)]];
    let tols = [3e-9f32, 1e-9, 1e-12, 7e-10, 1e-30, 100.0, 0.1];
    run.bound("exact points at tiny tolerances", format!("{} decimal-coordinate polygons x both orders x tolerances {:?} x queries at every vertex, at the midpoint of every edge whose midpoint is exact, and half a unit inside / outside along the axes; exact rational model", polys.len(), tols));
    run.par(polys.len() * 2, |s, l| {
        let mut pts = polys[s / 2].clone();
        if s % 2 == 1 {
            pts.reverse();
        }
        let n = pts.len();
        let mut qs: Vec<(f32, f32)> = pts.clone();
        for i in 0..n {
            let (a, b) = (pts[i], pts[(i + 1) % n]);
            if a.0 == b.0 || a.1 == b.1 {
                let m = (0.5 * (a.0 + b.0), 0.5 * (a.1 + b.1));
                qs.push(m);
                qs.push((m.0 + 0.5, m.1));
                qs.push((m.0, m.1 - 0.5));
            }
        }
        for &tol in &tols {
            for rule in [Rule::NonZero, Rule::EvenOdd] {
                let mut bits = 0u64;
                for &q in &qs {
                    l.transitions += 1;
                    match ulp_case_tol(&pts, rule, q, tol) {
                        Ok(b) => bits = bits.rotate_left(3) ^ b as u64,
                        Err(v) => {
                            run.report(87_000 + s, v);
                            return;
                        }
                    }
                }
                l.states += 1;
                l.traces += 1;
                l.evals += 1;
                l.nontrivial += 1;
                l.outcome(bits);
            }
        }
    });
}

/// points circled 130 / 260 times by one path (one self-overlapping subpath, and many subpaths of
/// the same orientation): winding numbers beyond 8-bit ranges
fn many_turns(run: &Run) {
    run.bound("many turns", "a square traced 130 / 260 times in one subpath, and 130 / 260 same-orientation square subpaths, both orientations x 2 rules x 9 query points".to_string());
    run.par(8, |s, l| {
        let n = if s % 2 == 0 { 130 } else { 260 };
        let separate = (s / 2) % 2 == 1;
        let rev = s / 4 == 1;
        let mut sq = vec![(2, 2), (8, 2), (8, 8), (2, 8)];
        if rev {
            sq.reverse();
        }
        let mut ops = Vec::new();
        for k in 0..n {
            for (i, p) in sq.iter().enumerate() {
                if i == 0 && (k == 0 || separate) {
                    ops.push(QOp::M(p.0, p.1));
                } else {
                    ops.push(QOp::L(p.0, p.1));
                }
            }
            if separate {
                ops.push(QOp::Z);
            } else {
                ops.push(QOp::L(sq[0].0, sq[0].1));
            }
        }
        let qs: Vec<P> = vec![(5, 5), (3, 7), (2, 2), (8, 5), (5, 2), (1, 5), (9, 9), (5, 9), (0, 0)];
        l.states += 1;
        eval_path(run, 88_000 + s, l, &ops, &qs, false);
    });
}

/// points of winding number 2 and 0-inside-2 (same-sense and opposite-sense nested contours, a contour
/// traced twice) under both rules at tolerances on both sides of what the flattening library accepts:
/// the rule is the path's, whatever route the tolerance takes
fn nested_contours_at_all_tolerances(run: &Run) {
    let tols = [5e-9f32, 1e-12, 3e-30, 1e-8, 0.1, 100.0];
    run.bound("nested contours at all tolerances", format!("two nested squares (same / opposite sense, either order), a square traced twice, three nested squares x tolerances {:?} x 2 rules x 12 query points", tols));
    let sq = |a: i32, b: i32, cw: bool| -> Vec<QOp> {
        let p = if cw { vec![(a, a), (b, a), (b, b), (a, b)] } else { vec![(a, a), (a, b), (b, b), (b, a)] };
        let mut v: Vec<QOp> = p.iter().enumerate().map(|(i, q)| if i == 0 { QOp::M(q.0, q.1) } else { QOp::L(q.0, q.1) }).collect();
        v.push(QOp::Z);
        v
    };
    let mut shapes: Vec<Vec<QOp>> = Vec::new();
    for a in [true, false] {
        for b in [true, false] {
            shapes.push([sq(0, 16, a), sq(4, 12, b)].concat());
            shapes.push([sq(4, 12, b), sq(0, 16, a)].concat());
            shapes.push([sq(0, 16, a), sq(4, 12, b), sq(6, 10, a)].concat());
        }
        let mut twice = sq(2, 14, a);
        twice.pop();
        let again: Vec<QOp> = twice.iter().map(|o| match o { QOp::M(x, y) => QOp::L(*x, *y), o => o.clone() }).collect();
        shapes.push([twice, again, vec![QOp::Z]].concat());
    }
    let qs: Vec<P> = vec![(8, 8), (2, 8), (5, 8), (8, 5), (13, 13), (4, 4), (12, 8), (0, 0), (16, 9), (17, 8), (8, -1), (7, 7)];
    run.par(shapes.len(), |s, l| {
        for &t in &tols {
            l.states += 1;
            eval_path_tol(run, 89_000 + s, l, &shapes[s], &qs, false, t);
        }
    });
}

impl Check for C17 {
    fn id(&self) -> &'static str {
        "C17"
    }
    fn title(&self) -> &'static str {
        "contains_point agrees with the fill rule"
    }

    fn run(&self, run: &Run) {
        let q = run.tier.quick();
        run.rule("every polygon / op string over the integer grid is enumerated once; for each, both winding rules and every point of the half-step grid over [-1,5]^2 (169 points) are queried and compared with an exact integer winding / on-segment computation; non-trivial = the polygon has interior query points that are not on its outline");
        run.assume("a query point that coincides only with a zero-length segment (a lone MoveTo/LineTo point) and is outside by winding is left undecided");
        let qs = query_points();
        let g5 = grid_pts(5);
        let g4 = grid_pts(4);
        let g3 = grid_pts(3);
        polygons(run, "triangles 5x5", &g5, 3, false, &qs, true);
        long_edges(run);
        ulp_family(run);
        exact_points_at_tiny_tolerances(run);
        many_turns(run);
        nested_contours_at_all_tolerances(run);
        // straight paths do not depend on the tolerance, however large or small
        {
            let tols = [0.001f32, 3.0, 100.0];
            run.bound("tolerances on straight paths", format!("triangles and closed quadrilaterals over the 3x3 grid x tolerances {:?} x 2 rules x {} query points", tols, qs.len()));
            let np = g3.len();
            run.par(np * np, |s, l| {
                for k in 0..np {
                    for k2 in 0..=np {
                        let mut ops = vec![QOp::M(g3[s / np].0, g3[s / np].1), QOp::L(g3[s % np].0, g3[s % np].1), QOp::L(g3[k].0, g3[k].1)];
                        if k2 < np {
                            ops.push(QOp::L(g3[k2].0, g3[k2].1));
                            ops.push(QOp::Z);
                        }
                        for &t in &tols {
                            l.states += 1;
                            eval_path_tol(run, 70_000 + s, l, &ops, &qs, false, t);
                        }
                    }
                }
            });
        }
        // the same grid polygons in units 2^-12, 2^-20 and 2^11 times the usual one (every float
        // stays exact, so the exact model applies unchanged; tolerance scaled along)
        for exp in [-12i32, -20, 11] {
            let np = g3.len();
            run.bound(&format!("units scaled by 2^{}", exp), format!("triangles and closed quadrilaterals over the 3x3 grid x 2 rules x {} query points", qs.len()));
            run.par(np * np, |s, l| {
                SCALE_EXP.with(|e| e.set(exp));
                for k in 0..np {
                    for k2 in 0..=np {
                        let mut ops = vec![QOp::M(g3[s / np].0, g3[s / np].1), QOp::L(g3[s % np].0, g3[s % np].1), QOp::L(g3[k].0, g3[k].1)];
                        if k2 < np {
                            ops.push(QOp::L(g3[k2].0, g3[k2].1));
                            ops.push(QOp::Z);
                        }
                        l.states += 1;
                        eval_path_tol(run, 75_000 + s, l, &ops, &qs, false, 0.1 * (2.0f32).powi(exp));
                    }
                }
                SCALE_EXP.with(|e| e.set(0));
            });
        }
        // curved paths at several tolerances
        {
            use crate::scene::{POp, PathSpec};
            let pts: Vec<(f32, f32)> = vec![(0.7, 0.9), (9.9, 1.4), (1.2, 9.5), (10.4, 10.2), (5.3, -3.1), (13.7, 5.2)];
            let tols: Vec<f32> = if q { vec![0.001, 0.03, 0.1, 1.0] } else { vec![0.0002, 0.001, 0.01, 0.03, 0.1, 0.5, 1.0, 4.0] };
            run.bound("curved paths", format!("quads M a Q b c [Z] and cubics M a C b c d over {} points x {} tolerances x 2 rules: every vertex of flatten(t) is contained, every half-step grid point of [-1,13]^2 off the polyline follows its winding number", pts.len(), tols.len()));
            let np = pts.len();
            run.par(np * np, |s, l| {
                let (a, b) = (pts[s / np], pts[s % np]);
                if a == b {
                    return;
                }
                for c in &pts {
                    let mut paths = vec![
                        PathSpec::new(vec![POp::M(a.0, a.1), POp::Q(b.0, b.1, c.0, c.1)]),
                        PathSpec::new(vec![POp::M(a.0, a.1), POp::Q(b.0, b.1, c.0, c.1), POp::Z, POp::L(6.0, 6.5), POp::L(2.0, 7.0)]),
                        // no MoveTo at all: the subpath starts at the first LineTo, and a curve right
                        // after Close starts there again
                        PathSpec::new(vec![POp::L(a.0, a.1), POp::L(b.0, b.1), POp::Z, POp::Q(c.0, c.1, 6.0, 6.5)]),
                        PathSpec::new(vec![POp::Q(a.0, a.1, b.0, b.1), POp::L(c.0, c.1), POp::Z, POp::C(2.0, 7.0, 9.0, 8.0, 6.0, 6.5)]),
                    ];
                    for d in pts.iter().take(if q { 2 } else { 6 }) {
                        paths.push(PathSpec::new(vec![POp::M(a.0, a.1), POp::C(b.0, b.1, c.0, c.1, d.0, d.1)]));
                    }
                    for path in paths {
                        for eo in [false, true] {
                            let p = PathSpec { evenodd: eo, ops: path.ops.clone() };
                            for &t in &tols {
                                l.states += 1;
                                l.traces += 1;
                                l.evals += 1;
                                match curve_eval(&p, t, None) {
                                    Ok((h, n)) => {
                                        l.outcome(h);
                                        l.transitions += n;
                                        l.nontrivial += 1;
                                    }
                                    Err(v) => run.report(80_000 + s, v),
                                }
                            }
                        }
                    }
                }
            });
        }
        if q {
            polygons(run, "quads 4x4", &g4, 4, true, &qs, false);
            op_strings(run, "op strings 2x2 grid", &grid_pts(2), 4, &qs);
        } else {
            polygons(run, "quads 5x5", &g5, 4, true, &qs, true);
            polygons(run, "pentagons 4x4", &g4, 5, false, &qs, false);
            polygons(run, "hexagons 3x3", &g3, 6, true, &qs, false);
            op_strings(run, "op strings 3x3 grid", &g3, 4, &qs);
            op_strings(run, "op strings 2x2 grid", &grid_pts(2), 6, &qs);
        }
    }

    fn replay(&self, case: &str) -> Result<Option<Violation>, String> {
        let m = kv(case);
        if m.contains_key("curve") {
            return curve_replay(&m);
        }
        if m.contains_key("ulp") {
            let pb = |t: &str| -> Result<(f32, f32), String> {
                let (a, b) = t.split_once(':').ok_or("bad point")?;
                Ok((f32::from_bits(u32::from_str_radix(a, 16).map_err(|e| e.to_string())?), f32::from_bits(u32::from_str_radix(b, 16).map_err(|e| e.to_string())?)))
            };
            let pts: Vec<(f32, f32)> = kv_s(&m, "pts")?.split(',').map(pb).collect::<Result<_, _>>()?;
            let rule = if kv_s(&m, "rule")? == "nz" { Rule::NonZero } else { Rule::EvenOdd };
            let tol = m.get("tol").and_then(|t| t.parse::<f32>().ok()).unwrap_or(0.1);
            return Ok(ulp_case_tol(&pts, rule, pb(kv_s(&m, "qb")?)?, tol).err());
        }
        let ops = parse_ops(kv_s(&m, "ops")?)?;
        let rule = if kv_s(&m, "rule")? == "nz" { Rule::NonZero } else { Rule::EvenOdd };
        if m.contains_key("fillcheck") {
            return Ok(fill_agreement(&ops, rule).err());
        }
        let qv = kv_list(&m, "q")?;
        SCALE_EXP.with(|s| s.set(m.get("sc").and_then(|v| v.parse::<i32>().ok()).unwrap_or(0)));
        let tol = match m.get("tol") {
            Some(t) => t.parse::<f32>().map_err(|e| e.to_string())?,
            None => 0.1,
        };
        let c = Case { ops: ops.clone(), rule, q: (qv[0], qv[1]), tol };
        let segs = segments(&ops);
        let path = user_path(&ops, rule);
        Ok(eval_point(&c, &path, &segs).err())
    }
}
