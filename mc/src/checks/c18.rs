//! C18 Premultiplied-alpha validity is preserved by every drawing operation.
//!
//! Invariant checked on every reachable state (surface and every open layer buffer, after
//! every call) of scenes whose destinations and sources are valid premultiplied colours:
//! r, g, b <= a for every pixel.

use super::c03::{contexts, dst_cols, image_of, probes, sources};
use super::common::*;
use crate::engine::*;
use crate::model::pix::valid_premul;
use crate::scene::*;
use raqote::*;

pub struct C18;

fn first_invalid(dt: &DrawTarget) -> Option<(String, usize, u32)> {
    for (i, p) in dt.get_data().iter().enumerate() {
        if !valid_premul(*p) {
            return Some(("surface".into(), i, *p));
        }
    }
    let (_, nl) = dt.verif_stack_depths();
    for li in 0..nl {
        let (_, px, _, _) = dt.verif_layer(li).unwrap();
        for (i, p) in px.iter().enumerate() {
            if !valid_premul(*p) {
                return Some((format!("layer {}", li), i, *p));
            }
        }
    }
    None
}

/// Ok(Some(hash)) = invariant held; Ok(None) = scene hit the dependency's non-separable overflow
fn eval(scene: &Scene) -> Result<Option<u64>, Violation> {
    let case = scene.to_string();
    let mut dt = scene.target();
    if let Some((b, i, p)) = first_invalid(&dt) {
        return Err(Violation::new("harness/invalid-initial-pixel", case, format!("{} index {} = {:#010x}", b, i, p)));
    }
    for (k, op) in scene.ops.iter().enumerate() {
        let before = dt.get_data().to_vec();
        match guard(|| exec(&mut dt, op)) {
            Ok(()) => {}
            Err(p) => {
                if p.contains("sw-composite") && p.contains("assertion failed") && p.contains("<= a") {
                    // the dependency's own debug assertion in pack_argb32: a non-separable blend
                    // produced a colour channel above alpha for valid premultiplied inputs
                    let m = match op {
                        Op::Fill(_, _, o) | Op::FillRect(_, _, _, _, _, o) | Op::Stroke(_, _, _, o) | Op::DrawImageAt(_, _, _, _, _, o) | Op::DrawImageSize(_, _, _, _, _, _, _, o) => mode_name(o.mode),
                        Op::PopLayer => {
                            // the blend mode of the layer being popped
                            let mut st: Vec<BlendMode> = Vec::new();
                            for o in &scene.ops[..k] {
                                match o {
                                    Op::PushLayer(_, b) => st.push(*b),
                                    Op::PopLayer => {
                                        st.pop();
                                    }
                                    _ => {}
                                }
                            }
                            st.last().map(|b| mode_name(*b)).unwrap_or_else(|| "-".to_string())
                        }
                        _ => "-".to_string(),
                    };
                    // the listed finding is the dependency's Color blend (the only mode observed to do
                    // this on the unchanged tree); the same assertion reached through any other
                    // requested mode is a different violation
                    let fid = if m == "Color" { Some("sw_composite_nonseparable_channel_exceeds_alpha") } else { None };
                    return Err(Violation::new(format!("{}/dependency-asserts-channel-exceeds-alpha/{}", op.kind(), m), case, format!("after step {} ({}): {}", k, op.kind(), p)).finding(fid));
                }
                if crate::checks::common::is_dependency_panic(&p) {
                    return Ok(None);
                }
                return Err(Violation::new(format!("{}/panic", op.kind()), case, p));
            }
        }
        if let Some((b, i, p)) = first_invalid(&dt) {
            let mode = match op {
                Op::Fill(_, _, o) | Op::FillRect(_, _, _, _, _, o) | Op::Stroke(_, _, _, o) | Op::DrawImageAt(_, _, _, _, _, o) | Op::DrawImageSize(_, _, _, _, _, _, _, o) => mode_name(o.mode),
                Op::PopLayer => "layer-blend".to_string(),
                _ => "-".to_string(),
            };
            let prev = if b == "surface" { format!("{:#010x}", before[i]) } else { "?".to_string() };
            return Err(Violation::new(format!("{}/channel-exceeds-alpha/{}", op.kind(), mode), case, format!("after step {} ({}): {} pixel index {} = {:#010x} has a colour channel above its alpha (previous value {})", k, op.kind(), b, i, p, prev)));
        }
    }
    Ok(Some(hash64(&dt.get_data().to_vec())))
}

fn one(run: &Run, shard: usize, l: &mut Local, scene: &Scene, sample: bool) {
    l.states += scene.ops.len() as u64 + 1;
    l.transitions += scene.ops.len() as u64;
    l.traces += 1;
    l.evals += 1;
    if sample {
        run.sample(scene.to_string());
    }
    match eval(scene) {
        Ok(Some(h)) => {
            l.outcome(h);
            l.nontrivial += 1;
        }
        Ok(None) => l.count("scenes_skipped_dependency_nonseparable_overflow", 1),
        Err(v) => run.report(shard, v),
    }
}

fn grad_sources() -> Vec<SrcSpec> {
    let ramp = vec![Stop { pos: 0.0, color: 0xffff8000 }, Stop { pos: 0.4, color: 0x4000ff80 }, Stop { pos: 1.0, color: 0xc0ffffff }];
    vec![
        SrcSpec::Linear { stops: ramp.clone(), spread: Spr::Pad, p: [0., 0., 12., 4.] },
        SrcSpec::Radial { stops: ramp.clone(), spread: Spr::Reflect, p: [6., 2., 5.] },
        SrcSpec::TwoCircle { stops: ramp.clone(), spread: Spr::Repeat, p: [6., 2., 1., 6.5, 2., 6.] },
        SrcSpec::Sweep { stops: ramp, spread: Spr::Pad, p: [6., 2., 0., 360.] },
        SrcSpec::Sweep { stops: vec![Stop { pos: 0.3, color: 0x40ff8000 }], spread: Spr::Pad, p: [6., 2., 0., 360.] },
        SrcSpec::TwoCircle { stops: vec![Stop { pos: 1.0, color: 0x40ff8000 }], spread: Spr::Pad, p: [6., 2., 1., 6.5, 2., 6.] },
        SrcSpec::Image { w: 3, h: 2, data: image_of(3, 2, &VALS12, 0), repeat: true, bilinear: true, xf: [0.4, 0.1, -0.1, 0.6, 0.3, 0.2] },
        SrcSpec::Image { w: 3, h: 2, data: image_of(3, 2, &VALS12, 5), repeat: false, bilinear: true, xf: [1.7, 0., 0., 0.8, -2.5, 0.5] },
    ]
}

impl Check for C18 {
    fn id(&self) -> &'static str {
        "C18"
    }
    fn title(&self) -> &'static str {
        "Premultiplied-alpha validity is preserved by every drawing operation"
    }

    fn run(&self, run: &Run) {
        let deep = !run.tier.quick();
        let q = false;
        run.rule("scenes with valid premultiplied destinations and sources: (1) the C03 space (context x probe x 28 modes x alphas x sources incl. gradients and filtered images), (2) all ordered pairs of blend modes in two consecutive draws, (3) layer scenes with every layer blend; after every call every pixel of the surface and of every open layer must satisfy r,g,b <= a; plus Color / from_unpremultiplied_argb over a 17^4 grid; non-trivial = scene ran to completion");
        let (w, h) = (12, 4);
        let ctxs = contexts(w, h, q);
        let vals: &[u32] = if q { &VALS6 } else { &VALS12 };
        let mut srcs = sources(vals, w, h, q);
        srcs.extend(grad_sources());
        let alphas: &[f32] = if q { &ALPHAS_Q } else { &ALPHAS };
        // (1)
        run.bound("single draws", format!("{} contexts x probes x 28 modes x {} alphas x {} sources", ctxs.len(), alphas.len(), srcs.len()));
        run.par(MODES.len() * srcs.len(), |s, l| {
            let mode = MODES[s / srcs.len()];
            let src = &srcs[s % srcs.len()];
            for &alpha in alphas {
                for (pi, probe) in probes(w, h, src, Opts { mode, alpha, aa: true }, q).into_iter().enumerate() {
                    for (ci, (_n, pre, suf)) in ctxs.iter().enumerate() {
                        let mut ops = pre.clone();
                        ops.push(probe.clone());
                        ops.extend(suf.iter().cloned());
                        let scene = Scene { w, h, dst: dst_cols(w, h, &VALS12, 3), ops };
                        one(run, s, l, &scene, s == 30 && pi == 1 && ci == 2 && alpha == 0.5);
                    }
                }
            }
        });
        // (2) mode pairs: the output of one draw is the destination of the next
        let mut pair_srcs: Vec<SrcSpec> = vec![SrcSpec::Solid(0x80002040), SrcSpec::Solid(0xff204080), SrcSpec::Solid(0x01010001), grad_sources()[0].clone(), grad_sources()[4].clone()];
        if deep {
            pair_srcs.extend(grad_sources().into_iter().skip(1).take(3));
            pair_srcs.push(SrcSpec::Solid(0xfe00fe7f));
            pair_srcs.push(SrcSpec::Solid(0x40400020));
        }
        let pair_alphas: Vec<f32> = if deep { vec![0.1, 0.25, 0.5, 0.75, 1.0] } else { vec![0.25, 0.5, 1.0] };
        run.bound("mode pairs", format!("28 x 28 ordered mode pairs x {} x {} sources x 3 alphas x 2 shapes", pair_srcs.len(), pair_srcs.len()));
        run.par(MODES.len() * MODES.len(), |s, l| {
            let (m1, m2) = (MODES[s / MODES.len()], MODES[s % MODES.len()]);
            for s1 in &pair_srcs {
                for s2 in &pair_srcs {
                    for &alpha in &pair_alphas {
                        for shape in 0..2 {
                            let (a, b) = if shape == 0 {
                                (Op::Fill(PathSpec::poly(&[(0., 0.), (12., 0.5), (0.25, 4.)]), s1.clone(), Opts { mode: m1, alpha, aa: true }), Op::Fill(PathSpec::poly(&[(12., 4.), (0., 3.5), (11.75, 0.)]), s2.clone(), Opts { mode: m2, alpha: 1.0, aa: true }))
                            } else {
                                (Op::FillRect(1., 0., 10., 3., s1.clone(), Opts { mode: m1, alpha: 1.0, aa: true }), Op::FillRect(0.5, 0.75, 11., 3., s2.clone(), Opts { mode: m2, alpha, aa: true }))
                            };
                            let scene = Scene { w, h, dst: dst_cols(w, h, &VALS12, 1), ops: vec![a, b] };
                            one(run, s, l, &scene, false);
                        }
                    }
                }
            }
        });
        // (3) layers
        let opac: &[f32] = if q { &[0.5, 1.0] } else { &[0.0, 0.25, 0.5, 0.999, 1.0] };
        run.bound("layers", format!("28 layer blends x {} opacities x 28 inner modes x 3 contexts x nested variant", opac.len()));
        run.par(MODES.len() * MODES.len(), |s, l| {
            let (lb, im) = (MODES[s / MODES.len()], MODES[s % MODES.len()]);
            for &o in opac {
                for ctx in 0..3 {
                    for nested in [false, true] {
                        let mut ops: Vec<Op> = match ctx {
                            0 => vec![],
                            1 => vec![Op::PushClipRect(1, 1, 11, 4)],
                            _ => vec![Op::PushClip(PathSpec::poly(&[(0.5, 0.0), (12.0, 0.25), (11.5, 4.0), (1.75, 3.75)]))],
                        };
                        ops.push(Op::PushLayer(o, lb));
                        ops.push(Op::Fill(PathSpec::poly(&[(0., 0.), (12., 0.5), (0.25, 4.)]), SrcSpec::Solid(0xff204080), Opts::default()));
                        if nested {
                            ops.push(Op::PushLayer(0.5, im));
                        }
                        ops.push(Op::Fill(PathSpec::poly(&[(12., 4.), (0., 3.5), (11.75, 0.)]), SrcSpec::Solid(0x80002040), Opts { mode: im, alpha: 0.75, aa: true }));
                        if nested {
                            ops.push(Op::PopLayer);
                        }
                        ops.push(Op::PopLayer);
                        if ctx != 0 {
                            ops.push(Op::PopClip);
                        }
                        let scene = Scene { w, h, dst: dst_cols(w, h, &VALS12, 2), ops };
                        one(run, s, l, &scene, s == 100 && o == 0.5 && ctx == 2 && nested);
                    }
                }
            }
        });
        // (1b) sources whose channels equal their alpha, every level x every global alpha byte x every shader family
        run.bound("alpha sweep", "256 levels (c = a) x 256 global alpha bytes x {solid, 1x1 image via the integer-translation shader, 1x1 image via the bilinear and nearest shaders, constant two-stop gradient, single-stop linear and radial gradients, a radial gradient of radius 1e-30} x {Src on transparent, SrcOver on white}".to_string());
        run.par(256, |v, l| {
            let v = v as u32;
            let c = (v << 24) | (v << 16) | (v << 8) | v;
            let un = if v == 0 { 0 } else { (v << 24) | 0x00ffffff };
            let srcs: Vec<SrcSpec> = vec![
                SrcSpec::Solid(c),
                SrcSpec::Image { w: 1, h: 1, data: vec![c], repeat: false, bilinear: false, xf: IDENT },
                SrcSpec::Image { w: 1, h: 1, data: vec![c], repeat: true, bilinear: true, xf: [0.5, 0., 0., 0.5, 0.25, 0.25] },
                SrcSpec::Image { w: 1, h: 1, data: vec![c], repeat: false, bilinear: false, xf: [0.5, 0., 0., 0.5, 0.25, 0.25] },
                SrcSpec::Linear { stops: vec![Stop { pos: 0.0, color: un }, Stop { pos: 1.0, color: un }], spread: Spr::Pad, p: [0., 0., 2., 0.] },
                // single-stop gradients (any shortcut for them must still premultiply)
                SrcSpec::Linear { stops: vec![Stop { pos: 0.5, color: un }], spread: Spr::Repeat, p: [0., 0., 2., 0.] },
                SrcSpec::Radial { stops: vec![Stop { pos: 0.0, color: un }], spread: Spr::Pad, p: [1., 0.5, 3.] },
                // a radius so small that its square underflows (degenerate gradient matrix)
                SrcSpec::Radial { stops: vec![Stop { pos: 0.0, color: 0xff000000 }, Stop { pos: 1.0, color: un }], spread: Spr::Pad, p: [1., 0.5, 1e-30] },
                // other degenerate constructor arguments: a sweep with equal angles, a linear
                // gradient of zero length, a two-circle gradient with coincident circles
                SrcSpec::Sweep { stops: vec![Stop { pos: 0.0, color: 0xff000000 }, Stop { pos: 1.0, color: un }], spread: Spr::Pad, p: [1., 0.5, 45., 45.] },
                SrcSpec::Linear { stops: vec![Stop { pos: 0.0, color: 0xff000000 }, Stop { pos: 1.0, color: un }], spread: Spr::Reflect, p: [1., 0.5, 1., 0.5] },
                SrcSpec::TwoCircle { stops: vec![Stop { pos: 0.0, color: 0xff000000 }, Stop { pos: 1.0, color: un }], spread: Spr::Pad, p: [1., 0.5, 2., 1., 0.5, 2.] },
            ];
            for k in 0..256u32 {
                let alpha = k as f32 / 255.0;
                for src in &srcs {
                    for (dst, mode) in [(Dst::Zero, BlendMode::Src), (Dst::White, BlendMode::SrcOver)] {
                        let scene = Scene { w: 2, h: 1, dst, ops: vec![Op::FillRect(0., 0., 2., 1., src.clone(), Opts { mode, alpha, aa: true })] };
                        one(run, 200_000 + v as usize, l, &scene, false);
                    }
                }
            }
        });
        // (2') thorough: all ordered triples of blend modes in three consecutive draws
        if deep {
            let tsrc = [SrcSpec::Solid(0x80002040), SrcSpec::Solid(0xfe00fe7f), grad_sources()[0].clone()];
            run.bound("mode triples", format!("28^3 ordered mode triples x {}^3 sources, alpha 0.5 / 1 / 0.75, fills over a 12x4 destination holding 12 values", tsrc.len()));
            run.par(MODES.len() * MODES.len(), |s, l| {
                let (m1, m2) = (MODES[s / MODES.len()], MODES[s % MODES.len()]);
                for &m3 in MODES.iter() {
                    for s1 in &tsrc {
                        for s2 in &tsrc {
                            for s3 in &tsrc {
                                let scene = Scene {
                                    w,
                                    h,
                                    dst: dst_cols(w, h, &VALS12, 5),
                                    ops: vec![
                                        Op::Fill(PathSpec::poly(&[(0., 0.), (12., 0.5), (0.25, 4.)]), s1.clone(), Opts { mode: m1, alpha: 0.5, aa: true }),
                                        Op::FillRect(1.5, 0.25, 9.25, 3.5, s2.clone(), Opts { mode: m2, alpha: 1.0, aa: true }),
                                        Op::Fill(PathSpec::poly(&[(12., 4.), (0., 3.5), (11.75, 0.)]), s3.clone(), Opts { mode: m3, alpha: 0.75, aa: true }),
                                    ],
                                };
                                one(run, 300_000 + s, l, &scene, false);
                            }
                        }
                    }
                }
            });
        }
        // (3b) layer opacity sweep: every opacity byte x every content alpha (c = a, and c = a / 2),
        // SrcOver and Src layers, over a transparent and over a white 1x1 surface
        run.bound("layer opacity sweep", "256 opacity bytes x 256 content levels (channels equal to alpha; half of it) x layer blend SrcOver / Src / Multiply x transparent / white backdrop on 1x1".to_string());
        run.par(256, |ob, l| {
            let opacity = ob as f32 / 255.0;
            for a in 0..256u32 {
                for content in [(a << 24) | (a << 16) | (a << 8) | a, (a << 24) | ((a / 2) << 16) | (a << 8) | (a / 3)] {
                    for blend in [BlendMode::SrcOver, BlendMode::Src, BlendMode::Multiply] {
                        for dst in [Dst::Zero, Dst::White] {
                            let scene = Scene { w: 1, h: 1, dst, ops: vec![Op::PushLayer(opacity, blend), Op::FillRect(0., 0., 1., 1., SrcSpec::Solid(content), Opts { mode: BlendMode::Src, alpha: 1.0, aa: true }), Op::PopLayer] };
                            one(run, 9000 + ob, l, &scene, false);
                        }
                    }
                }
            }
        });
        // (3c) surface-to-surface blends: every (source level, destination level) pair with channels equal
        // to alpha, and a darker variant, x alphas x blend_surface_with_alpha / blend_surface(SrcOver)
        run.bound("surface blends", "256 x 256 (source, destination) levels (c = a; c = a / 2) x alpha {1, 0.5, 0.996} for blend_surface_with_alpha, and blend_surface with SrcOver / Multiply / Screen, on 256x1 surfaces".to_string());
        run.par(256, |sa, l| {
            let sa = sa as u32;
            for variant in 0..2 {
                let lvl = |a: u32| if variant == 0 { (a << 24) | (a << 16) | (a << 8) | a } else { (a << 24) | ((a / 2) << 16) | (a << 8) | (a / 3) };
                let srcpx: Vec<u32> = vec![lvl(sa); 256];
                let dstpx: Vec<u32> = (0..256u32).map(lvl).collect();
                for op in 0..6 {
                    let r = guard(|| {
                        let src = DrawTarget::from_vec(256, 1, srcpx.clone());
                        let mut dst = DrawTarget::from_vec(256, 1, dstpx.clone());
                        let rect = IntRect::new(IntPoint::new(0, 0), IntPoint::new(256, 1));
                        match op {
                            0 => dst.blend_surface_with_alpha(&src, rect, IntPoint::new(0, 0), 1.0),
                            1 => dst.blend_surface_with_alpha(&src, rect, IntPoint::new(0, 0), 0.5),
                            2 => dst.blend_surface_with_alpha(&src, rect, IntPoint::new(0, 0), 0.996),
                            3 => dst.blend_surface(&src, rect, IntPoint::new(0, 0), BlendMode::SrcOver),
                            4 => dst.blend_surface(&src, rect, IntPoint::new(0, 0), BlendMode::Multiply),
                            _ => dst.blend_surface(&src, rect, IntPoint::new(0, 0), BlendMode::Screen),
                        }
                        dst.into_vec()
                    });
                    l.states += 1;
                    l.transitions += 256;
                    l.traces += 1;
                    l.evals += 1;
                    let case = format!("surfblend sa={} variant={} op={}", sa, variant, op);
                    match r {
                        Ok(px) => {
                            l.nontrivial += 1;
                            l.outcome(hash64(&px));
                            if let Some(i) = px.iter().position(|p| { let a = p >> 24; ((p >> 16) & 0xff) > a || ((p >> 8) & 0xff) > a || (p & 0xff) > a }) {
                                run.report(9500 + sa as usize, Violation::new("blend_surface/channel-exceeds-alpha", case, format!("source {:#010x} over destination {:#010x} gives {:#010x}", srcpx[i], dstpx[i], px[i])));
                            }
                        }
                        Err(p) => {
                            if !crate::checks::common::is_dependency_panic(&p) {
                                run.report(9500 + sa as usize, Violation::new("blend_surface/panic", case, p));
                            }
                        }
                    }
                }
            }
        });
        // (4) conversions
        run.bound("conversions", "from_unpremultiplied_argb and From<Color> over 17^4 channel tuples".to_string());
        let ch: Vec<u8> = (0..17).map(|i| (i * 16).min(255) as u8).collect();
        run.par(17, |ai, l| {
            for &r in &ch {
                for &g in &ch {
                    for &b in &ch {
                        let a = ch[ai];
                        l.states += 1;
                        l.transitions += 2;
                        l.traces += 1;
                        l.evals += 1;
                        l.nontrivial += 1;
                        let s1 = SolidSource::from_unpremultiplied_argb(a, r, g, b);
                        let s2: SolidSource = Color::new(a, r, g, b).into();
                        l.outcome(s1.to_u32() as u64);
                        let s3 = match Source::from(Color::new(a, r, g, b)) {
                            Source::Solid(s) => s,
                            _ => SolidSource { r: 255, g: 255, b: 255, a: 0 },
                        };
                        for (name, s) in [("from_unpremultiplied_argb", s1), ("From<Color>", s2), ("Source::from(Color)", s3)] {
                            if s.r > s.a || s.g > s.a || s.b > s.a || s.a != a {
                                run.report(ai, Violation::new(format!("conversion/{}", name), format!("conv a={} r={} g={} b={}", a, r, g, b), format!("{} gives {:?}", name, s)));
                            }
                        }
                    }
                }
            }
        });
    }

    fn replay(&self, case: &str) -> Result<Option<Violation>, String> {
        if case.starts_with("surfblend ") {
            let m = kv(case);
            let (sa, variant, op) = (kv_i(&m, "sa")? as u32, kv_i(&m, "variant")?, kv_i(&m, "op")?);
            let lvl = |a: u32| if variant == 0 { (a << 24) | (a << 16) | (a << 8) | a } else { (a << 24) | ((a / 2) << 16) | (a << 8) | (a / 3) };
            let src = DrawTarget::from_vec(256, 1, vec![lvl(sa); 256]);
            let mut dst = DrawTarget::from_vec(256, 1, (0..256u32).map(lvl).collect());
            let rect = IntRect::new(IntPoint::new(0, 0), IntPoint::new(256, 1));
            match op {
                0 => dst.blend_surface_with_alpha(&src, rect, IntPoint::new(0, 0), 1.0),
                1 => dst.blend_surface_with_alpha(&src, rect, IntPoint::new(0, 0), 0.5),
                2 => dst.blend_surface_with_alpha(&src, rect, IntPoint::new(0, 0), 0.996),
                3 => dst.blend_surface(&src, rect, IntPoint::new(0, 0), BlendMode::SrcOver),
                4 => dst.blend_surface(&src, rect, IntPoint::new(0, 0), BlendMode::Multiply),
                _ => dst.blend_surface(&src, rect, IntPoint::new(0, 0), BlendMode::Screen),
            }
            let px = dst.into_vec();
            return Ok(px.iter().position(|p| { let a = p >> 24; ((p >> 16) & 0xff) > a || ((p >> 8) & 0xff) > a || (p & 0xff) > a }).map(|i| Violation::new("blend_surface/channel-exceeds-alpha", case.to_string(), format!("pixel {} = {:#010x}", i, px[i]))));
        }
        if case.starts_with("conv ") {
            let m = kv(case);
            let (a, r, g, b) = (kv_i(&m, "a")? as u8, kv_i(&m, "r")? as u8, kv_i(&m, "g")? as u8, kv_i(&m, "b")? as u8);
            let s = SolidSource::from_unpremultiplied_argb(a, r, g, b);
            let s3 = match Source::from(Color::new(a, r, g, b)) {
                Source::Solid(s) => s,
                _ => SolidSource { r: 255, g: 255, b: 255, a: 0 },
            };
            for (name, s) in [("from_unpremultiplied_argb", s), ("Source::from(Color)", s3)] {
                if s.r > s.a || s.g > s.a || s.b > s.a || s.a != a {
                    return Ok(Some(Violation::new(format!("conversion/{}", name), case.to_string(), format!("{:?}", s))));
                }
            }
            return Ok(None);
        }
        let scene = parse_scene(case)?;
        Ok(eval(&scene).err())
    }
}
