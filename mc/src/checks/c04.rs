//! C04 Strokes cover exactly the offset region implied by width, joins and caps.

use crate::engine::*;
use crate::model::curve::P2;
use crate::model::img::xf64;
use crate::model::region::*;
use crate::scene::*;
use raqote::*;

pub struct C04;

const SURF: i32 = 36;

/// polylines (user space) of a flat path under the stroker's subpath semantics
pub fn polylines_of(ops: &[PathOp]) -> Vec<Polyline> {
    let mut out: Vec<Polyline> = Vec::new();
    let mut cur: Vec<P2> = Vec::new();
    let mut start: Option<P2> = None;
    let flush = |out: &mut Vec<Polyline>, cur: &mut Vec<P2>, closed: bool| {
        if cur.len() >= 2 {
            out.push(Polyline { pts: std::mem::take(cur), closed });
        } else {
            cur.clear();
        }
    };
    for op in ops {
        match *op {
            PathOp::MoveTo(p) => {
                flush(&mut out, &mut cur, false);
                cur.push((p.x as f64, p.y as f64));
                start = Some((p.x as f64, p.y as f64));
            }
            PathOp::LineTo(p) => {
                if cur.is_empty() {
                    start = Some((p.x as f64, p.y as f64));
                }
                cur.push((p.x as f64, p.y as f64));
            }
            PathOp::Close => {
                flush(&mut out, &mut cur, true);
                if let Some(s) = start {
                    cur.push(s);
                }
            }
            _ => {}
        }
    }
    flush(&mut out, &mut cur, false);
    out
}

/// the path with every curve replaced by a polyline sampled from the true curve finely enough
/// to stay within 0.01 device px of it (`scale` = device px per user unit)
pub fn model_flatten(ops: &[PathOp], scale: f64) -> Vec<PathOp> {
    use crate::model::curve::Curve;
    let mut out: Vec<PathOp> = Vec::new();
    let mut cur: Option<P2> = None;
    let mut start: Option<P2> = None;
    let pt = |p: P2| raqote::Point::new(p.0 as f32, p.1 as f32);
    for op in ops {
        match *op {
            PathOp::MoveTo(p) => {
                cur = Some((p.x as f64, p.y as f64));
                start = cur;
                out.push(*op);
            }
            PathOp::LineTo(p) => {
                if cur.is_none() {
                    start = Some((p.x as f64, p.y as f64));
                }
                cur = Some((p.x as f64, p.y as f64));
                out.push(*op);
            }
            PathOp::Close => {
                cur = start;
                out.push(*op);
            }
            PathOp::QuadTo(c, e) => {
                let c = (c.x as f64, c.y as f64);
                let e = (e.x as f64, e.y as f64);
                let s = cur.unwrap_or(c);
                if cur.is_none() {
                    start = Some(c);
                    out.push(PathOp::LineTo(pt(c)));
                }
                let a2 = ((s.0 - 2.0 * c.0 + e.0).powi(2) + (s.1 - 2.0 * c.1 + e.1).powi(2)).sqrt() * scale;
                let n = 16usize.max((a2 / 0.08).sqrt().ceil() as usize);
                for q in Curve::Quad(s, c, e).sample(n).into_iter().skip(1) {
                    out.push(PathOp::LineTo(pt(q)));
                }
                cur = Some(e);
            }
            PathOp::CubicTo(a, b, e) => {
                let a = (a.x as f64, a.y as f64);
                let b = (b.x as f64, b.y as f64);
                let e = (e.x as f64, e.y as f64);
                let s = cur.unwrap_or(a);
                if cur.is_none() {
                    start = Some(a);
                    out.push(PathOp::LineTo(pt(a)));
                }
                let d1 = ((s.0 - 2.0 * a.0 + b.0).powi(2) + (s.1 - 2.0 * a.1 + b.1).powi(2)).sqrt();
                let d2 = ((a.0 - 2.0 * b.0 + e.0).powi(2) + (a.1 - 2.0 * b.1 + e.1).powi(2)).sqrt();
                let n = 16usize.max((3.0 * d1.max(d2) * scale / 0.08).sqrt().ceil() as usize);
                for q in Curve::Cubic(s, a, b, e).sample(n).into_iter().skip(1) {
                    out.push(PathOp::LineTo(pt(q)));
                }
                cur = Some(e);
            }
        }
    }
    out
}

fn has_collinear_curve(ops: &[PathOp]) -> bool {
    let mut cur: Option<(f64, f64)> = None;
    let mut start: Option<(f64, f64)> = None;
    let f = |p: raqote::Point| (p.x as f64, p.y as f64);
    let col = |pts: &[(f64, f64)]| {
        let (a, e) = (pts[0], pts[pts.len() - 1]);
        // direction: first non-zero difference from a
        let d = pts.iter().map(|p| (p.0 - a.0, p.1 - a.1)).find(|d| d.0 != 0.0 || d.1 != 0.0);
        let _ = e;
        match d {
            None => true,
            Some(d) => pts.iter().all(|p| ((p.0 - a.0) * d.1 - (p.1 - a.1) * d.0).abs() <= 1e-6 * (d.0.abs() + d.1.abs()) * ((p.0 - a.0).abs() + (p.1 - a.1).abs() + 1e-30)),
        }
    };
    for op in ops {
        match *op {
            PathOp::MoveTo(p) => {
                cur = Some(f(p));
                start = cur;
            }
            PathOp::LineTo(p) => {
                if cur.is_none() {
                    start = Some(f(p));
                }
                cur = Some(f(p));
            }
            PathOp::Close => cur = start,
            PathOp::QuadTo(c, e) => {
                let s = cur.unwrap_or(f(c));
                if col(&[s, f(c), f(e)]) {
                    return true;
                }
                cur = Some(f(e));
            }
            PathOp::CubicTo(a, b, e) => {
                let s = cur.unwrap_or(f(a));
                if col(&[s, f(a), f(b), f(e)]) {
                    return true;
                }
                cur = Some(f(e));
            }
        }
    }
    false
}

fn params(st: &StyleSpec) -> StrokeParams {
    StrokeParams {
        width: st.width as f64,
        join: [Join::Miter, Join::Round, Join::Bevel][st.join as usize],
        cap: [Cap::Butt, Cap::Round, Cap::Square][st.cap as usize],
        miter_limit: st.miter as f64,
    }
}

fn scene_of(path: &PathSpec, st: &StyleSpec, xf: &Xf) -> Scene {
    let mut ops = Vec::new();
    if *xf != IDENT {
        ops.push(Op::SetTransform(*xf));
    }
    ops.push(Op::Stroke(path.clone(), st.clone(), SrcSpec::Solid(0xffffffff), Opts::default()));
    Scene { w: SURF, h: SURF, dst: Dst::Zero, ops }
}

pub struct Stat {
    pub hash: u64,
    pub inside: u64,
    pub outside: u64,
    pub undecided: bool,
}

/// analytic oracle on one stroke; `lines` = the polylines the region is built from (user space)
pub fn check_region(case: &str, got: &[u32], w: i32, h: i32, lines: &[Polyline], sp: &StrokeParams, xf: &Xf, mu: f64, what: &str) -> Result<Stat, Violation> {
    let m = xf64(xf);
    let smax = (m[0] * m[0] + m[1] * m[1]).sqrt().max((m[2] * m[2] + m[3] * m[3]).sqrt()).max(1e-9);
    // pens thousands of pixels wide: 48 steps per half turn leave a band of several pixels between
    // the inscribed and the circumscribed polygon in which nothing is asserted; from a device radius
    // of 5000 px the round pieces are approximated to 0.05 px instead
    let smax_raw = (m[0] * m[0] + m[1] * m[1]).sqrt().max((m[2] * m[2] + m[3] * m[3]).sqrt());
    let rdev = 0.5 * sp.width * smax_raw;
    let fine = rdev >= 5000.0 && rdev <= 1e6;
    let reg = if fine { with_arc_tolerance(0.05 / smax_raw, || stroke_region(lines, sp)) } else { stroke_region(lines, sp) };
    let reg = match reg {
        Some(r) => r,
        None => return Ok(Stat { hash: 0, inside: 0, outside: 0, undecided: true }),
    };
    let reg = reg.transform(&m);
    // polygonal approximation of round pieces: inscribed error r (1 - cos(pi / (2 * 48)))
    let arc_err = if fine { 0.06 } else { 0.5 * sp.width * smax * 6e-4 };
    let margin = mu + std::f64::consts::FRAC_1_SQRT_2 + arc_err + 1e-6;
    let qy = Query::new(&reg);
    let exposed = qy.exposed().to_vec();
    let mut st = Stat { hash: hash64(&got.to_vec()), inside: 0, outside: 0, undecided: false };
    for y in 0..h {
        for x in 0..w {
            let c = (x as f64 + 0.5, y as f64 + 0.5);
            let p = got[(y * w + x) as usize];
            if qy.in_inner(c) {
                if qy.deeper_than(c, margin) {
                    st.inside += 1;
                    if p != 0xffffffff {
                        if std::env::var("VERIF_DEBUG_REGION").is_ok() {
                            for (a, b) in exposed.iter() {
                                if crate::model::curve::dist_seg(c, *a, *b) < 3.0 {
                                    eprintln!("exposed ({:.3},{:.3})-({:.3},{:.3}) d={:.3}", a.0, a.1, b.0, b.1, crate::model::curve::dist_seg(c, *a, *b));
                                }
                            }
                            let dd = depth(&exposed, c);
                            let mut worst: Option<(f64, f64, f64)> = None;
                            for k in 0..20000 {
                                let a = k as f64 * 0.61803398875 * 6.283185307;
                                let r = dd * ((k % 200) as f64 / 200.0);
                                let q = (c.0 + r * a.cos(), c.1 + r * a.sin());
                                if !union_contains(&reg.inner, q) {
                                    if worst.map_or(true, |w| r < w.2) {
                                        worst = Some((q.0, q.1, r));
                                    }
                                }
                            }
                            eprintln!("brute-force: closest sampled point outside the union within the claimed depth {:.3}: {:?}", dd, worst);
                            for (i, poly) in reg.inner.iter().enumerate() {
                                if poly_contains(poly, c, 1e-9) {
                                    eprintln!("in piece {} ({} verts) first {:?}", i, poly.len(), &poly[..poly.len().min(4)]);
                                }
                            }
                        }
                        // is the pixel deep inside at least one single piece, or only inside the union of
                        // overlapping pieces (every containing piece has its own outline within the margin)?
                        let deep_in_one = reg.inner.iter().any(|poly| poly_contains(poly, c, 1e-9) && own_depth(poly, c) > margin);
                        // the listed finding is a partial undercoverage (two outlines, each positioned to
                        // 1/4-1/2 px, meeting inside the pixel): the pixel is still at least half covered;
                        // anything emptier is a missing piece
                        let fid = if deep_in_one || (p >> 24) < 0x80 { None } else { Some("overlapping_pieces_interior_undercovered") };
                        return Err(Violation::new(format!("{}/interior-pixel-not-fully-painted{}", what, if deep_in_one { "" } else { "/only-deep-in-union-of-overlapping-pieces" }), case.to_string(), format!("pixel ({},{}) lies inside the stroke region by {:.3} px (margin {:.3}) but is {:#010x}", x, y, depth(&exposed, c), margin, p)).finding(fid));
                    }
                }
            } else {
                if qy.farther_than(c, margin) {
                    st.outside += 1;
                    if p != 0 {
                        let d = dist_to_union(&reg.outer, c);
                        return Err(Violation::new(format!("{}/exterior-pixel-touched", what), case.to_string(), format!("pixel ({},{}) lies {:.3} px outside the stroke region (margin {:.3}) but is {:#010x}", x, y, d, margin, p)));
                    }
                }
            }
        }
    }
    Ok(st)
}

pub fn eval(path: &PathSpec, st: &StyleSpec, xf: &Xf) -> Result<Stat, Violation> {
    // under a magnification of 1000 or more the reference for round-joined curves is the true
    // curve: the flattening is asked to stay within 0.1 device pixel, so it may not be judged by
    // its own output where the user unit is thousands of pixels (with round joins the region of
    // the polyline and of the curve differ by no more than the flattening deviation)
    let curved = path.ops.iter().any(|o| matches!(o, POp::Q(..) | POp::C(..) | POp::A(..)));
    let mag = (xf[0] as f64 * xf[3] as f64 - xf[1] as f64 * xf[2] as f64).abs().sqrt();
    // round-joined curves whose control points are collinear (out-and-back curves) are judged
    // against the true curve as well: with round joins the turning point is a disc, whatever the
    // flattening does there
    let collinear = curved && has_collinear_curve(&path.build().ops);
    // ... and curves that follow a Close directly (where such a curve starts is the question there)
    let after_close = path.ops.windows(2).any(|w| matches!(w[0], POp::Z) && matches!(w[1], POp::Q(..) | POp::C(..)));
    eval_with(path, st, xf, curved && st.join == 1 && (mag >= 1000.0 || collinear || after_close))
}

/// `true_curve`: take the region of the true curve (finely sampled) instead of the region of
/// the polyline Path::flatten produces. The property defines the stroke of a curve on its
/// flattened polyline (joins at the flattening vertices included), so C04 itself uses the
/// library's polyline; C11 asks for the image of the user-space stroke and uses the true
/// curve with round joins (where the two differ by no more than the flattening deviation).
pub fn eval_with(path: &PathSpec, st: &StyleSpec, xf: &Xf, true_curve: bool) -> Result<Stat, Violation> {
    let scene = scene_of(path, st, xf);
    let case = scene.to_string();
    let got = super::common::render(&scene).map_err(|p| Violation::new("stroke/panic", case.clone(), p))?;
    let w = st.width;
    if !(w > 0.0) {
        // non-positive or NaN width paints nothing
        if got.iter().any(|p| *p != 0) {
            return Err(Violation::new("stroke/non-positive-width-painted", case, format!("width {} painted {} pixels", w, got.iter().filter(|p| **p != 0).count())));
        }
        return Ok(Stat { hash: hash64(&got), inside: 0, outside: (SURF * SURF) as u64, undecided: false });
    }
    let curved = path.ops.iter().any(|o| matches!(o, POp::Q(..) | POp::C(..) | POp::A(..)));
    let t = xf_to(xf);
    // the polyline the stroker works on: the flattened path (straight paths are unchanged)
    // every curve is replaced by a fine f64 sampling of the true curve (within 0.01 device
    // px), independent of Path::flatten
    // curves whose control polygon is collinear (out-and-back curves: the tangent reverses in a
    // cusp, where the join depends on rounding noise of the flattening) keep the library's own
    // polyline as the reference
    let built = path.build();
    let lines = if !true_curve || (has_collinear_curve(&built.ops) && st.join != 1) {
        let tol = 0.1 / t.determinant().abs().sqrt();
        polylines_of(&guard(|| built.flatten(tol)).map_err(|p| Violation::new("flatten/panic", case.clone(), p))?.ops)
    } else {
        polylines_of(&model_flatten(&built.ops, t.determinant().abs().sqrt() as f64))
    };
    let mu = if curved { 1.0 } else { 0.5 };
    let stat = check_region(&case, &got, SURF, SURF, &lines, &params(st), xf, mu, "stroke")?;
    // differential oracle for straight paths: stroke under T == fill of the transformed outline under I
    if !curved && st.dash.is_empty() {
        let r = guard(|| {
            let outline = stroke_to_path(&path.build(), &st.to()).transform(&t);
            let mut dt = DrawTarget::new(SURF, SURF);
            dt.fill(&outline, &Source::Solid(super::c01::WHITE), &DrawOptions::new());
            dt.into_vec()
        })
        .map_err(|p| Violation::new("stroke_to_path/panic", case.clone(), p))?;
        // the property does not promise bit-identical pixels here (only C11's fill clause does):
        // one coverage cell of difference per pixel is admitted
        if (0..r.len()).any(|i| super::common::chan_diff(r[i], got[i]) > 17) {
            let i = (0..r.len()).find(|&i| super::common::chan_diff(r[i], got[i]) > 17).unwrap();
            return Err(Violation::new("stroke/differs-from-fill-of-transformed-outline", case, format!("pixel ({},{}): stroke under the transform gives {:#010x}, NonZero fill of stroke_to_path(path).transform(T) under the identity gives {:#010x}", i as i32 % SURF, i as i32 / SURF, got[i], r[i])));
        }
    }
    Ok(stat)
}

/// C02's clause for curved strokes with a reference that is not the library's own flattening: every
/// pixel more than a pixel outside the stroke region of the *true* curve (round joins) keeps its
/// value. `scene` = [set_transform?, stroke(path, style, src, opts)].
pub fn curved_stroke_leaves_the_outside_alone(scene: &Scene) -> Result<Option<u64>, Violation> {
    let case = format!("curved | {}", scene);
    let mut xf = IDENT;
    let mut stroke = None;
    for op in &scene.ops {
        match op {
            Op::SetTransform(t) => xf = *t,
            Op::Stroke(p, st, _, _) => stroke = Some((p.clone(), st.clone())),
            _ => {}
        }
    }
    let (path, st) = stroke.ok_or_else(|| Violation::new("harness/no-stroke", case.clone(), String::new()))?;
    let got = super::common::render(scene).map_err(|p| Violation::new("stroke/panic", case.clone(), p))?;
    let before = scene.dst.pixels(scene.w, scene.h);
    let marks: Vec<u32> = got.iter().zip(before.iter()).map(|(g, b)| if g != b { 0xffffffff } else { 0 }).collect();
    let t = xf_to(&xf);
    let lines = polylines_of(&model_flatten(&path.build().ops, t.determinant().abs().sqrt() as f64));
    match check_region(&case, &marks, scene.w, scene.h, &lines, &params(&st), &xf, 1.0, "stroke") {
        Ok(_) => Ok(Some(hash64(&got))),
        Err(v) if v.sig.contains("exterior") => Err(v),
        Err(_) => Ok(None),
    }
}

fn grid4() -> Vec<(f32, f32)> {
    let mut v = Vec::new();
    for y in 0..4 {
        for x in 0..4 {
            v.push((6.0 + 8.0 * x as f32, 6.0 + 8.0 * y as f32));
        }
    }
    v
}

fn styles(q: bool) -> Vec<(u8, f32)> {
    // (join, miter limit)
    let mut v = vec![(1u8, 4.0f32), (2, 4.0), (0, 1.0), (0, 4.0)];
    if !q {
        v.extend([(0, 0.0), (0, 1.5), (0, 10.0)]);
    }
    v
}

fn xfs() -> Vec<Xf> {
    vec![IDENT, [0.8660254, 0.5, -0.5, 0.8660254, 11., -7.], [1., 0., 0., 1., 0.5, 0.25], [1.5, 0., 0., 1.5, -9., -9.], [2., 0., 0., 0.5, -18., 9.], [1., 0., 0.5, 1., -9., 0.], [-1., 0., 0., 1., 36., 0.]]
}

fn account(run: &Run, shard: usize, l: &mut Local, path: &PathSpec, st: &StyleSpec, xf: &Xf, sample: bool) {
    l.states += 1;
    l.transitions += 1;
    l.traces += 1;
    l.evals += 1;
    if sample {
        run.sample(scene_of(path, st, xf).to_string());
    }
    match eval(path, st, xf) {
        Ok(s) => {
            l.outcome(s.hash);
            l.count("pixels_asserted_inside", s.inside);
            l.count("pixels_asserted_outside", s.outside);
            if s.undecided {
                l.count("strokes_on_the_miter_limit_not_asserted", 1);
            }
            if s.inside > 0 {
                l.nontrivial += 1;
            }
        }
        Err(v) => run.report(shard, v),
    }
}

impl Check for C04 {
    fn id(&self) -> &'static str {
        "C04"
    }
    fn title(&self) -> &'static str {
        "Strokes cover exactly the offset region implied by width, joins and caps"
    }

    fn run(&self, run: &Run) {
        let q = run.tier.quick();
        run.rule("polylines with 2-4 vertices on a 4x4 user grid (every turning angle the grid offers, exact reversals included) x open (3 caps) / closed x widths x joins and miter limits x transforms, two-subpath paths, flattened curves, degenerate widths; every pixel entirely inside the analytic region by more than the margin must be fully painted, every pixel entirely outside by more than it untouched; straight strokes must also be bit-identical to the NonZero fill of the transformed stroke_to_path outline; non-trivial = at least one interior pixel asserted");
        run.assume("margin 0.5 px (1 px with curves) + sqrt(1/2) (pixel half diagonal) + polygonal approximation error of round pieces; strokes whose join sits within 1e-4 (relative) of the miter limit are not asserted");
        let g = grid4();
        let sty = styles(q);
        let widths: Vec<f32> = if q { vec![4.0, 8.0] } else { vec![1.0, 4.0, 8.0] };
        let tf = xfs();
        // 3-vertex polylines (and 2-, 4-vertex ones in the thorough tier)
        let nv_list: Vec<usize> = if q { vec![3] } else { vec![2, 3, 4] };
        for nv in nv_list {
            run.bound(&format!("{}-vertex polylines", nv), format!("vertex lists over 16 grid points with distinct consecutive vertices x (3 caps open + closed) x {} widths x {} join styles{}", widths.len(), sty.len(), if nv == 3 { format!(" x {} transforms", if q { 2 } else { tf.len() }) } else { String::new() }));
            run.par(g.len() * g.len(), |s, l| {
                let (i0, i1) = (s / g.len(), s % g.len());
                if i0 == i1 {
                    return;
                }
                let mut lists: Vec<Vec<usize>> = vec![vec![i0, i1]];
                for _ in 2..nv {
                    let mut next = Vec::new();
                    for li in &lists {
                        for k in 0..g.len() {
                            if k != *li.last().unwrap() {
                                let mut n2 = li.clone();
                                n2.push(k);
                                next.push(n2);
                            }
                        }
                    }
                    lists = next;
                }
                for li in lists {
                    // 4-vertex lists: every third list only in combination with all styles would be too slow; use a reduced style set
                    let pts: Vec<(f32, f32)> = li.iter().map(|&k| g[k]).collect();
                    for variant in 0..4 {
                        // 0..2: open with cap = variant; 3: closed
                        if variant == 3 && nv < 3 {
                            continue;
                        }
                        let mut ops: Vec<POp> = pts.iter().enumerate().map(|(j, p)| if j == 0 { POp::M(p.0, p.1) } else { POp::L(p.0, p.1) }).collect();
                        if variant == 3 {
                            ops.push(POp::Z);
                        }
                        let path = PathSpec::new(ops);
                        for &w in &widths {
                            for &(join, miter) in &sty {
                                if nv == 4 && !(w == 4.0 && (join != 0 || miter == 4.0)) {
                                    continue;
                                }
                                let st = StyleSpec { width: w, cap: if variant < 3 { variant as u8 } else { 0 }, join, miter, dash: vec![], offset: 0. };
                                let ntf = if nv == 3 { if q { 2 } else { tf.len() } } else { 1 };
                                for (ti, xf) in tf.iter().enumerate().take(ntf) {
                                    if ti > 0 && !(w == 4.0) {
                                        continue;
                                    }
                                    account(run, s, l, &path, &st, xf, s == 1 * 16 + 6 && variant == 1 && w == 4.0 && join == 0 && miter == 4.0 && ti == 1 && li.len() == 3 && li[2] == 9);
                                }
                            }
                        }
                    }
                    if run.expired() {
                        return;
                    }
                }
            });
        }
        // two subpaths (open + closed) on a 3x3 sub-grid
        let g3: Vec<(f32, f32)> = vec![(6., 6.), (18., 6.), (30., 6.), (6., 18.), (18., 18.), (30., 18.), (6., 30.), (18., 30.), (30., 30.)];
        run.bound("two subpaths", "open 2-segment subpath + closed triangle over a 3x3 grid (9^2 x 84 combinations, stride sampled exhaustively by index) x 3 caps x 3 joins".to_string());
        run.par(g3.len() * g3.len(), |s, l| {
            let (a, b) = (g3[s / g3.len()], g3[s % g3.len()]);
            if a == b {
                return;
            }
            for c in 0..g3.len() {
                for d in 0..g3.len() {
                    for e in 0..g3.len() {
                        if g3[c] == b || d == e || (!q && false) {
                            continue;
                        }
                        if q && (c + d + e) % 3 != 0 {
                            continue;
                        }
                        let f = g3[(d + e + 1) % g3.len()];
                        if f == g3[e] || f == g3[d] {
                            continue;
                        }
                        let ops = vec![POp::M(a.0, a.1), POp::L(b.0, b.1), POp::L(g3[c].0, g3[c].1), POp::M(g3[d].0, g3[d].1), POp::L(g3[e].0, g3[e].1), POp::L(f.0, f.1), POp::Z];
                        let path = PathSpec::new(ops);
                        for cap in 0..3u8 {
                            let join = cap;
                            // width 8: the caps are deep enough for interior pixels beyond the margin
                            for width in [4.0f32, 8.0] {
                                let st = StyleSpec { width, cap, join, miter: 4.0, dash: vec![], offset: 0. };
                                account(run, 5000 + s, l, &path, &st, &IDENT, false);
                            }
                        }
                        // the open subpath last, and two open subpaths
                        let ops2 = vec![POp::M(g3[d].0, g3[d].1), POp::L(g3[e].0, g3[e].1), POp::L(f.0, f.1), POp::Z, POp::M(a.0, a.1), POp::L(b.0, b.1), POp::L(g3[c].0, g3[c].1)];
                        let ops3 = vec![POp::M(a.0, a.1), POp::L(b.0, b.1), POp::M(g3[d].0, g3[d].1), POp::L(g3[e].0, g3[e].1), POp::L(f.0, f.1)];
                        for ops in [ops2, ops3] {
                            for cap in 1..3u8 {
                                let st = StyleSpec { width: 8.0, cap, join: 1, miter: 4.0, dash: vec![], offset: 0. };
                                account(run, 5000 + s, l, &PathSpec::new(ops.clone()), &st, &IDENT, false);
                            }
                        }
                    }
                }
            }
        });
        // flattened curves
        let cp: Vec<(f32, f32)> = vec![(4., 5.), (17., 3.), (31., 8.), (6., 19.), (18., 17.), (30., 21.), (5., 31.), (19., 29.), (32., 30.)];
        run.bound("curves", format!("quads 9^3 and cubics 9^4 (thorough) with control points on a 3x3 set, width 4, round and miter joins, butt and round caps; round-joined quads and cubics in user units of 4096 and 16384 pixels judged against the true curve{}", if q { "; quick: quads only" } else { "" }));
        run.par(cp.len() * cp.len(), |s, l| {
            let (a, b) = (cp[s / cp.len()], cp[s % cp.len()]);
            if a == b {
                return;
            }
            for c in &cp {
                for (cap, join) in [(0u8, 1u8), (1, 0)] {
                    let st = StyleSpec { width: 4.0, cap, join, miter: 4.0, dash: vec![], offset: 0. };
                    let path = PathSpec::new(vec![POp::M(a.0, a.1), POp::Q(b.0, b.1, c.0, c.1)]);
                    account(run, 7000 + s, l, &path, &st, &IDENT, s == 12 && c.0 == 30. && cap == 0);
                    // rotations near and at a quarter turn, an axis swap, a shear, anisotropic scale
                    for xf in [[0.0f32, 1., -1., 0., 36., 0.], [0.0348995, 0.99939084, -0.99939084, 0.0348995, 35., 0.], [0., 1., 1., 0., 0., 0.], [1., 0., 0.8, 1., -12., 0.], [0.5, 0., 0., 2., 9., -18.]] {
                        if q && (s + cap as usize) % 2 == 1 {
                            continue;
                        }
                        let path = PathSpec::new(vec![POp::M(a.0, a.1), POp::Q(b.0, b.1, c.0, c.1)]);
                        account(run, 7000 + s, l, &path, &st, &xf, false);
                    }
                    // the same device geometry from user units k times larger under scale 1/k (width scaled too)
                    for k in [50.0f32, 0.02] {
                        if q && (s + cap as usize) % 2 == 0 {
                            continue;
                        }
                        let xf: Xf = [1.0 / k, 0., 0., 1.0 / k, 0., 0.];
                        let path = PathSpec::new(vec![POp::M(a.0 * k, a.1 * k), POp::Q(b.0 * k, b.1 * k, c.0 * k, c.1 * k)]);
                        let stk = StyleSpec { width: 4.0 * k, ..st.clone() };
                        account(run, 7000 + s, l, &path, &stk, &xf, false);
                    }
                    // user units of 4096 / 16384 pixels (round joins: judged against the true curve)
                    if join == 1 {
                        for k in [1.0f32 / 4096.0, 1.0 / 16384.0] {
                            if q && (s + if k < 1e-4 { 1 } else { 0 }) % 2 == 1 {
                                continue;
                            }
                            let xf: Xf = [1.0 / k, 0., 0., 1.0 / k, 0., 0.];
                            let path = PathSpec::new(vec![POp::M(a.0 * k, a.1 * k), POp::Q(b.0 * k, b.1 * k, c.0 * k, c.1 * k)]);
                            let stk = StyleSpec { width: 4.0 * k, ..st.clone() };
                            account(run, 7000 + s, l, &path, &stk, &xf, false);
                            let path = PathSpec::new(vec![POp::M(a.0 * k, a.1 * k), POp::C(b.0 * k, b.1 * k, c.0 * k, c.1 * k, a.1 * k, b.0 * k)]);
                            account(run, 7000 + s, l, &path, &stk, &xf, false);
                        }
                    }
                    // a curve directly after Close starts at the subpath's first point (round joins: against
                    // the true curve under the magnification rule, else against the flattened polyline)
                    if join == 1 && (s + cap as usize) % 3 == 0 {
                        let path = PathSpec::new(vec![POp::M(a.0, a.1), POp::L(b.0, b.1), POp::L(18., 17.), POp::Z, POp::Q(c.0, c.1, 30., 21.)]);
                        account(run, 7000 + s, l, &path, &st, &IDENT, false);
                        let path = PathSpec::new(vec![POp::M(a.0, a.1), POp::L(b.0, b.1), POp::L(18., 17.), POp::Z, POp::C(c.0, c.1, 6., 19., 30., 21.)]);
                        account(run, 7000 + s, l, &path, &st, &[1., 0., 0., 1., 0.5, 0.25], false);
                    }
                    if !q {
                        for d in &cp {
                            let path = PathSpec::new(vec![POp::M(a.0, a.1), POp::C(b.0, b.1, c.0, c.1, d.0, d.1)]);
                            account(run, 7000 + s, l, &path, &st, &IDENT, false);
                        }
                        let path = PathSpec::new(vec![POp::M(a.0, a.1), POp::Q(b.0, b.1, c.0, c.1), POp::Z]);
                        account(run, 7000 + s, l, &path, &st, &[0.8660254, 0.5, -0.5, 0.8660254, 11., -7.], false);
                    }
                }
            }
        });
        // the stroked region does not depend on the path's own fill rule, nor on the size of the
        // user unit: the same device geometry from a path 10^5 times smaller under scale 10^5
        // (every user-space segment is shorter than 2^-12), and 10^3 times larger under 10^-3
        run.bound("fill-rule flag and extreme user units", "3-vertex polylines over the 16 grid points x (round cap, square cap, closed) x (round, miter 4) x width 8: path flagged EvenOdd; path / 1e5 under scale 1e5; path x 1e3 under scale 1e-3; path x 2^60 under scale 2^-60 and path x 2^-40 under scale 2^40; path moved by (16384, 20000) and (-30000, 9000) under the opposite translation".to_string());
        run.par(g.len() * g.len(), |s, l| {
            let (i0, i1) = (s / g.len(), s % g.len());
            if i0 == i1 {
                return;
            }
            for i2 in 0..g.len() {
                if i2 == i1 || (q && (i0 + i1 + i2) % 3 != 0) {
                    continue;
                }
                let pts = [g[i0], g[i1], g[i2]];
                for variant in [1u8, 2, 3] {
                    for (join, miter) in [(0u8, 4.0f32), (2, 4.0)] {
                        let cap = if variant < 3 { variant } else { 0 };
                        let mk = |k: f32, eo: bool| {
                            let mut ops: Vec<POp> = pts.iter().enumerate().map(|(j, p)| if j == 0 { POp::M(p.0 * k, p.1 * k) } else { POp::L(p.0 * k, p.1 * k) }).collect();
                            if variant == 3 {
                                ops.push(POp::Z);
                            }
                            PathSpec { evenodd: eo, ops }
                        };
                        let st = StyleSpec { width: 8.0, cap, join, miter, dash: vec![], offset: 0. };
                        account(run, 9000 + s, l, &mk(1.0, true), &st, &IDENT, false);
                        // (2^60 and 2^-40: squares of the user-space lengths leave the f32 range long before
                        // the lengths do)
                        for k in [1e-5f32, 1e3, 1152921504606846976.0, 9.094947e-13] {
                            let stk = StyleSpec { width: 8.0 * k, ..st.clone() };
                            account(run, 9000 + s, l, &mk(k, false), &stk, &[1.0 / k, 0., 0., 1.0 / k, 0., 0.], false);
                        }
                        // the same polyline far from the user-space origin, brought back by a translation
                        for (ox, oy) in [(16384.0f32, 20000.0f32), (-30000.0, 9000.0)] {
                            let mut ops: Vec<POp> = pts.iter().enumerate().map(|(j, p)| if j == 0 { POp::M(p.0 + ox, p.1 + oy) } else { POp::L(p.0 + ox, p.1 + oy) }).collect();
                            if variant == 3 {
                                ops.push(POp::Z);
                            }
                            account(run, 9000 + s, l, &PathSpec::new(ops), &st, &[1., 0., 0., 1., -ox, -oy], false);
                        }
                    }
                }
            }
        });
        // every vertex off the surface by more than half the width, while a miter tip, a square
        // cap corner or a round join still reaches in (a quick reject that underestimates the
        // stroke's extent shows)
        run.bound("vertices off the surface", "3-vertex polylines over the 16 grid points translated so that every vertex lies 4.5-5 px or more outside the 36x36 surface (4 sides and a corner) x (square cap, miter limit 10) / (round cap, round join) x width 8".to_string());
        run.par(g.len() * g.len(), |s, l| {
            let (i0, i1) = (s / g.len(), s % g.len());
            if i0 == i1 {
                return;
            }
            for i2 in 0..g.len() {
                if i2 == i1 {
                    continue;
                }
                let pts = [g[i0], g[i1], g[i2]];
                let (minx, maxx) = (pts.iter().map(|p| p.0).fold(f32::MAX, f32::min), pts.iter().map(|p| p.0).fold(f32::MIN, f32::max));
                let (miny, maxy) = (pts.iter().map(|p| p.1).fold(f32::MAX, f32::min), pts.iter().map(|p| p.1).fold(f32::MIN, f32::max));
                let path = PathSpec::new(vec![POp::M(pts[0].0, pts[0].1), POp::L(pts[1].0, pts[1].1), POp::L(pts[2].0, pts[2].1)]);
                // translations that put the nearest vertex 4.75 px outside each side
                let shifts = [(0.0, -maxy - 4.75), (0.0, 36.0 + 4.75 - miny), (-maxx - 4.75, 0.0), (36.0 + 4.75 - minx, 0.0), (-maxx - 4.75, -maxy - 4.75)];
                for (k, (tx, ty)) in shifts.iter().enumerate() {
                    if q && (i0 + i2 + k) % 2 == 1 {
                        continue;
                    }
                    for (cap, join, miter) in [(2u8, 0u8, 10.0f32), (1, 1, 4.0)] {
                        let st = StyleSpec { width: 8.0, cap, join, miter, dash: vec![], offset: 0. };
                        account(run, 9700 + s, l, &path, &st, &[1., 0., 0., 1., *tx, *ty], false);
                    }
                }
            }
        });
        // hundreds of overlapping pieces over one spot (winding numbers beyond 8-bit counters)
        // curves whose control points lie on the line through their end points, beyond them: the curve
        // runs out past an end point and comes back (round joins; butt, round and square caps)
        {
            let dirs = [(1.0f32, 0.0f32), (0.0, 1.0), (0.8, 0.6), (-0.6, 0.8)];
            run.bound("out-and-back curves", format!("quads and cubics with collinear control points beyond an end point, {} directions x 3 caps x widths 3 / 6, round joins, judged against the true curve", dirs.len()));
            run.par(dirs.len() * 3, |s, l| {
                let d = dirs[s / 3];
                let cap = (s % 3) as u8;
                let at = |t: f32| (18.0 + d.0 * t, 18.0 + d.1 * t);
                for wd in [3.0f32, 6.0] {
                    let st = StyleSpec { width: wd, cap, join: 1, miter: 4.0, dash: vec![], offset: 0. };
                    let (a, b, c, e) = (at(-12.0), at(22.0), at(4.0), at(-20.0));
                    let paths = vec![
                        PathSpec::new(vec![POp::M(a.0, a.1), POp::Q(b.0, b.1, c.0, c.1)]),
                        PathSpec::new(vec![POp::M(a.0, a.1), POp::Q(e.0, e.1, c.0, c.1)]),
                        PathSpec::new(vec![POp::M(a.0, a.1), POp::C(b.0, b.1, e.0, e.1, c.0, c.1)]),
                        PathSpec::new(vec![POp::M(a.0, a.1), POp::C(b.0, b.1, b.0, b.1, c.0, c.1), POp::L(c.0 + d.1 * 8.0, c.1 - d.0 * 8.0)]),
                    ];
                    for p in &paths {
                        account(run, 12_000 + s, l, p, &st, &IDENT, false);
                    }
                }
            });
        }
        // needle-sharp hairpins with a miter limit that still admits the miter: the band continues
        // beyond the vertex (the surface looks at the stretch just behind it)
        {
            let gaps = [0.2f32, 0.6, 2.0];
            run.bound("hairpins under huge miter limits", format!("two 300-unit arms {:?} units apart at their far ends, pen 10 / 4, miter limits 4000 / 1000 / 100 (admitting the miter or not), both orders, identity and scale 0.1", gaps));
            run.par(gaps.len() * 3, |s, l| {
                let g = gaps[s / 3];
                let limit = [4000.0f32, 1000.0, 100.0][s % 3];
                for wd in [10.0f32, 4.0] {
                    for rev in [false, true] {
                        for k in [1.0f32, 10.0] {
                            let mut pts = vec![(-300.0 * k, 0.5 * g * k), (0.0, 0.0), (-300.0 * k, -0.5 * g * k)];
                            if rev {
                                pts.reverse();
                            }
                            let path = PathSpec::new(pts.iter().enumerate().map(|(i, p)| if i == 0 { POp::M(p.0, p.1) } else { POp::L(p.0, p.1) }).collect());
                            let st = StyleSpec { width: wd * k, cap: 0, join: 0, miter: limit, dash: vec![], offset: 0. };
                            // the vertex maps to (6, 18): the surface shows 30 px behind it
                            account(run, 13_000 + s, l, &path, &st, &[1.0 / k, 0., 0., 1.0 / k, 6., 18.], false);
                        }
                    }
                }
            });
        }
        // very wide pens at nearly straight vertices: the join wedge on the outer side is a few
        // pixels wide only far from the vertex (half the width away); the surface looks at that spot
        {
            let angles = [0.5f32, 1.0, 1.5, 1.8, 3.0, 6.0];
            let widths = [300.0f32, 600.0];
            run.bound("wide pens at nearly straight vertices", format!("turns of {:?} degrees (both senses) x widths {:?} x 3 joins, open and with the turn at the closing vertex of a closed subpath; the 36x36 surface is placed on the outer side of the vertex, half a width away", angles, widths));
            run.par(angles.len() * widths.len() * 2, |s, l| {
                let th = angles[s / (widths.len() * 2)].to_radians() * if s % 2 == 0 { 1.0 } else { -1.0 };
                let wd = widths[(s / 2) % widths.len()];
                let b = (400.0 * th.cos(), 400.0 * th.sin());
                // outer side: away from the turn
                let side = if th > 0.0 { -1.0 } else { 1.0 };
                let spot = (0.5 * wd * (th * 0.5).sin() * -side, side * 0.5 * wd);
                let xf: Xf = [1., 0., 0., 1., 18.0 - spot.0, 18.0 - spot.1];
                for (join, miter) in [(1u8, 4.0f32), (2, 4.0), (0, 4.0)] {
                    let st = StyleSpec { width: wd, cap: 0, join, miter, dash: vec![], offset: 0. };
                    let open = PathSpec::new(vec![POp::M(-400., 0.), POp::L(0., 0.), POp::L(b.0, b.1)]);
                    account(run, 11_000 + s, l, &open, &st, &xf, false);
                    let closed = PathSpec::new(vec![POp::M(0., 0.), POp::L(b.0, b.1), POp::L(0., side * -2000.), POp::L(-400., 0.), POp::Z]);
                    account(run, 11_000 + s, l, &closed, &st, &xf, false);
                }
            });
        }
        // round joins under pens of 20 000 px: the sector's rim is a circle of radius 10 000 and the
        // surface looks at it at several places (turns of at most 90 degrees, butt caps: the library
        // draws such a join from arcs of at most 45 degrees, whose cubic approximation is 0.04 px off
        // at this radius)
        {
            let turns = [90.0f32, 85.0];
            let fracs = [0.1f32, 0.2, 0.3, 0.5, 0.7, 0.8, 0.9];
            run.bound("round joins under a 20000 px pen", format!("turns of {:?} degrees (both senses) with arms of 15000, round join, butt caps; the 36x36 surface centred on the rim at {:?} of the sector", turns, fracs));
            run.par(turns.len() * 2 * fracs.len(), |s, l| {
                let th = turns[s / (2 * fracs.len())].to_radians() * if (s / fracs.len()) % 2 == 0 { 1.0 } else { -1.0 };
                let f = fracs[s % fracs.len()];
                let r = 10000.0f32;
                let b = ((15000.0 * th.cos()).round(), (15000.0 * th.sin()).round());
                // outer side of a turn towards +y is -y; rim point at the fraction f of the sector
                let sg = if th > 0.0 { 1.0 } else { -1.0 };
                let phi = f * th.abs();
                let rim = ((r * phi.sin()).round(), (-sg * r * phi.cos()).round());
                let xf: Xf = [1., 0., 0., 1., 18.0 - rim.0, 18.0 - rim.1];
                let st = StyleSpec { width: 2.0 * r, cap: 0, join: 1, miter: 4.0, dash: vec![], offset: 0. };
                let open = PathSpec::new(vec![POp::M(-15000., 0.), POp::L(0., 0.), POp::L(b.0, b.1)]);
                account(run, 11_500 + s, l, &open, &st, &xf, false);
            });
        }
        run.bound("scribbles", "one segment retraced 130 / 260 times and a triangle outline repeated 130 times in one subpath x 2 joins, width 4".to_string());
        run.par(6, |s, l| {
            let join = [1u8, 0][s % 2];
            let mut ops = vec![POp::M(8.0, 9.0)];
            match s / 2 {
                0 | 1 => {
                    let n = if s / 2 == 0 { 130 } else { 260 };
                    for i in 0..n {
                        ops.push(if i % 2 == 0 { POp::L(28.0, 24.0) } else { POp::L(8.0, 9.0) });
                    }
                }
                _ => {
                    for _ in 0..130 {
                        ops.extend([POp::L(28.0, 12.0), POp::L(16.0, 29.0), POp::L(8.0, 9.0)]);
                    }
                }
            }
            let st = StyleSpec { width: 4.0, cap: 1, join, miter: 4.0, dash: vec![], offset: 0. };
            account(run, 9800 + s, l, &PathSpec::new(ops), &st, &IDENT, false);
        });
        // strongly anisotropic transforms: the device thickness of a stroke depends on its direction
        // (a horizontal rule under scale(0.002, 100) is 100 x width thick), nothing may be judged by
        // sqrt|det|
        run.bound("anisotropic transforms", "3-vertex polylines over the 16 grid points given in user units of scale(0.002, 100) and scale(250, 0.01), width 0.05 / 20 user units, round and miter joins".to_string());
        run.par(g.len() * g.len(), |s, l| {
            let (i0, i1) = (s / g.len(), s % g.len());
            if i0 == i1 {
                return;
            }
            for i2 in 0..g.len() {
                if i2 == i1 || (q && (i0 + i1 + i2) % 3 != 0) {
                    continue;
                }
                for (sx, sy, wd) in [(0.002f32, 100.0f32, 0.05f32), (250.0, 0.01, 20.0)] {
                    let pts = [g[i0], g[i1], g[i2]];
                    let ops: Vec<POp> = pts.iter().enumerate().map(|(j, p)| if j == 0 { POp::M(p.0 / sx, p.1 / sy) } else { POp::L(p.0 / sx, p.1 / sy) }).collect();
                    for (cap, join) in [(0u8, 1u8), (1, 0)] {
                        let st = StyleSpec { width: wd, cap, join, miter: 4.0, dash: vec![], offset: 0. };
                        account(run, 9900 + s, l, &PathSpec::new(ops.clone()), &st, &[sx, 0., 0., sy, 0., 0.], false);
                    }
                }
            }
        });
        // many subpaths in one path
        run.bound("many subpaths", "100 and 300 short open / closed subpaths tiled over 36x36 in one path x 3 caps x 2 joins".to_string());
        run.par(2 * 3 * 2, |s, l| {
            let n = [100usize, 300][s / 6];
            let cap = ((s / 2) % 3) as u8;
            let join = [1u8, 0][s % 2];
            let mut ops = Vec::new();
            for i in 0..n {
                let (cx, cy) = (2.0 + (i % 10) as f32 * 3.4, 2.0 + ((i / 10) % 10) as f32 * 3.4 + (i / 100) as f32 * 0.9);
                ops.push(POp::M(cx, cy));
                ops.push(POp::L(cx + 2.0, cy + 0.5));
                ops.push(POp::L(cx + 0.5, cy + 1.5));
                if i % 2 == 0 {
                    ops.push(POp::Z);
                }
            }
            let st = StyleSpec { width: 0.6, cap, join, miter: 4.0, dash: vec![], offset: 0. };
            account(run, 9500 + s, l, &PathSpec::new(ops), &st, &IDENT, false);
        });
        // degenerate widths paint nothing
        run.bound("degenerate widths", "widths 0, -0, -1, -MIN_POSITIVE, NaN, -inf x 16^2 segments x 3 caps".to_string());
        run.par(g.len(), |s, l| {
            for b in &g {
                for w in [0.0f32, -0.0, -1.0, -f32::MIN_POSITIVE, f32::NAN, f32::NEG_INFINITY] {
                    for cap in 0..3u8 {
                        let path = PathSpec::new(vec![POp::M(g[s].0, g[s].1), POp::L(b.0, b.1), POp::L(18., 20.)]);
                        let st = StyleSpec { width: w, cap, join: 1, miter: 4.0, dash: vec![], offset: 0. };
                        account(run, 9000 + s, l, &path, &st, &IDENT, false);
                    }
                }
            }
        });
    }

    fn replay(&self, case: &str) -> Result<Option<Violation>, String> {
        let scene = parse_scene(case)?;
        let mut xf = IDENT;
        for op in &scene.ops {
            match op {
                Op::SetTransform(t) => xf = *t,
                Op::Stroke(p, st, _, _) => return Ok(eval(p, st, &xf).err()),
                _ => {}
            }
        }
        Err("no stroke in scene".into())
    }
}
