//! C13 Image sources show the texel under the pixel centre (pad/repeat, filter, alpha).

use super::c03::image_of;
use super::common::*;
use crate::engine::*;
use crate::model::img::*;
use crate::model::pix::alpha_byte;
use crate::model::step::ref_cov_path;
use crate::scene::*;
use raqote::BlendMode;

pub struct C13;

/// check one scene whose single drawing op uses an image source with Src blending
pub fn eval(scene: &Scene) -> Result<(u64, u64, bool), Violation> {
    let case = scene.to_string();
    // find the transform in force and the draw
    let mut ctm = IDENT;
    let mut draw = None;
    for op in &scene.ops {
        match op {
            Op::SetTransform(t) => ctm = *t,
            o if o.is_draw() => draw = Some(o.clone()),
            _ => {}
        }
    }
    let draw = draw.ok_or_else(|| Violation::new("harness/no-draw", case.clone(), "scene has no drawing op".to_string()))?;
    let (w, h) = (scene.w, scene.h);
    // image parameters + coverage of the shape
    let (iw, ih, data, repeat, bilinear, sxf, alpha, cov) = match &draw {
        Op::Fill(p, SrcSpec::Image { w: iw, h: ih, data, repeat, bilinear, xf }, o) => (*iw, *ih, data.clone(), *repeat, *bilinear, *xf, o.alpha, cov_dev(w, h, &ctm, p, o.aa)),
        Op::FillRect(x, y, rw, rh, SrcSpec::Image { w: iw, h: ih, data, repeat, bilinear, xf }, o) => (*iw, *ih, data.clone(), *repeat, *bilinear, *xf, o.alpha, cov_dev(w, h, &ctm, &PathSpec::rect(*x, *y, *rw, *rh), o.aa)),
        Op::DrawImageAt(x, y, iw, ih, data, o) => (*iw, *ih, data.clone(), false, true, [1., 0., 0., 1., -*x, -*y], o.alpha, cov_dev(w, h, &ctm, &PathSpec::rect(*x, *y, *iw as f32, *ih as f32), o.aa)),
        Op::DrawImageSize(sw, sh, x, y, iw, ih, data, o) => {
            let t = raqote::Transform::translation(-*x, -*y).then_scale(*iw as f32 / *sw, *ih as f32 / *sh);
            (*iw, *ih, data.clone(), false, true, xf_from(&t), o.alpha, cov_dev(w, h, &ctm, &PathSpec::rect(*x, *y, *sw, *sh), o.aa))
        }
        // mask(): the coverage is the mask's bytes in device space, the source is positioned through
        // the current transform like everywhere else
        Op::Mask(mx, my, mw, mh, bytes, SrcSpec::Image { w: iw, h: ih, data, repeat, bilinear, xf }) => {
            let mut cov = vec![0u8; (w * h).max(0) as usize];
            for y in 0..h {
                for x in 0..w {
                    let (ix, iy) = (x - mx, y - my);
                    if ix >= 0 && ix < *mw && iy >= 0 && iy < *mh {
                        cov[(y * w + x) as usize] = bytes[(iy * mw + ix) as usize];
                    }
                }
            }
            (*iw, *ih, data.clone(), *repeat, *bilinear, *xf, 1.0, Ok(cov))
        }
        _ => return Err(Violation::new("harness/unsupported-draw", case, "".to_string())),
    };
    let mut cov = cov.map_err(|p| Violation::new("reference/panic", case.clone(), p))?;
    // the clip rectangles and layer bounds in force at the draw limit where it can show
    let at = scene.ops.iter().rposition(|o| o.is_draw()).unwrap_or(0);
    let rr = reach_rect(&scene.ops, at, w, h);
    for i in 0..(w * h) {
        if !(i % w >= rr[0] && i % w < rr[2] && i / w >= rr[1] && i / w < rr[3]) {
            cov[i as usize] = 0;
        }
    }
    let model = match ImgModel::new(iw, ih, &data, repeat, bilinear, &ctm, &sxf, alpha_byte(alpha)) {
        Some(m) => m,
        None => return Ok((0, 0, false)),
    };
    let got = render(scene).map_err(|p| Violation::new(format!("{}/panic", draw.kind()), case.clone(), p))?;
    let before = scene.dst.pixels(w, h);
    let mut checked = 0u64;
    let mut interp = false;
    for y in 0..h {
        for x in 0..w {
            let i = (y * w + x) as usize;
            if cov[i] == 0 {
                if got[i] != before[i] {
                    return Err(Violation::new(format!("{}/uncovered-pixel-changed", draw.kind()), case, format!("pixel ({},{}) outside the shape changed {:#010x} -> {:#010x}", x, y, before[i], got[i])));
                }
                continue;
            }
            if cov[i] != 255 {
                continue;
            }
            let adm = model.admissible(x, y);
            checked += 1;
            if !model.integer && bilinear {
                interp = true;
            }
            if !adm.contains(&got[i]) {
                let (px, py) = mat_apply(&model.m, x as f64 + 0.5, y as f64 + 0.5);
                return Err(Violation::new(
                    format!("{}/{}-{}-{}", draw.kind(), if model.integer { "integer-translation" } else if bilinear { "bilinear" } else { "nearest" }, if repeat { "repeat" } else { "pad" }, if alpha_byte(alpha) == 255 { "opaque" } else { "alpha" }),
                    case,
                    format!("pixel ({},{}): image-space position of its centre ({:.5},{:.5}); observed {:#010x}, admissible {}", x, y, px, py, got[i], adm.iter().map(|a| format!("{:#010x}", a)).collect::<Vec<_>>().join(" / ")),
                ));
            }
        }
    }
    Ok((hash64(&got), checked, interp))
}

/// shape coverage from the path mapped to device space first and filled under the identity (the
/// image of the user-space shape; independent of how a draw call treats the current transform)
fn cov_dev(w: i32, h: i32, ctm: &Xf, p: &PathSpec, aa: bool) -> Result<Vec<u8>, String> {
    let pre = guard(|| super::c11::spec_from_path(&p.build().transform(&xf_to(ctm))))?;
    ref_cov_path(w, h, &IDENT, &pre, aa)
}

fn ctms() -> Vec<Xf> {
    vec![IDENT, [1., 0., 0., 1., 2., 1.], [1., 0., 0., 1., 0.5, 0.25], [2., 0., 0., 2., 0., 0.], [2., 0., 0., 0.5, 1., 0.], [0., 1., -1., 0., 5., 0.], [0.8660254, 0.5, -0.5, 0.8660254, 1., -1.], [1., 0., 0.5, 1., 0., 0.], [-1., 0., 0., 1., 6., 0.], [1., 0.5, 0., 1., 0., 0.]]
}

fn src_xfs(q: bool) -> Vec<Xf> {
    let mut v = vec![IDENT];
    let r = if q { 2 } else { 4 };
    for ty in -r..=r {
        for tx in -r..=r {
            if tx != 0 || ty != 0 {
                v.push([1., 0., 0., 1., tx as f32, ty as f32]);
            }
        }
    }
    for fy in 0..4 {
        for fx in 0..4 {
            if fx != 0 || fy != 0 {
                v.push([1., 0., 0., 1., -1.0 + fx as f32 * 0.25, 0.5 + fy as f32 * 0.25 - 1.0]);
            }
        }
    }
    v.push([0.5, 0., 0., 0.5, 0., 0.]);
    v.push([2., 0., 0., 2., -1., 0.5]);
    v.push([3., 0., 0., 1., 0., 0.]);
    v.push([0., 1., -1., 0., 3., 0.]);
    v.push([0.8660254, 0.5, -0.5, 0.8660254, 0.3, 0.7]);
    v.push([1., 0., 0., 1., 0.5, 0.5]);
    v.push([0.3, 0., 0., 0.3, 0.1, 0.2]);
    // one-sided skews, each way round
    v.push([1., 0.5, 0., 1., 0., 0.]);
    v.push([1., 0., 0.5, 1., 0., 0.]);
    v.push([1., -0.25, 0., 1., 0.5, 0.25]);
    v
}

impl Check for C13 {
    fn id(&self) -> &'static str {
        "C13"
    }
    fn title(&self) -> &'static str {
        "Image sources show the texel under the pixel centre (pad/repeat, filter, alpha)"
    }

    fn run(&self, run: &Run) {
        let deep = !run.tier.quick();
        let q = false;
        run.rule("images with all-distinct texels x extend x filter x alpha x CTM x source transform are drawn with Src over the whole surface; every fully covered pixel must equal the reference sampler (M-IMG) evaluated at the image-space position of the pixel centre, admitting the neighbouring texel / 1/16 weight step within the fixed-point slack; draw_image_at / draw_image_with_size_at at integer and fractional positions and sizes; non-trivial = scene exercises bilinear interpolation");
        run.assume("coordinate slack (|x|+|y|+2) * 1.5 * 2^-16 * (1 + |M|) + 2e-6 * (1 + |p|) * (1 + |M|) for the 16.16 conversion of the matrix coefficients and the f32 matrix products; the 4-bit bilinear formula with truncating shifts is taken as the property's definition");
        let imgs: Vec<(i32, i32)> = if q { vec![(1, 1), (3, 2), (2, 3)] } else { vec![(1, 1), (2, 2), (3, 2), (2, 3), (4, 1)] };
        let surfaces: Vec<(i32, i32)> = if q { vec![(6, 5)] } else { vec![(6, 5), (9, 7)] };
        let mut ctm = ctms();
        let mut sx = src_xfs(q);
        let mut imgs = imgs;
        if deep {
            ctm.extend([[1.5, 0., 0., 1.5, -1., -1.], [0.5, 0., 0., 0.25, 0.5, 0.5], [0.9396926, -0.34202015, 0.34202015, 0.9396926, 2., 1.]]);
            for ty in -7..=7 {
                for tx in -7..=7 {
                    if tx == -7 || tx == 7 || ty == -7 || ty == 7 || tx == 5 || ty == -6 {
                        sx.push([1., 0., 0., 1., tx as f32, ty as f32]);
                    }
                }
            }
            for k in 0..8 {
                sx.push([1., 0., 0., 1., 0.125 + k as f32 * 0.125, -0.0625 * k as f32]);
            }
            sx.extend([[1.25, 0., 0., 0.8, 0.1, 0.1], [0., -1., 1., 0., 0., 4.], [-1., 0., 0., -1., 5., 4.], [0.7071068, 0.7071068, -0.7071068, 0.7071068, 1., 1.], [4., 0., 0., 4., 0., 0.], [0.125, 0., 0., 0.125, 0., 0.]]);
            imgs.extend([(3, 3), (5, 2), (1, 4)]);
            // every rotation by a multiple of 15 degrees at three scales, as a source transform
            for k in 1..24 {
                let a = (k as f32) * 15f32.to_radians();
                for sc in [0.5f32, 1.0, 2.5] {
                    sx.push([a.cos() * sc, a.sin() * sc, -a.sin() * sc, a.cos() * sc, 0.3, 0.7]);
                }
            }
            for k in [1, 5, 7, 11] {
                let a = (k as f32) * 15f32.to_radians();
                ctm.push([a.cos(), a.sin(), -a.sin(), a.cos(), 3., 2.]);
            }
        }
        let alphas: Vec<f32> = if deep { vec![1.0, 0.75, 0.5, 0.25, 1.0 / 255.0, 0.0] } else { vec![1.0, 0.5, 0.0] };
        run.bound("fills", format!("{} images x 2 extend x 2 filter x {} alphas x {} CTMs x {} source transforms x {} surfaces", imgs.len(), alphas.len(), ctm.len(), sx.len(), surfaces.len()));
        run.par(ctm.len() * sx.len(), |s, l| {
            let c = ctm[s / sx.len()];
            let t = sx[s % sx.len()];
            for &(w, h) in &surfaces {
                for (ii, &(iw, ih)) in imgs.iter().enumerate() {
                    let data = image_of(iw, ih, &DISTINCT16, ii);
                    for repeat in [false, true] {
                        for bilinear in [false, true] {
                            for &alpha in &alphas {
                                let src = SrcSpec::Image { w: iw, h: ih, data: data.clone(), repeat, bilinear, xf: t };
                                let mut ops = vec![];
                                if c != IDENT {
                                    ops.push(Op::SetTransform(c));
                                }
                                ops.push(Op::Fill(PathSpec::rect(-60., -60., 120., 120.), src, Opts { mode: BlendMode::Src, alpha, aa: true }));
                                let scene = Scene { w, h, dst: Dst::White, ops };
                                l.states += 1;
                                l.transitions += scene.ops.len() as u64;
                                l.traces += 1;
                                l.evals += 1;
                                if s == 77 && ii == 1 && repeat && bilinear && alpha == 0.5 {
                                    run.sample(scene.to_string());
                                }
                                match eval(&scene) {
                                    Ok((hsh, n, interp)) => {
                                        l.outcome(hsh);
                                        l.count("pixels_checked", n);
                                        if interp {
                                            l.nontrivial += 1;
                                        }
                                    }
                                    Err(v) => run.report(s, v),
                                }
                            }
                        }
                    }
                }
            }
        });
        // wide and tall surfaces: device coordinates beyond 256
        run.bound("wide-tall", "300x2 and 2x300 surfaces x 5 images (3x2, 2x3, 300x2, 2x300, 263x1) x pad/repeat x nearest/bilinear x 4 source transforms x 2 alphas".to_string());
        run.par(8, |s, l| {
            let (w, h) = if s % 2 == 0 { (300, 2) } else { (2, 300) };
            let repeat = (s / 2) % 2 == 1;
            let bilinear = s / 4 == 1;
            // the long images have texel colours with period 251 (not a divisor of 256 or 65536)
            for (ii, &(iw, ih)) in [(3, 2), (2, 3), (300, 2), (2, 300), (263, 1)].iter().enumerate() {
                let data: Vec<u32> = if iw * ih <= 6 { image_of(iw, ih, &DISTINCT16, ii + 5) } else { (0..(iw * ih) as u32).map(|i| { let k = i % 251; 0xff000000 | (k << 16) | ((250 - k) << 8) | ((k * 7) & 0xff) }).collect() };
                for t in [IDENT, [1., 0., 0., 1., -250., -250.], [0.5, 0., 0., 0.5, 0.25, 0.25], [1., 0., 0., 1., -255.5, -257.25]] {
                    for alpha in [1.0f32, 0.5] {
                        let src = SrcSpec::Image { w: iw, h: ih, data: data.clone(), repeat, bilinear, xf: t };
                        let scene = Scene { w, h, dst: Dst::White, ops: vec![Op::Fill(PathSpec::rect(-10., -10., 400., 400.), src, Opts { mode: BlendMode::Src, alpha, aa: true })] };
                        l.states += 1;
                        l.transitions += 1;
                        l.traces += 1;
                        l.evals += 1;
                        match eval(&scene) {
                            Ok((hsh, n, interp)) => {
                                l.outcome(hsh);
                                l.count("pixels_checked", n);
                                if interp {
                                    l.nontrivial += 1;
                                }
                            }
                            Err(v) => run.report(20_000 + s, v),
                        }
                    }
                }
            }
        });
        // inside layers whose origin is not the surface origin, with and without a clip path in
        // force, through the SrcOver blitters
        {
            let (w, h) = (9, 7);
            let cover = PathSpec::rect(-3., -3., 20., 20.);
            let ctxs: Vec<(Vec<Op>, Vec<Op>)> = vec![
                (vec![Op::PushClipRect(2, 1, w, h), Op::PushLayer(1.0, BlendMode::SrcOver)], vec![Op::PopLayer, Op::PopClip]),
                (vec![Op::PushClipRect(2, 1, w, h), Op::PushLayer(1.0, BlendMode::SrcOver), Op::PushClip(cover.clone())], vec![Op::PopClip, Op::PopLayer, Op::PopClip]),
                (vec![Op::PushClipRect(3, 2, w - 1, h), Op::PushLayer(1.0, BlendMode::SrcOver), Op::PopClip, Op::PushClip(cover.clone())], vec![Op::PopClip, Op::PopLayer]),
                (vec![Op::PushClip(cover.clone())], vec![Op::PopClip]),
                (vec![Op::PushClipRect(3, 2, w, h), Op::PushClip(cover.clone()), Op::PushLayer(1.0, BlendMode::SrcOver)], vec![Op::PopLayer, Op::PopClip, Op::PopClip]),
                // the clip that placed the layer is popped again: an offset layer with an empty clip stack
                (vec![Op::PushClipRect(3, 2, w - 1, h), Op::PushLayer(1.0, BlendMode::SrcOver), Op::PopClip], vec![Op::PopLayer]),
                (vec![Op::PushClipRect(1, 1, w, h), Op::PushLayer(1.0, BlendMode::SrcOver), Op::PushClipRect(2, 2, w, h), Op::PushLayer(1.0, BlendMode::SrcOver), Op::PopClip, Op::PopClip], vec![Op::PopLayer, Op::PopLayer]),
            ];
            let sxs: Vec<Xf> = vec![IDENT, [1., 0., 0., 1., -2., 1.], [1., 0., 0., 1., 0.5, 0.25], [0.5, 0., 0., 0.5, 0., 0.], [0.8660254, 0.5, -0.5, 0.8660254, 0.3, 0.7]];
            run.bound("offset layers and clip paths", format!("{} contexts x 2 images x pad/repeat x nearest/bilinear x {} source transforms x 2 alphas x (covering path, fill_rect of the whole surface / of a part, draw_image_at), SrcOver over a transparent {}x{} surface", ctxs.len(), sxs.len(), w, h));
            run.par(ctxs.len() * sxs.len(), |s, l| {
                let (pre, suf) = &ctxs[s / sxs.len()];
                let t = sxs[s % sxs.len()];
                for (ii, &(iw, ih)) in [(3, 2), (2, 3)].iter().enumerate() {
                    let data = image_of(iw, ih, &DISTINCT16, ii + 2);
                    for repeat in [false, true] {
                        for bilinear in [false, true] {
                            for alpha in [1.0f32, 0.5] {
                                let src = SrcSpec::Image { w: iw, h: ih, data: data.clone(), repeat, bilinear, xf: t };
                                // the covering path, and the calls that may take the shortcut for
                                // pixel-aligned rectangles (whole surface, a part, draw_image_at)
                                let o = Opts { mode: BlendMode::SrcOver, alpha, aa: true };
                                // (opaque texels drawn with Src / Xor into the transparent layer give the same
                                // picture through the blend-mode routes)
                                let opaque: Vec<u32> = data.iter().map(|p| p | 0xff000000).collect();
                                let osrc = SrcSpec::Image { w: iw, h: ih, data: opaque, repeat, bilinear, xf: t };
                                if alpha == 1.0 {
                                    for mode in [BlendMode::Src, BlendMode::Xor] {
                                        let mut ops = pre.clone();
                                        ops.push(Op::Fill(PathSpec::rect(-60., -60., 120., 120.), osrc.clone(), Opts { mode, alpha: 1.0, aa: true }));
                                        ops.extend(suf.iter().cloned());
                                        let scene = Scene { w, h, dst: Dst::Zero, ops };
                                        l.states += 1;
                                        l.transitions += scene.ops.len() as u64;
                                        l.traces += 1;
                                        l.evals += 1;
                                        match eval(&scene) {
                                            Ok((hsh, n, _)) => {
                                                l.outcome(hsh);
                                                l.count("pixels_checked", n);
                                            }
                                            Err(v) => run.report(50_000 + s, v),
                                        }
                                    }
                                }
                                let mut draws = vec![Op::Fill(PathSpec::rect(-60., -60., 120., 120.), src.clone(), o), Op::FillRect(0., 0., w as f32, h as f32, src.clone(), o), Op::FillRect(4., 3., 3., 2., src.clone(), o)];
                                if !repeat && bilinear && s % sxs.len() == 0 {
                                    draws.push(Op::DrawImageAt(4., 3., iw, ih, data.clone(), o));
                                    draws.push(Op::DrawImageAt(1., 0., iw, ih, data.clone(), o));
                                }
                                for d in draws {
                                let mut ops = pre.clone();
                                ops.push(d);
                                ops.extend(suf.iter().cloned());
                                let scene = Scene { w, h, dst: Dst::Zero, ops };
                                l.states += 1;
                                l.transitions += scene.ops.len() as u64;
                                l.traces += 1;
                                l.evals += 1;
                                match eval(&scene) {
                                    Ok((hsh, n, interp)) => {
                                        l.outcome(hsh);
                                        l.count("pixels_checked", n);
                                        if interp {
                                            l.nontrivial += 1;
                                        }
                                    }
                                    Err(v) => run.report(50_000 + s, v),
                                }
                                }
                            }
                        }
                    }
                }
            });
        }
        // image draws after calls that must leave the current transform (and anything derived from
        // it) as they found it: layer push/pop, an empty layer under an empty clip, clear under a clip
        {
            let (w, h) = (9, 7);
            let pres: Vec<Vec<Op>> = vec![
                vec![Op::PushLayer(1.0, BlendMode::SrcOver), Op::PopLayer],
                vec![Op::PushClipRect(5, 4, 1, 1), Op::PushLayer(0.5, BlendMode::SrcOver), Op::PopLayer, Op::PopClip],
                vec![Op::PushLayer(0.001, BlendMode::SrcOver), Op::Clear(0xffffffff), Op::PopLayer],
                vec![Op::PushClipRect(0, 0, w, h), Op::Clear(0xffffffff), Op::PopClip],
            ];
            let cs = ctms();
            run.bound("draws after transform-preserving calls", format!("{} preambles x {} CTMs x 2 images x pad/repeat x nearest/bilinear: fill and draw_image_at", pres.len(), cs.len()));
            run.par(pres.len() * cs.len(), |s, l| {
                let pre = &pres[s / cs.len()];
                let c = cs[s % cs.len()];
                for (ii, &(iw, ih)) in [(3, 2), (4, 1)].iter().enumerate() {
                    let data = image_of(iw, ih, &DISTINCT16, ii + 3);
                    for repeat in [false, true] {
                        for bilinear in [false, true] {
                            let src = SrcSpec::Image { w: iw, h: ih, data: data.clone(), repeat, bilinear, xf: [1., 0., 0., 1., 0.25, -0.5] };
                            let mut draws = vec![Op::Fill(PathSpec::rect(-60., -60., 120., 120.), src, Opts { mode: BlendMode::Src, alpha: 1.0, aa: true })];
                            if !repeat && bilinear {
                                draws.push(Op::DrawImageAt(1., 1., iw, ih, data.clone(), Opts { mode: BlendMode::Src, alpha: 1.0, aa: true }));
                            }
                            for d in draws {
                                let mut ops = vec![Op::SetTransform(c)];
                                ops.extend(pre.iter().cloned());
                                ops.push(d);
                                let scene = Scene { w, h, dst: Dst::White, ops };
                                l.states += 1;
                                l.transitions += scene.ops.len() as u64;
                                l.traces += 1;
                                l.evals += 1;
                                match eval(&scene) {
                                    Ok((hsh, n, interp)) => {
                                        l.outcome(hsh);
                                        l.count("pixels_checked", n);
                                        if interp {
                                            l.nontrivial += 1;
                                        }
                                    }
                                    Err(v) => run.report(60_000 + s, v),
                                }
                            }
                        }
                    }
                }
            });
        }
        // user units of 1/4096 and 1/65536 pixel (determinants down to 2e-10) with the source
        // transform scaling back: only a non-invertible transform draws nothing
        {
            let (w, h) = (6, 5);
            run.bound("tiny determinants", "CTM scale(1/k), k in {4096, 65536, 1000}: fill / fill_rect with an image under source scale 1/k (and an offset), draw_image_with_size_at of k-times-larger size; pad/repeat x nearest/bilinear x 2 alphas on 6x5".to_string());
            run.par(3, |s, l| {
                let k = [4096.0f32, 65536.0, 1000.0][s];
                let c: Xf = [1.0 / k, 0., 0., 1.0 / k, 0., 0.];
                let (iw, ih) = (3, 2);
                let data = image_of(iw, ih, &DISTINCT16, 4);
                for repeat in [false, true] {
                    for bilinear in [false, true] {
                        for alpha in [1.0f32, 0.5] {
                            let o = Opts { mode: BlendMode::Src, alpha, aa: true };
                            let mut draws = Vec::new();
                            for sxf in [[1.0 / k, 0., 0., 1.0 / k, 0., 0.], [1.0 / k, 0., 0., 1.0 / k, -1.0, 0.5], [0.5 / k, 0., 0., 0.5 / k, 0.25, 0.25]] {
                                let src = SrcSpec::Image { w: iw, h: ih, data: data.clone(), repeat, bilinear, xf: sxf };
                                draws.push(Op::Fill(PathSpec::rect(-k, -k, 8.0 * k, 7.0 * k), src.clone(), o));
                                draws.push(Op::FillRect(k, 0., 4.0 * k, 4.0 * k, src, o));
                            }
                            if !repeat && bilinear {
                                draws.push(Op::DrawImageSize(3.0 * k, 2.0 * k, k, k, iw, ih, data.clone(), o));
                                draws.push(Op::DrawImageSize(6.0 * k, 4.0 * k, 0., 0., iw, ih, data.clone(), o));
                            }
                            for d in draws {
                                let scene = Scene { w, h, dst: Dst::White, ops: vec![Op::SetTransform(c), d] };
                                l.states += 1;
                                l.transitions += 2;
                                l.traces += 1;
                                l.evals += 1;
                                match eval(&scene) {
                                    Ok((hsh, n, interp)) => {
                                        l.outcome(hsh);
                                        l.count("pixels_checked", n);
                                        if interp || n > 0 {
                                            l.nontrivial += 1;
                                        }
                                    }
                                    Err(v) => run.report(70_000 + s, v),
                                }
                            }
                        }
                    }
                }
            });
        }
        // mask() with an image source under a current transform
        {
            let (w, h) = (9, 7);
            let cs = ctms();
            run.bound("mask() with image sources", format!("{} CTMs x 2 images x pad/repeat x nearest/bilinear x 3 source transforms x 2 masks (whole surface, a part at an offset; all 255) over white", cs.len()));
            run.par(cs.len(), |s, l| {
                let c = cs[s];
                for (ii, &(iw, ih)) in [(3, 2), (2, 3)].iter().enumerate() {
                    let data = image_of(iw, ih, &DISTINCT16, ii + 5);
                    for repeat in [false, true] {
                        for bilinear in [false, true] {
                            for sxf in [IDENT, [1., 0., 0., 1., -2., 1.], [0.5, 0., 0., 0.5, 0.25, 0.5]] {
                                // opaque texels only (mask() composites with SrcOver)
                                let opaque: Vec<u32> = data.iter().map(|p| p | 0xff000000).collect();
                                let src = SrcSpec::Image { w: iw, h: ih, data: opaque, repeat, bilinear, xf: sxf };
                                for (mx, my, mw, mh) in [(0, 0, w, h), (2, 1, 5, 4)] {
                                    let scene = Scene { w, h, dst: Dst::White, ops: vec![Op::SetTransform(c), Op::Mask(mx, my, mw, mh, vec![255u8; (mw * mh) as usize], src.clone())] };
                                    l.states += 1;
                                    l.transitions += 2;
                                    l.traces += 1;
                                    l.evals += 1;
                                    match eval(&scene) {
                                        Ok((hsh, n, interp)) => {
                                            l.outcome(hsh);
                                            l.count("pixels_checked", n);
                                            if interp || n > 0 {
                                                l.nontrivial += 1;
                                            }
                                        }
                                        Err(v) => run.report(80_000 + s, v),
                                    }
                                }
                            }
                        }
                    }
                }
            });
        }
        // an image of more than 65536 texels on a surface of more than 65536 pixels
        run.bound("large image", "300x300 image (texel rows and columns with periods 251 / 241) on a 300x300 surface x pad/repeat x nearest/bilinear x 3 source transforms".to_string());
        run.par(4, |s, l| {
            let repeat = s % 2 == 1;
            let bilinear = s / 2 == 1;
            let data: Vec<u32> = (0..90000u32).map(|i| { let (x, y) = (i % 300, i / 300); let (a, b) = (x % 251, y % 241); 0xff000000 | (a << 16) | (b << 8) | ((a + b) & 0xff) }).collect();
            for t in [IDENT, [1., 0., 0., 1., -3., 5.], [0.5, 0., 0., 0.75, 20.25, 10.5]] {
                let src = SrcSpec::Image { w: 300, h: 300, data: data.clone(), repeat, bilinear, xf: t };
                let scene = Scene { w: 300, h: 300, dst: Dst::White, ops: vec![Op::Fill(PathSpec::rect(-10., -10., 400., 400.), src, Opts { mode: BlendMode::Src, alpha: 1.0, aa: true })] };
                l.states += 1;
                l.transitions += 1;
                l.traces += 1;
                l.evals += 1;
                match eval(&scene) {
                    Ok((hsh, n, interp)) => {
                        l.outcome(hsh);
                        l.count("pixels_checked", n);
                        if interp {
                            l.nontrivial += 1;
                        }
                    }
                    Err(v) => run.report(40_000 + s, v),
                }
            }
        });
        // very long strips with sampling matrices that are almost, but not exactly, integer
        // translations: the drift only crosses a texel boundary thousands of pixels out
        run.bound("near-identity on 8200-long strips", "8200x1 and 1x8200 surfaces, 251-texel image, pad/repeat x nearest/bilinear x source scale 1.00009 / 0.99991 along the strip, the same as a CTM, and a 1e-5 skew".to_string());
        run.par(8, |s, l| {
            let tall = s % 2 == 1;
            let repeat = (s / 2) % 2 == 1;
            let bilinear = s / 4 == 1;
            let (w, h) = if tall { (1, 8200) } else { (8200, 1) };
            let (iw, ih) = if tall { (1, 251) } else { (251, 1) };
            let data: Vec<u32> = (0..251u32).map(|k| 0xff000000 | (k << 16) | ((250 - k) << 8) | ((k * 7) & 0xff)).collect();
            let k = 1.00009f32;
            let along = |v: f32| -> Xf { if tall { [1., 0., 0., v, 0., 0.] } else { [v, 0., 0., 1., 0., 0.] } };
            let skew: Xf = if tall { [1., 0., 1e-5, 1., 0., 0.] } else { [1., 1e-5, 0., 1., 0., 0.] };
            let cases: Vec<(Xf, Xf)> = vec![(IDENT, along(k)), (IDENT, along(2.0 - k)), (along(1.0 / k), IDENT), (along(k), IDENT), (IDENT, skew), (IDENT, [1., 0., 0., 1., -4000., 0.]), (IDENT, [1., 0., 0., 1., 0., -4000.])];
            for (ctm, sxf) in cases {
                let src = SrcSpec::Image { w: iw, h: ih, data: data.clone(), repeat, bilinear, xf: sxf };
                let mut ops = vec![];
                if ctm != IDENT {
                    ops.push(Op::SetTransform(ctm));
                }
                ops.push(Op::Fill(PathSpec::rect(-10., -10., 9000., 9000.), src, Opts { mode: BlendMode::Src, alpha: 1.0, aa: true }));
                let scene = Scene { w, h, dst: Dst::White, ops };
                l.states += 1;
                l.transitions += 1;
                l.traces += 1;
                l.evals += 1;
                match eval(&scene) {
                    Ok((hsh, n, interp)) => {
                        l.outcome(hsh);
                        l.count("pixels_checked", n);
                        if interp {
                            l.nontrivial += 1;
                        }
                    }
                    Err(v) => run.report(30_000 + s, v),
                }
            }
        });
        // draw_image_at / draw_image_with_size_at
        let pos: Vec<f32> = vec![-2.0, -0.75, 0.0, 0.25, 0.5, 1.0, 1.75, 3.0, 4.5];
        let sizes: Vec<(f32, f32)> = vec![(0.0, 0.0), (0.5, 0.5), (2.0, 2.0), (2.0, 0.5), (1.5, 3.0)];
        run.bound("draw_image", format!("{} images x {}^2 positions x (draw_image_at + {} relative sizes) x 3 alphas x 3 CTMs on 6x5", imgs.len(), pos.len(), sizes.len() - 1));
        run.par(pos.len() * pos.len(), |s, l| {
            let (x, y) = (pos[s / pos.len()], pos[s % pos.len()]);
            for (ii, &(iw, ih)) in imgs.iter().enumerate() {
                let data = image_of(iw, ih, &DISTINCT16, ii + 3);
                for &alpha in &alphas {
                    for c in [IDENT, [1., 0., 0., 1., 1., 0.5], [2., 0., 0., 2., 0., 0.]] {
                        for (si, &(fw, fh)) in sizes.iter().enumerate() {
                            let o = Opts { mode: BlendMode::Src, alpha, aa: true };
                            let call = if si == 0 { Op::DrawImageAt(x, y, iw, ih, data.clone(), o) } else { Op::DrawImageSize(iw as f32 * fw, ih as f32 * fh, x, y, iw, ih, data.clone(), o) };
                            let mut ops = vec![];
                            if c != IDENT {
                                ops.push(Op::SetTransform(c));
                            }
                            ops.push(call);
                            let scene = Scene { w: 6, h: 5, dst: Dst::Distinct, ops };
                            l.states += 1;
                            l.transitions += scene.ops.len() as u64;
                            l.traces += 1;
                            l.evals += 1;
                            if s == 40 && ii == 1 && si == 2 && alpha == 1.0 {
                                run.sample(scene.to_string());
                            }
                            match eval(&scene) {
                                Ok((hsh, n, interp)) => {
                                    l.outcome(hsh);
                                    l.count("pixels_checked", n);
                                    if interp {
                                        l.nontrivial += 1;
                                    }
                                }
                                Err(v) => run.report(10_000 + s, v),
                            }
                        }
                    }
                }
            }
        });
    }

    fn replay(&self, case: &str) -> Result<Option<Violation>, String> {
        let scene = parse_scene(case)?;
        Ok(eval(&scene).err())
    }
}
