//! C11 The current transform acts on geometry and sources as one user space.
//!
//! Differential clauses (bit-exact): fill under T == fill of Path::transform(T) under I;
//! stroke under T == fill of the transformed stroke outline under I; source/CTM cancellation
//! for exactly invertible T; singular T draws nothing; device-space calls ignore T; clear and
//! pop_layer leave T as they found it. (Source positioning under general T is decided by the
//! C12 / C13 oracles, which enumerate CTMs themselves.)

use super::c03::image_of;
use super::common::*;
use crate::engine::*;
use crate::model::step::*;
use crate::scene::*;
use raqote::*;

pub struct C11;

pub const XFS: [Xf; 11] = [
    IDENT,
    [1., 0., 0., 1., 3., -2.],
    [1., 0., 0., 1., 0.5, 0.25],
    [2., 0., 0., 2., 0., 0.],
    [2., 0., 0., 0.5, 0., 0.],
    [0., 1., -1., 0., 8., 0.],
    [0.8660254, 0.5, -0.5, 0.8660254, 2., -1.],
    [1., 0., 0.5, 1., 0., 0.],
    [-1., 0., 0., 1., 8., 0.],
    [0., 0., 0., 1., 0., 0.],
    [0., 0., 0., 0., 0., 0.],
];

pub fn spec_from_path(p: &Path) -> PathSpec {
    let ops = p
        .ops
        .iter()
        .map(|o| match *o {
            PathOp::MoveTo(p) => POp::M(p.x, p.y),
            PathOp::LineTo(p) => POp::L(p.x, p.y),
            PathOp::QuadTo(a, b) => POp::Q(a.x, a.y, b.x, b.y),
            PathOp::CubicTo(a, b, c) => POp::C(a.x, a.y, b.x, b.y, c.x, c.y),
            PathOp::Close => POp::Z,
        })
        .collect();
    PathSpec { evenodd: p.winding == Winding::EvenOdd, ops }
}

fn paths(q: bool) -> Vec<PathSpec> {
    use POp::*;
    let mut v = Vec::new();
    let pts: Vec<(f32, f32)> = vec![(0.25, 0.5), (3.0, 0.75), (6.5, 1.0), (1.0, 3.25), (4.25, 3.5), (7.0, 4.0), (0.5, 6.75), (3.75, 6.0), (6.25, 7.5)];
    let n = pts.len();
    let stride = if q { 3 } else { 1 };
    for a in (0..n).step_by(stride) {
        for b in 0..n {
            for c in (0..n).step_by(stride) {
                if a != b && b != c && a != c {
                    v.push(PathSpec::new(vec![M(pts[a].0, pts[a].1), L(pts[b].0, pts[b].1), L(pts[c].0, pts[c].1)]));
                }
            }
        }
    }
    v.push(PathSpec::new(vec![M(0.5, 0.5), Q(7.5, 0.0, 4.0, 7.0), Z]));
    v.push(PathSpec::new(vec![M(0.5, 0.5), C(9.0, 1.0, -2.0, 5.0, 6.0, 7.0)]));
    v.push(PathSpec::new(vec![Q(7.5, 0.0, 4.0, 7.0), C(1.0, 9.0, 0.0, 3.0, 3.0, 3.0)]));
    v.push(PathSpec::new(vec![M(1.0, 1.0), L(6.0, 1.5), Z, Q(7.0, 7.0, 1.0, 6.0), L(3.0, 3.0)]));
    v.push(PathSpec::new(vec![A(4.0, 4.0, 3.0, 0.3, 4.0)]));
    v.push(PathSpec { evenodd: true, ops: [PathSpec::rect(0.5, 0.5, 6.5, 6.0).ops, PathSpec::rect(2.25, 2.0, 3.0, 3.5).ops].concat() });
    v.push(PathSpec::new(vec![L(1.0, 0.5), L(7.0, 2.0), L(2.0, 7.0)]));
    v.push(PathSpec::new(vec![]));
    v
}

const S: i32 = 8;

fn one(run: &Run, shard: usize, l: &mut Local, sig: &str, a: Scene, b: Scene, sample: bool) {
    one_tol(run, shard, l, sig, a, b, sample, 0)
}

fn one_tol(run: &Run, shard: usize, l: &mut Local, sig: &str, a: Scene, b: Scene, sample: bool, tol: u32) {
    l.states += 2;
    l.transitions += (a.ops.len() + b.ops.len()) as u64;
    l.traces += 1;
    l.evals += 1;
    if sample {
        run.sample(format!("{} || {}", a, b));
    }
    match diff_scenes_tol(sig, &a, &b, tol) {
        Ok((h, changed)) => {
            l.outcome(h);
            if changed {
                l.nontrivial += 1;
            }
        }
        Err(v) => run.report(shard, v),
    }
}

fn owns_state(v: &StepViolation) -> bool {
    v.kind == Kind::StateChanged && v.clause.ends_with("leaves-transform")
}

impl Check for C11 {
    fn id(&self) -> &'static str {
        "C11"
    }
    fn title(&self) -> &'static str {
        "The current transform acts on geometry and sources as one user space"
    }

    fn run(&self, run: &Run) {
        let q = false;
        let deep = !run.tier.quick();
        // thorough: every rotation by a multiple of 7.5 degrees x 3 scales x 2 translations on top
        let mut xfs_i: Vec<Xf> = XFS.to_vec();
        let mut xfs_ii: Vec<Xf> = XFS[..9].to_vec();
        if deep {
            for k in 0..48 {
                let a = (k as f32) * 7.5f32.to_radians();
                for sc in [0.5f32, 1.0, 1.7] {
                    for (tx, ty) in [(0.0f32, 0.0f32), (0.3, 0.6)] {
                        let (c, s) = (a.cos() * sc, a.sin() * sc);
                        // rotate about the middle of the 8x8 surface
                        let x: Xf = [c, s, -s, c, 4.0 - 4.0 * c + 4.0 * s + tx, 4.0 - 4.0 * s - 4.0 * c + ty];
                        xfs_i.push(x);
                        if k % 4 == 1 {
                            xfs_ii.push(x);
                        }
                    }
                }
            }
        }
        run.rule("pairs of scenes that the property declares equivalent are executed on identical initial contents and must give bit-identical surfaces: (i) fill(p) under T vs fill(Path::transform(p, T)) under the identity, 11 transforms x paths (triangles over a 3x3 off-grid set, curves, arcs, even-odd ring, no-MoveTo path) x 2 aa x sources; (ii) stroke under T vs NonZero fill of stroke_to_path(p).transform(T); (iii) CTM T with source transform T vs identity/identity for exactly invertible T; (iv) singular T leaves the target unchanged for every drawing call and context; (v) push_clip_rect / mask / copy_surface / blend_surface under T vs under I; (vi) get_transform() bit-identical after clear and pop_layer; non-trivial = the scene changed pixels");
        let ps = paths(q);
        let white = SrcSpec::Solid(0xffffffff);
        let half = SrcSpec::Solid(0x80402010);
        // (i) fill under T vs pre-transformed path
        run.bound("fill-vs-pretransformed", format!("{} paths x {} transforms x 2 aa x 2 rules x 2 sources/modes", ps.len(), xfs_i.len()));
        run.par(ps.len(), |pi, l| {
            for (ti, xf) in xfs_i.iter().enumerate() {
                for aa in [true, false] {
                    for eo in [false, true] {
                        for (src, mode) in [(white.clone(), BlendMode::SrcOver), (half.clone(), BlendMode::Xor)] {
                            let mut p = ps[pi].clone();
                            p.evenodd = p.evenodd || eo;
                            let o = Opts { mode, alpha: 1.0, aa };
                            let a = Scene { w: S, h: S, dst: Dst::Distinct, ops: vec![Op::SetTransform(*xf), Op::Fill(p.clone(), src.clone(), o)] };
                            let pre = spec_from_path(&p.build().transform(&xf_to(xf)));
                            let b = Scene { w: S, h: S, dst: Dst::Distinct, ops: vec![Op::Fill(pre, src, o)] };
                            one(run, pi, l, "fill-under-T-vs-pretransformed-path", a, b, pi == 10 && ti == 6 && aa && !eo);
                        }
                    }
                }
            }
        });
        // (i'') decimal scale factors with a translation that cancels most of the product, vertices
        // whose exact images lie on the quarter-pixel grid: the one place where the way the products
        // and sums of x' = x*m11 + y*m21 + m31 are rounded decides the cell a vertex falls into
        {
            let ks: [f32; 9] = [3., 7., 9., 11., 13., 17., 19., 23., 27.];
            let gu: Vec<(f32, f32)> = (0..16).map(|i| (100.0 + 2.5 * (i % 4) as f32, 100.0 + 2.5 * (i / 4) as f32)).collect();
            run.bound("decimal scales with cancelling translations", format!("all triangles over a 4x4 user grid at (100 + 2.5 i, 100 + 2.5 j) x {} scales k/10 with translation 2.25 - 10k (and a shear variant) x 2 aa on 24x24: same pixels as the pre-transformed path", ks.len()));
            run.par(gu.len() * ks.len(), |s, l| {
                let (i0, k) = (s / ks.len(), ks[s % ks.len()]);
                let sc = k / 10.0;
                for xf in [[sc, 0., 0., sc, 2.25 - 10.0 * k, 2.25 - 10.0 * k], [sc, 0., 0.1, sc, -8.0 - 10.0 * k, 2.5 - 10.0 * k]] {
                    for i1 in i0 + 1..gu.len() {
                        for i2 in i1 + 1..gu.len() {
                            for aa in [true, false] {
                                let p = PathSpec::poly(&[gu[i0], gu[i1], gu[i2]]);
                                let o = Opts { mode: BlendMode::SrcOver, alpha: 1.0, aa };
                                let a = Scene { w: 24, h: 24, dst: Dst::Zero, ops: vec![Op::SetTransform(xf), Op::Fill(p.clone(), white.clone(), o)] };
                                let pre = spec_from_path(&p.build().transform(&xf_to(&xf)));
                                let b = Scene { w: 24, h: 24, dst: Dst::Zero, ops: vec![Op::Fill(pre, white.clone(), o)] };
                                one(run, 600 + s, l, "fill-under-T-vs-pretransformed-path", a, b, false);
                            }
                        }
                    }
                }
            });
        }
        // (i-3) shears and rotations with decimal entries *and* a translation, vertices whose images
        // lie on the quarter-pixel grid: all three terms of x' = x*m11 + y*m21 + m31 are non-zero, so
        // the order in which they are summed decides the cell of a vertex
        {
            let ts: Vec<Xf> = vec![[1., 0., 0.45, 1., 0.15, 0.], [0.6, 0.8, -0.8, 0.6, 20., 3.], [1., 0.3, 0., 1., 0., 0.35], [0.8, -0.6, 0.6, 0.8, 2.5, 14.], [1.1, 0., 0.7, 0.9, -3.3, 1.7], [0.28, 0.96, -0.96, 0.28, 30.25, 2.75]];
            let dxs = [10.0f64, 13.25, 16.5, 19.75, 22.0];
            let dys = [7.0f64, 11.25, 19.5, 27.0];
            run.bound("decimal shears and rotations with translations", format!("{} transforms x all triangles over 20 user points whose exact images are the quarter-grid points {:?} x {:?} x 2 aa on 40x40: same pixels as the pre-transformed path", ts.len(), dxs, dys));
            run.par(ts.len() * 20, |s, l| {
                let xf = ts[s / 20];
                let inv = crate::model::img::mat_inverse(&crate::model::img::xf64(&xf)).unwrap();
                let pts: Vec<(f32, f32)> = dys.iter().flat_map(|y| dxs.iter().map(move |x| (*x, *y))).map(|(x, y)| { let u = crate::model::img::mat_apply(&inv, x, y); (u.0 as f32, u.1 as f32) }).collect();
                let i0 = s % 20;
                for i1 in i0 + 1..pts.len() {
                    for i2 in i1 + 1..pts.len() {
                        for aa in [true, false] {
                            let p = PathSpec::poly(&[pts[i0], pts[i1], pts[i2]]);
                            let o = Opts { mode: BlendMode::SrcOver, alpha: 1.0, aa };
                            let a = Scene { w: 40, h: 40, dst: Dst::Zero, ops: vec![Op::SetTransform(xf), Op::Fill(p.clone(), white.clone(), o)] };
                            let pre = spec_from_path(&p.build().transform(&xf_to(&xf)));
                            let b = Scene { w: 40, h: 40, dst: Dst::Zero, ops: vec![Op::Fill(pre, white.clone(), o)] };
                            one(run, 700 + s, l, "fill-under-T-vs-pretransformed-path", a, b, false);
                        }
                    }
                }
            });
        }
        // (i-4) shapes that leave the surface under rotations and shears: a part is visible, most of the
        // shape (its centre, some of its bounding-box corners) is not, with and without a clip rectangle
        {
            let ts: Vec<Xf> = vec![[0.8, 0.6, -0.6, 0.8, 0., 0.], [0.8, -0.6, 0.6, 0.8, 0., 20.], [1., 0., -1., 1., 20., 0.], [1., -0.75, 0., 1., 0., 30.], [-0.6, 0.8, 0.8, 0.6, 30., -10.], [0.5, 0.5, -2.0, 2.0, 40., 0.]];
            let xs = [-40.0f32, -10., 5., 30., 55.];
            run.bound("shapes leaving the surface under rotations and shears", format!("{} transforms x rectangles and triangles (25 x 40 user units) at {}^2 positions x (no clip, clip rectangle (30,8)-(60,30)) on 64x64: same pixels as the pre-transformed path", ts.len(), xs.len()));
            run.par(ts.len() * xs.len(), |s, l| {
                let xf = ts[s / xs.len()];
                let x0 = xs[s % xs.len()];
                for &y0 in &xs {
                    for shape in 0..2 {
                        for clip in [false, true] {
                            let p = if shape == 0 { PathSpec::rect(x0, y0, 25., 40.) } else { PathSpec::poly(&[(x0, y0), (x0 + 25., y0 + 12.), (x0 + 4., y0 + 40.)]) };
                            let o = Opts { mode: BlendMode::SrcOver, alpha: 1.0, aa: true };
                            let mut a_ops = Vec::new();
                            let mut b_ops = Vec::new();
                            if clip {
                                a_ops.push(Op::PushClipRect(30, 8, 60, 30));
                                b_ops.push(Op::PushClipRect(30, 8, 60, 30));
                            }
                            a_ops.extend([Op::SetTransform(xf), Op::Fill(p.clone(), white.clone(), o)]);
                            b_ops.push(Op::Fill(spec_from_path(&p.build().transform(&xf_to(&xf))), white.clone(), o));
                            let a = Scene { w: 64, h: 64, dst: Dst::Zero, ops: a_ops };
                            let b = Scene { w: 64, h: 64, dst: Dst::Zero, ops: b_ops };
                            one(run, 800 + s, l, "fill-under-T-vs-pretransformed-path", a, b, false);
                        }
                    }
                }
            });
        }
        // (ii') a dashed stroke under T is the stroke of the dashes under T: the same pixels as stroking
        // the path the dasher makes of it (hook), undashed, under the same T - however fine the
        // pattern is in device pixels
        {
            let ts: Vec<Xf> = vec![[1.0 / 64.0, 0., 0., 1.0 / 64.0, 0., 0.], [0.125, 0., 0., 0.125, 1., 1.], [1., 0., 0., 1., 0.5, 0.25], [4., 0., 0., 4., -8., -8.], [0.02, 0., 0., 0.02, 2., 3.]];
            let dashes: Vec<Vec<f32>> = vec![vec![3., 2.], vec![0.25, 0.375], vec![40., 24.], vec![7., 1., 2.]];
            run.bound("dashed strokes under scales", format!("{} transforms x {} dash arrays (periods from 0.01 to 200 device pixels) x 2 polylines sized to the surface: stroke with the dash array vs stroke of the dasher's output without it", ts.len(), dashes.len()));
            run.par(ts.len() * dashes.len(), |s, l| {
                let xf = ts[s / dashes.len()];
                let dash = &dashes[s % dashes.len()];
                let k = 1.0 / xf[0];
                for pts in [[(1.0f32, 1.5f32), (7.0, 2.0), (2.0, 6.5)], [(0.5, 4.0), (7.5, 4.0), (7.5, 7.0)]] {
                    let ops: Vec<POp> = pts.iter().enumerate().map(|(i, p)| { let (x, y) = ((p.0 - xf[4]) * k, (p.1 - xf[5]) * k); if i == 0 { POp::M(x, y) } else { POp::L(x, y) } }).collect();
                    let path = PathSpec::new(ops);
                    let st = StyleSpec { width: 1.5 * k, cap: 0, join: 1, miter: 4., dash: dash.clone(), offset: 0. };
                    let dashed = spec_from_path(&raqote::verif_dash_path(&path.build(), dash, 0.));
                    let st2 = StyleSpec { dash: vec![], ..st.clone() };
                    let a = Scene { w: S, h: S, dst: Dst::Zero, ops: vec![Op::SetTransform(xf), Op::Stroke(path, st, white.clone(), Opts::default())] };
                    let b = Scene { w: S, h: S, dst: Dst::Zero, ops: vec![Op::SetTransform(xf), Op::Stroke(dashed, st2, white.clone(), Opts::default())] };
                    one(run, 900 + s, l, "dashed-stroke-under-T-vs-stroke-of-the-dashes", a, b, false);
                }
            });
        }
        // (i-5) text is geometry in user space as well: a run drawn under a translation equals the run
        // drawn at the translated position under the identity (dyadic offsets: the positions are the
        // same floats either way)
        if font_available() {
            let tr: [(f32, f32); 6] = [(3., 0.), (0., -2.), (5., 4.), (-4., 1.), (0.5, 0.25), (-6.5, 3.75)];
            run.bound("text under translations", format!("3 runs x {} translations x 2 aa x 2 sources on 24x16: same pixels as the run at the translated position under the identity", tr.len()));
            run.par(tr.len(), |s, l| {
                let (tx, ty) = tr[s];
                for (text, size, x, y) in [("Lo", 12.0f32, 4.0f32, 12.0f32), ("i.", 16.0, 9.0, 13.0), ("W", 9.0, 6.5, 9.25)] {
                    for aa in [true, false] {
                        for (src, mode) in [(white.clone(), BlendMode::SrcOver), (half.clone(), BlendMode::Xor)] {
                            let o = Opts { mode, alpha: 1.0, aa };
                            let a = Scene { w: 24, h: 16, dst: Dst::Distinct, ops: vec![Op::SetTransform([1., 0., 0., 1., tx, ty]), Op::Text(size, text.to_string(), x, y, src.clone(), o)] };
                            let b = Scene { w: 24, h: 16, dst: Dst::Distinct, ops: vec![Op::Text(size, text.to_string(), x + tx, y + ty, src, o)] };
                            one(run, 950 + s, l, "text-under-translation-vs-translated-position", a, b, false);
                        }
                    }
                }
            });
        }
        // (i') invertible transforms with a tiny determinant (only a non-invertible T draws nothing):
        // user coordinates k times larger under scale 1/k
        let tiny: Vec<(f32, f32)> = vec![(4096., 4096.), (1., 1e7), (1e7, 1.), (1e4, 1e4), (1e-3, 1e9), (65536., 65536.)];
        run.bound("fill-under-tiny-determinants", format!("{} paths x {} scales (1/kx, 1/ky) with determinants down to 1e-10 x fill / stroke / fill_rect: same pixels as the pre-transformed path under the identity", ps.len(), tiny.len()));
        run.par(ps.len(), |pi, l| {
            for &(kx, ky) in &tiny {
                let xf: Xf = [1.0 / kx, 0., 0., 1.0 / ky, 0., 0.];
                let big = spec_from_path(&ps[pi].build().transform(&raqote::Transform::scale(kx, ky)));
                if big.ops.iter().any(|o| matches!(o, POp::A(..))) {
                    continue;
                }
                let o = Opts::default();
                let a = Scene { w: S, h: S, dst: Dst::Distinct, ops: vec![Op::SetTransform(xf), Op::Fill(big.clone(), white.clone(), o)] };
                let pre = spec_from_path(&big.build().transform(&xf_to(&xf)));
                let b = Scene { w: S, h: S, dst: Dst::Distinct, ops: vec![Op::Fill(pre, white.clone(), o)] };
                one(run, 100 + pi, l, "fill-under-T-vs-pretransformed-path", a, b, false);
                // fill_rect (path route) of the surface's middle, in user units
                let a = Scene { w: S, h: S, dst: Dst::Distinct, ops: vec![Op::SetTransform(xf), Op::FillRect(1.5 * kx, 2.25 * ky, 4.0 * kx, 3.5 * ky, half.clone(), o)] };
                let pre = spec_from_path(&PathSpec::rect(1.5 * kx, 2.25 * ky, 4.0 * kx, 3.5 * ky).build().transform(&xf_to(&xf)));
                let b = Scene { w: S, h: S, dst: Dst::Distinct, ops: vec![Op::Fill(pre, half.clone(), o)] };
                one(run, 100 + pi, l, "fill_rect-under-T-vs-pretransformed-rect", a, b, false);
            }
        });
        // (ii) stroke under T vs fill of transformed outline (straight paths; curves depend on the flatten tolerance)
        let styles: Vec<StyleSpec> = vec![
            StyleSpec { width: 1.5, cap: 0, join: 0, miter: 4., dash: vec![], offset: 0. },
            StyleSpec { width: 2.0, cap: 1, join: 1, miter: 4., dash: vec![], offset: 0. },
            StyleSpec { width: 0.75, cap: 2, join: 2, miter: 4., dash: vec![], offset: 0. },
        ];
        run.bound("stroke-vs-outline", format!("{} straight paths x {} invertible transforms x {} styles", ps.len() - 7, xfs_ii.len(), styles.len()));
        run.par(ps.len(), |pi, l| {
            if ps[pi].ops.iter().any(|o| matches!(o, POp::Q(..) | POp::C(..) | POp::A(..))) {
                return;
            }
            for (ti, xf) in xfs_ii.iter().enumerate() {
                for st in &styles {
                    let a = Scene { w: S, h: S, dst: Dst::Distinct, ops: vec![Op::SetTransform(*xf), Op::Stroke(ps[pi].clone(), st.clone(), white.clone(), Opts::default())] };
                    let outline = spec_from_path(&stroke_to_path(&ps[pi].build(), &st.to()).transform(&xf_to(xf)));
                    let b = Scene { w: S, h: S, dst: Dst::Distinct, ops: vec![Op::Fill(outline, white.clone(), Opts::default())] };
                    // strokes: "the image under T of the user-space stroke", not bit-identical
                    one_tol(run, 1000 + pi, l, "stroke-under-T-vs-fill-of-transformed-outline", a, b, pi == 5 && ti == 4 && st.cap == 1, 17);
                }
            }
        });
        // (ii') curved strokes: the stroke under T is the image under T of the user-space stroke (M-REGION of
        // the transformed user-space region), also when T scales strongly up or down
        let cps: Vec<(f32, f32)> = vec![(4., 5.), (17., 3.), (31., 8.), (6., 19.), (18., 17.), (30., 21.), (5., 31.), (19., 29.), (32., 30.)];
        run.bound("curved-strokes-under-scale", "9^3 quads with user coordinates k times the device ones under scale 1/k, k in {50, 0.02, 7, 0.0025, 2^-24, 2^-30}, width 4k, butt/round; 6 reflections / rotations".to_string());
        run.par(cps.len() * cps.len(), |s, l| {
            let (a, b) = (cps[s / cps.len()], cps[s % cps.len()]);
            if a == b {
                return;
            }
            for c in &cps {
                // reflections (negative determinant): mirror in x, mirror in y, axis swap
                // ... and rotations: a quarter turn (the scale sits entirely off the diagonal), 60 degrees, 80 degrees
                for xf in [[-1.0f32, 0., 0., 1., 36., 0.], [1., 0., 0., -1., 0., 36.], [0., 1., 1., 0., 0., 0.], [0., 1., -1., 0., 36., 0.], [0.5, 0.8660254, -0.8660254, 0.5, 24.6, -6.6], [0.17364818, 0.9848077, -0.9848077, 0.17364818, 32.6, -2.9]] {
                    let path = PathSpec::new(vec![POp::M(a.0, a.1), POp::Q(b.0, b.1, c.0, c.1)]);
                    let st = StyleSpec { width: 4.0, cap: (s % 2) as u8, join: 1, miter: 4., dash: vec![], offset: 0. };
                    l.states += 1;
                    l.transitions += 2;
                    l.traces += 1;
                    l.evals += 1;
                    match super::c04::eval_with(&path, &st, &xf, true) {
                        Ok(stt) => {
                            l.outcome(stt.hash);
                            if stt.inside > 0 {
                                l.nontrivial += 1;
                            }
                        }
                        Err(mut v) => {
                            v.sig = format!("stroke-is-image-of-user-space-stroke/{}", v.sig);
                            run.report(2000 + s, v);
                        }
                    }
                }
                // (2^-24, 2^-30: magnifications of 1.7e7 and 1e9 - the flattening tolerance asked for, 0.1 / scale
                // user units, lies below what the flattening library accepts by itself)
                for k in [50.0f32, 0.02, 7.0, 0.0025, 5.9604645e-8, 9.313226e-10] {
                    let xf: Xf = [1.0 / k, 0., 0., 1.0 / k, 0., 0.];
                    let path = PathSpec::new(vec![POp::M(a.0 * k, a.1 * k), POp::Q(b.0 * k, b.1 * k, c.0 * k, c.1 * k)]);
                    let st = StyleSpec { width: 4.0 * k, cap: (s % 2) as u8, join: 1, miter: 4., dash: vec![], offset: 0. };
                    l.states += 1;
                    l.transitions += 2;
                    l.traces += 1;
                    l.evals += 1;
                    match super::c04::eval_with(&path, &st, &xf, true) {
                        Ok(stt) => {
                            l.outcome(stt.hash);
                            if stt.inside > 0 {
                                l.nontrivial += 1;
                            }
                        }
                        Err(mut v) => {
                            v.sig = format!("stroke-is-image-of-user-space-stroke/{}", v.sig);
                            run.report(1500 + s, v)
                        }
                    }
                }
            }
        });
        // (iii) cancellation: the same transform on target and source cancels out
        let exact: Vec<Xf> = vec![[1., 0., 0., 1., 3., -2.], [1., 0., 0., 1., -5., 7.], [2., 0., 0., 2., 0., 0.], [0., 1., -1., 0., 8., 0.], [-1., 0., 0., 1., 8., 0.], [0.5, 0., 0., 4., 0., 0.]];
        let ramp = vec![Stop { pos: 0.0, color: 0xffff0000 }, Stop { pos: 1.0, color: 0x8000ff00 }];
        run.bound("cancellation", format!("{} exactly invertible transforms x (image pad/repeat x nearest/bilinear, linear and radial raw gradients) x 3 alphas", exact.len()));
        run.par(exact.len(), |ti, l| {
            let t = exact[ti];
            let img = image_of(3, 2, &DISTINCT16, 2);
            let mut srcs: Vec<(SrcSpec, SrcSpec)> = Vec::new();
            for repeat in [false, true] {
                for bilinear in [false, true] {
                    srcs.push((SrcSpec::Image { w: 3, h: 2, data: img.clone(), repeat, bilinear, xf: t }, SrcSpec::Image { w: 3, h: 2, data: img.clone(), repeat, bilinear, xf: IDENT }));
                }
            }
            // raw gradients: the source-space matrix G composed with T on one side only
            let g = [0.1f32, 0., 0., 0.1, 0.05, 0.];
            let gt = xf_from(&xf_to(&t).then(&xf_to(&g)));
            srcs.push((SrcSpec::LinearRaw { stops: ramp.clone(), spread: Spr::Repeat, xf: gt }, SrcSpec::LinearRaw { stops: ramp.clone(), spread: Spr::Repeat, xf: g }));
            srcs.push((SrcSpec::RadialRaw { stops: ramp.clone(), spread: Spr::Reflect, xf: gt }, SrcSpec::RadialRaw { stops: ramp.clone(), spread: Spr::Reflect, xf: g }));
            for (sa, sb) in srcs {
                for alpha in [1.0f32, 0.5, 0.0] {
                    let o = Opts { mode: BlendMode::Src, alpha, aa: true };
                    let big = PathSpec::rect(-100., -100., 200., 200.);
                    let a = Scene { w: S, h: S, dst: Dst::White, ops: vec![Op::SetTransform(t), Op::Fill(big.clone(), sa.clone(), o)] };
                    let b = Scene { w: S, h: S, dst: Dst::White, ops: vec![Op::Fill(big, sb.clone(), o)] };
                    // for gradients the composed matrix T*G is not what "same transform on both" means; use the image clause only for exact equality
                    if sa.is_gradient() {
                        // CTM T with source transform (T then G) == identity with G
                        one(run, 2000 + ti, l, "ctm-cancels-in-source-transform", a, b, false);
                    } else {
                        one(run, 2000 + ti, l, "same-transform-on-target-and-source-cancels", a, b, ti == 2 && alpha == 0.5);
                    }
                }
            }
        });
        // (iv) singular T draws nothing
        let sing: Vec<Xf> = vec![[0., 0., 0., 1., 0., 0.], [0., 0., 0., 0., 0., 0.], [1., 2., 2., 4., 1., 1.], [1., 0., 0., 0., 3., 3.]];
        let img = image_of(3, 2, &DISTINCT16, 4);
        let calls: Vec<Op> = vec![
            Op::Fill(PathSpec::rect(0., 0., 8., 8.), white.clone(), Opts { mode: BlendMode::Src, alpha: 1.0, aa: true }),
            Op::Fill(ps[ps.len() - 8].clone(), half.clone(), Opts::default()),
            Op::FillRect(1., 1., 4., 4., white.clone(), Opts { mode: BlendMode::Clear, alpha: 1.0, aa: true }),
            Op::FillRect(0.5, 0.5, 4., 4., SrcSpec::Linear { stops: ramp.clone(), spread: Spr::Pad, p: [0., 0., 8., 8.] }, Opts::default()),
            Op::Stroke(PathSpec::new(vec![POp::M(1., 1.), POp::L(7., 6.)]), StyleSpec { width: 2.0, cap: 1, join: 1, miter: 4., dash: vec![], offset: 0. }, white.clone(), Opts::default()),
            Op::Stroke(PathSpec::new(vec![POp::M(1., 1.), POp::Q(7., 1., 7., 6.)]), StyleSpec { width: 2.0, cap: 2, join: 0, miter: 4., dash: vec![1., 1.], offset: 0. }, white.clone(), Opts::default()),
            Op::DrawImageAt(1., 1., 3, 2, img.clone(), Opts::default()),
            Op::DrawImageSize(6., 5., 1., 1., 3, 2, img.clone(), Opts { mode: BlendMode::Src, alpha: 1.0, aa: true }),
            // mask() is a drawing call too: where it lands ignores T, but its source lives in user space
            // and has no position there under a non-invertible T - the statement's "a non-invertible T
            // draws nothing" is taken literally (it is also what the library does)
            Op::Mask(1, 2, 3, 2, vec![255, 128, 64, 0, 1, 200], white.clone()),
            Op::Mask(-1, 6, 4, 3, vec![255, 128, 64, 0, 1, 200, 90, 91, 92, 93, 94, 95], SrcSpec::Linear { stops: ramp.clone(), spread: Spr::Pad, p: [0., 0., 8., 8.] }),
        ];
        let ctxs: Vec<(Vec<Op>, Vec<Op>)> = vec![
            (vec![], vec![]),
            (vec![Op::PushClipRect(1, 1, 7, 7)], vec![Op::PopClip]),
            (vec![Op::PushClip(PathSpec::poly(&[(0.5, 0.), (8., 1.), (1., 8.)]))], vec![Op::PopClip]),
            (vec![Op::PushLayer(0.5, BlendMode::SrcOver)], vec![Op::PopLayer]),
        ];
        run.bound("singular", format!("{} singular transforms x {} calls x {} contexts x 2 destinations: target unchanged", sing.len(), calls.len(), ctxs.len()));
        run.par(sing.len() * calls.len(), |s, l| {
            let t = sing[s / calls.len()];
            let call = &calls[s % calls.len()];
            for (pre, suf) in &ctxs {
                for dst in [Dst::Distinct, Dst::White] {
                    let mut ops = pre.clone();
                    ops.push(Op::SetTransform(t));
                    ops.push(call.clone());
                    ops.extend(suf.iter().cloned());
                    let a = Scene { w: S, h: S, dst: dst.clone(), ops };
                    let mut ops_b = pre.clone();
                    ops_b.extend(suf.iter().cloned());
                    let b = Scene { w: S, h: S, dst, ops: ops_b };
                    one(run, 3000 + s, l, "singular-transform-draws-nothing", a, b, s == 5 && pre.len() == 1);
                }
            }
        });
        // (v) device-space calls ignore T
        let dev: Vec<Vec<Op>> = vec![
            vec![Op::PushClipRect(1, 2, 6, 7), Op::SetTransform(IDENT), Op::Fill(PathSpec::rect(0., 0., 8., 8.), half.clone(), Opts::default()), Op::PopClip],
            vec![Op::Mask(1, 2, 3, 2, vec![255, 128, 64, 0, 1, 200], white.clone())],
            vec![Op::Mask(-1, 6, 4, 3, vec![255, 128, 64, 0, 1, 200, 90, 91, 92, 93, 94, 95], half.clone())],
            vec![Op::Surface(SurfKind::Copy, 3, 2, [0, 0, 3, 2], [2, 3])],
            vec![Op::Surface(SurfKind::Blend(BlendMode::Multiply), 3, 3, [1, 0, 3, 3], [-1, 4])],
            vec![Op::Surface(SurfKind::Alpha(0.5), 2, 2, [0, 0, 2, 2], [6, 6])],
        ];
        run.bound("device-space", format!("{} device-space call groups x 10 transforms: same pixels as under the identity", dev.len()));
        run.par(dev.len(), |di, l| {
            for xf in XFS.iter().skip(1) {
                // mask() under a singular T is decided by clause (iv): it draws nothing
                if matches!(dev[di][0], Op::Mask(..)) && xf_to(xf).determinant() == 0.0 {
                    continue;
                }
                let mut ops = vec![Op::SetTransform(*xf)];
                ops.extend(dev[di].iter().cloned());
                let a = Scene { w: S, h: S, dst: Dst::Distinct, ops };
                let b = Scene { w: S, h: S, dst: Dst::Distinct, ops: dev[di].clone() };
                one(run, 4000 + di, l, "device-space-call-ignores-transform", a, b, di == 1);
            }
        });
        // (iii') sources are fixed in user space: colour = source evaluated at T^-1(pixel centre)
        // (the M-IMG / M-GRAD oracles of C13 / C12 on a reduced source set under every invertible T,
        // including both shears, whose inverse composed with the source transform has integer translation)
        let mut txf: Vec<Xf> = XFS.iter().copied().filter(|x| xf_to(x).determinant() != 0.0).collect();
        txf.extend([[1., 0.5, 0., 1., 0., 0.], [1., 0., 1., 1., 2., 0.], [1., -1., 0., 1., 0., 3.], [1., 0., -0.25, 1., 1., 1.]]);
        run.bound("sources-in-user-space", format!("{} invertible transforms (4 shears with unit diagonal) x (2 images x pad/repeat x nearest/bilinear x 3 source transforms x 2 alphas; draw_image_at x 4 positions and draw_image_with_size_at x 2 x 2 images x 2 alphas; 4 gradients x 2 alphas)", txf.len()));
        run.par(txf.len(), |ti, l| {
            let t = txf[ti];
            let big = PathSpec::rect(-100., -100., 200., 200.);
            for (iw, ih) in [(3, 2), (2, 3)] {
                let data = image_of(iw, ih, &DISTINCT16, 1);
                for repeat in [false, true] {
                    for bilinear in [false, true] {
                        for sx in [IDENT, [1., 0., 0., 1., 2., -1.], [1., 0., 0., 1., 0.5, 0.25]] {
                            for alpha in [1.0f32, 0.5] {
                                let src = SrcSpec::Image { w: iw, h: ih, data: data.clone(), repeat, bilinear, xf: sx };
                                // directly, and after calls that must leave the transform (and
                                // everything derived from it) as they found it
                                for pre in 0..3 {
                                let mut ops = vec![Op::SetTransform(t)];
                                match pre {
                                    1 => ops.extend([Op::PushLayer(1.0, BlendMode::SrcOver), Op::PopLayer]),
                                    2 => ops.extend([Op::PushClipRect(0, 0, S, S), Op::Clear(0xffffffff), Op::PopClip]),
                                    _ => {}
                                }
                                ops.push(Op::Fill(big.clone(), src.clone(), Opts { mode: BlendMode::Src, alpha, aa: true }));
                                let scene = Scene { w: S, h: S, dst: Dst::White, ops };
                                l.states += 1;
                                l.transitions += 2;
                                l.traces += 1;
                                l.evals += 1;
                                match super::c13::eval(&scene) {
                                    Ok((h, _, _)) => {
                                        l.outcome(h);
                                        l.nontrivial += 1;
                                    }
                                    Err(mut v) => {
                                        v.sig = format!("source-in-user-space/{}", v.sig);
                                        run.report(6000 + ti, v)
                                    }
                                }
                                }
                            }
                        }
                    }
                }
            }
            // draw_image_at / draw_image_with_size_at are images fixed in user space too (bilinear,
            // pad): at whole and fractional positions, at their own size and resized
            for (iw, ih) in [(3, 2), (4, 4)] {
                let data = image_of(iw, ih, &DISTINCT16, 2);
                for alpha in [1.0f32, 0.5] {
                    let o = Opts { mode: BlendMode::Src, alpha, aa: true };
                    let mut draws = Vec::new();
                    for (x, y) in [(0.0f32, 0.0f32), (2.0, 1.0), (1.5, 0.25), (-1.0, 3.0)] {
                        draws.push(Op::DrawImageAt(x, y, iw, ih, data.clone(), o));
                    }
                    draws.push(Op::DrawImageSize(iw as f32, ih as f32, 1.0, 2.0, iw, ih, data.clone(), o));
                    draws.push(Op::DrawImageSize(2.0 * iw as f32, ih as f32, 0.0, 1.0, iw, ih, data.clone(), o));
                    for d in draws {
                        let scene = Scene { w: S, h: S, dst: Dst::White, ops: vec![Op::SetTransform(t), d] };
                        l.states += 1;
                        l.transitions += 2;
                        l.traces += 1;
                        l.evals += 1;
                        match super::c13::eval(&scene) {
                            Ok((h, _, _)) => {
                                l.outcome(h);
                                l.nontrivial += 1;
                            }
                            Err(mut v) => {
                                v.sig = format!("source-in-user-space/{}", v.sig);
                                run.report(6000 + ti, v)
                            }
                        }
                    }
                }
            }
            let ramp2 = vec![Stop { pos: 0.0, color: 0xffff0000 }, Stop { pos: 1.0, color: 0xff0000ff }];
            for src in [
                SrcSpec::Linear { stops: ramp2.clone(), spread: Spr::Pad, p: [1., 1., 7., 5.] },
                SrcSpec::Radial { stops: ramp2.clone(), spread: Spr::Reflect, p: [4., 4., 3.] },
                SrcSpec::TwoCircle { stops: ramp2.clone(), spread: Spr::Pad, p: [4., 4., 1., 4.5, 4., 5.] },
                SrcSpec::Sweep { stops: ramp2.clone(), spread: Spr::Repeat, p: [4., 4., 0., 360.] },
            ] {
                for (alpha, pre) in [(1.0f32, 0), (0.5, 0), (1.0, 1), (1.0, 2)] {
                    let mut ops = vec![Op::SetTransform(t)];
                    match pre {
                        1 => ops.extend([Op::PushLayer(0.5, BlendMode::SrcOver), Op::PopLayer]),
                        2 => ops.extend([Op::PushLayer(1.0, BlendMode::SrcOver), Op::Clear(0), Op::PopLayer]),
                        _ => {}
                    }
                    ops.push(Op::Fill(big.clone(), src.clone(), Opts { mode: BlendMode::Src, alpha, aa: true }));
                    let scene = Scene { w: 24, h: 24, dst: Dst::White, ops };
                    l.states += 1;
                    l.transitions += 2;
                    l.traces += 1;
                    l.evals += 1;
                    match super::c12::eval(&scene) {
                        Ok((h, _, _)) => {
                            l.outcome(h);
                            l.nontrivial += 1;
                        }
                        Err(mut v) => {
                            v.sig = format!("source-in-user-space/{}", v.sig);
                            run.report(6000 + ti, v)
                        }
                    }
                }
            }
        });
        // (vi) clear / pop_layer leave the transform as they found it (step oracle's transform clause)
        let mut ctxs = ctxs;
        ctxs.push((vec![Op::PushClipRect(0, 0, 2, 8), Op::PushClipRect(4, 0, 8, 8)], vec![Op::PopClip, Op::PopClip]));
        ctxs.push((vec![Op::PushClipRect(-9, -9, -2, -2)], vec![Op::PopClip]));
        ctxs.push((vec![Op::PushClipRect(5, 5, 3, 3)], vec![Op::PopClip]));
        run.bound("transform-preserved", "11 transforms x 4 contexts x (clear, layer with clear inside, layer with fill, layers with set_transform between push and pop)".to_string());
        run.par(XFS.len(), |ti, l| {
            for (pre, suf) in &ctxs {
                // the transform in force when a layer is popped is the one set last, also when it was
                // set while the layer was open
                let other: Xf = [0.5, 0.25, -0.25, 0.5, 1.0 + ti as f32, 2.0];
                for body in [
                    vec![Op::Clear(0x80402010)],
                    vec![Op::PushLayer(0.5, BlendMode::Multiply), Op::Clear(0xffffffff), Op::PopLayer],
                    vec![Op::PushLayer(1.0, BlendMode::SrcOver), Op::Fill(PathSpec::rect(1., 1., 3., 3.), white.clone(), Opts::default()), Op::PopLayer],
                    vec![Op::PushLayer(1.0, BlendMode::SrcOver), Op::SetTransform(other), Op::Fill(PathSpec::rect(1., 1., 3., 3.), white.clone(), Opts::default()), Op::PopLayer, Op::Fill(PathSpec::rect(0., 0., 3., 3.), half.clone(), Opts::default())],
                    vec![Op::PushLayer(0.5, BlendMode::SrcOver), Op::SetTransform(other), Op::PopLayer, Op::Clear(0x80402010)],
                    vec![Op::PushLayer(0.5, BlendMode::SrcOver), Op::PushLayer(0.5, BlendMode::SrcOver), Op::SetTransform(other), Op::PopLayer, Op::SetTransform(IDENT), Op::PopLayer],
                ] {
                    let mut ops = vec![Op::SetTransform(XFS[ti])];
                    ops.extend(pre.iter().cloned());
                    ops.extend(body.into_iter());
                    ops.extend(suf.iter().cloned());
                    let scene = Scene { w: S, h: S, dst: Dst::Distinct, ops };
                    l.states += scene.ops.len() as u64;
                    l.transitions += scene.ops.len() as u64;
                    l.traces += 1;
                    l.evals += 1;
                    match run_scene("C11", &scene, owns_state, &|_, _, _| None) {
                        Ok(st) => {
                            l.outcome(st.hash);
                            l.nontrivial += 1;
                        }
                        Err(v) => run.report(5000 + ti, v),
                    }
                }
            }
        });
    }

    fn replay(&self, case: &str) -> Result<Option<Violation>, String> {
        if case.contains("||") {
            let (a, b) = parse_scene_pair(case)?;
            let tol = if a.ops.iter().any(|o| matches!(o, Op::Stroke(..))) { 17 } else { 0 };
            Ok(diff_scenes_tol("replay", &a, &b, tol).err())
        } else {
            let scene = parse_scene(case)?;
            // curved strokes under a scale
            let mut xf0 = IDENT;
            for op in &scene.ops {
                match op {
                    Op::SetTransform(t) => xf0 = *t,
                    Op::Stroke(p, st, _, _) if scene.ops.len() <= 2 => {
                        return Ok(super::c04::eval_with(p, st, &xf0, true).err().map(|mut v| {
                            v.sig = format!("stroke-is-image-of-user-space-stroke/{}", v.sig);
                            v
                        }))
                    }
                    _ => {}
                }
            }
            // source clauses: the scene ends in a fill with an image / gradient source
            let src_kind = match scene.ops.last() {
                Some(Op::Fill(_, s, _)) => Some(s.clone()),
                _ => None,
            };
            let _ = scene.ops.len();
            if matches!(scene.ops.last(), Some(Op::DrawImageAt(..)) | Some(Op::DrawImageSize(..))) {
                return Ok(super::c13::eval(&scene).err().map(|mut v| {
                    v.sig = format!("source-in-user-space/{}", v.sig);
                    v
                }));
            }
            match src_kind {
                Some(SrcSpec::Image { .. }) => Ok(super::c13::eval(&scene).err().map(|mut v| {
                    v.sig = format!("source-in-user-space/{}", v.sig);
                    v
                })),
                Some(s) if s.is_gradient() => Ok(super::c12::eval(&scene).err().map(|mut v| {
                    v.sig = format!("source-in-user-space/{}", v.sig);
                    v
                })),
                _ => Ok(run_scene("C11", &scene, owns_state, &|_, _, _| None).err()),
            }
        }
    }
}
