//! C14 Optimised paths give the same pixels as the general path (differential, bit-exact).

use super::c03::image_of;
use super::common::*;
use crate::engine::*;
use crate::scene::*;
use raqote::BlendMode;

pub struct C14;

fn sources(q: bool) -> Vec<SrcSpec> {
    let ramp = vec![Stop { pos: 0.0, color: 0xffff0000 }, Stop { pos: 1.0, color: 0x400000ff }];
    let mut v = vec![
        SrcSpec::Solid(0xffffffff),
        SrcSpec::Solid(0x80002040),
        SrcSpec::Image { w: 3, h: 2, data: image_of(3, 2, &VALS12, 1), repeat: false, bilinear: false, xf: [1., 0., 0., 1., -1., 0.] },
        SrcSpec::Image { w: 2, h: 2, data: image_of(2, 2, &VALS12, 6), repeat: true, bilinear: true, xf: [0.75, 0., 0., 1.5, 0.25, 0.5] },
        SrcSpec::Linear { stops: ramp.clone(), spread: Spr::Pad, p: [0., 0., 4., 3.] },
        SrcSpec::Radial { stops: ramp.clone(), spread: Spr::Reflect, p: [1.5, 1.5, 2.] },
        // gradients given by a raw matrix that is not a rotation times a scale (t depends on y though
        // m12 is zero), and a two-circle gradient with opaque stops that is undefined (transparent)
        // on part of the surface
        SrcSpec::LinearRaw { stops: ramp.clone(), spread: Spr::Pad, xf: [0.25, 0., 0.25, 0.25, 0., 0.] },
        SrcSpec::LinearRaw { stops: vec![Stop { pos: 0.0, color: 0xff000000 }, Stop { pos: 1.0, color: 0xffffffff }], spread: Spr::Repeat, xf: [0., 0., 0.5, 1., 0., 0.] },
        SrcSpec::TwoCircle { stops: vec![Stop { pos: 0.0, color: 0xffff0000 }, Stop { pos: 1.0, color: 0xff0000ff }], spread: Spr::Pad, p: [1.0, 1.5, 0.5, 3.0, 1.5, 1.0] },
    ];
    if !q {
        v.push(SrcSpec::Solid(0x00000000));
        v.push(SrcSpec::Solid(0x01010101));
        v.push(SrcSpec::Image { w: 1, h: 1, data: vec![0xfe7f00fe], repeat: false, bilinear: true, xf: IDENT });
        v.push(SrcSpec::Image { w: 3, h: 2, data: image_of(3, 2, &VALS12, 2), repeat: true, bilinear: false, xf: [0., 1., -1., 0., 2., 0.] });
        v.push(SrcSpec::TwoCircle { stops: ramp.clone(), spread: Spr::Pad, p: [1.5, 1.5, 0.5, 2., 1.5, 2.5] });
        v.push(SrcSpec::Sweep { stops: ramp, spread: Spr::Repeat, p: [2., 1., 0., 360.] });
    }
    v
}

fn cover_clip(w: i32, h: i32) -> Op {
    Op::PushClipRect(0, 0, w, h)
}

fn one(run: &Run, shard: usize, l: &mut Local, sig: &str, a: Scene, b: Scene, sample: bool) {
    l.states += 2;
    l.transitions += (a.ops.len() + b.ops.len()) as u64;
    l.traces += 1;
    l.evals += 1;
    if sample {
        run.sample(format!("{} || {}", a, b));
    }
    match diff_scenes(sig, &a, &b) {
        Ok((h, changed)) => {
            l.outcome(h);
            if changed {
                l.nontrivial += 1;
            }
        }
        Err(v) => run.report(shard, v),
    }
}

impl Check for C14 {
    fn id(&self) -> &'static str {
        "C14"
    }
    fn title(&self) -> &'static str {
        "Optimised paths give the same pixels as the general path"
    }

    fn run(&self, run: &Run) {
        let q = run.tier.quick();
        run.rule("pairs of scenes the property declares equivalent (fast route vs general route) are executed on identical initial contents and must give bit-identical surfaces; every integer rectangle of the stated range x mode x source x alpha x destination is enumerated; non-trivial = the draw changed at least one pixel");
        let surfaces: Vec<(i32, i32)> = if q { vec![(4, 3)] } else { vec![(4, 3), (3, 4)] };
        let modes: Vec<BlendMode> = if q { vec![BlendMode::Src, BlendMode::Clear, BlendMode::SrcOver, BlendMode::SrcIn, BlendMode::DstIn, BlendMode::SrcOut, BlendMode::DstAtop, BlendMode::Multiply] } else { MODES.to_vec() };
        let srcs = sources(q);
        let alphas: Vec<f32> = if q { vec![0.0, 0.5, 1.0] } else { vec![0.0, 0.25, 0.5, 1.0] };
        for (w, h) in surfaces {
            let mut rects = Vec::new();
            for x in -2..=w + 2 {
                for y in -2..=h + 2 {
                    for rw in -2..=w + 3 {
                        for rh in -2..=h + 3 {
                            rects.push((x, y, rw, rh));
                        }
                    }
                }
            }
            run.bound(&format!("fill_rect {}x{}", w, h), format!("{} integer rectangles x {} modes x {} sources x {} alphas x 2 destinations x 2 equivalences (vs PathBuilder::rect fill; vs same call under a surface-covering clip rect)", rects.len(), modes.len(), srcs.len(), alphas.len()));
            run.par(modes.len() * srcs.len(), |si, l| {
                let mode = modes[si / srcs.len()];
                let src = &srcs[si % srcs.len()];
                for &alpha in &alphas {
                    let o = Opts { mode, alpha, aa: true };
                    for (ri, &(x, y, rw, rh)) in rects.iter().enumerate() {
                        for dst in [Dst::White, Dst::Distinct] {
                            let fast = Op::FillRect(x as f32, y as f32, rw as f32, rh as f32, src.clone(), o);
                            let general = Op::Fill(PathSpec::rect(x as f32, y as f32, rw as f32, rh as f32), src.clone(), o);
                            let a = Scene { w, h, dst: dst.clone(), ops: vec![fast.clone()] };
                            let b = Scene { w, h, dst: dst.clone(), ops: vec![general] };
                            one(run, si, l, "fill_rect-vs-path-fill", a.clone(), b, si == 9 && ri == 1234 && alpha == 0.5);
                            let c = Scene { w, h, dst: dst.clone(), ops: vec![cover_clip(w, h), fast.clone(), Op::PopClip] };
                            one(run, si, l, "fill_rect-vs-under-covering-clip", a, c, false);
                            // antialiasing off: the fast route does not depend on it, the general route
                            // goes through the aliased mask blitter; on integer rectangles both agree
                            if ri % 3 == si % 3 {
                                let on = Opts { aa: false, ..o };
                                let fast_n = Op::FillRect(x as f32, y as f32, rw as f32, rh as f32, src.clone(), on);
                                let general_n = Op::Fill(PathSpec::rect(x as f32, y as f32, rw as f32, rh as f32), src.clone(), on);
                                one(run, si, l, "fill_rect-vs-path-fill-aliased", Scene { w, h, dst: dst.clone(), ops: vec![fast_n.clone()] }, Scene { w, h, dst: dst.clone(), ops: vec![general_n] }, false);
                                one(run, si, l, "fill_rect-vs-under-covering-clip-aliased", Scene { w, h, dst: dst.clone(), ops: vec![fast_n.clone()] }, Scene { w, h, dst: dst.clone(), ops: vec![cover_clip(w, h), fast_n, Op::PopClip] }, false);
                            }
                            // on a target made by from_backing (the surface is not square: whatever the
                            // constructor hands on with width and height exchanged shows)
                            if ri % 5 == si % 5 {
                                let bd = Dst::Backing(Box::new(dst.clone()));
                                let general_b = Op::Fill(PathSpec::rect(x as f32, y as f32, rw as f32, rh as f32), src.clone(), o);
                                one(run, si, l, "fill_rect-vs-path-fill-from_backing", Scene { w, h, dst: bd.clone(), ops: vec![fast.clone()] }, Scene { w, h, dst: bd.clone(), ops: vec![general_b] }, false);
                                one(run, si, l, "fill_rect-vs-under-covering-clip-from_backing", Scene { w, h, dst: bd.clone(), ops: vec![fast.clone()] }, Scene { w, h, dst: bd, ops: vec![cover_clip(w, h), fast.clone(), Op::PopClip] }, false);
                            }
                            // the same equivalence while drawing into a layer: a full-size one, and one
                            // narrower than the surface whose outer clip has been popped again ("no clip")
                            if ri % 7 == (si % 7) {
                                let general2 = Op::Fill(PathSpec::rect(x as f32, y as f32, rw as f32, rh as f32), src.clone(), o);
                                for pre in [vec![Op::PushLayer(0.5, BlendMode::SrcOver)], vec![Op::PushClipRect(1, 0, w, h - 1), Op::PushLayer(1.0, BlendMode::SrcOver), Op::PopClip], vec![Op::PushClipRect(0, 1, w - 1, h), Op::PushLayer(1.0, BlendMode::SrcOver), Op::PopClip], vec![Op::PushClipRect(1, 2, w, h), Op::PushLayer(0.75, BlendMode::SrcOver), Op::PopClip]] {
                                    let mut oa = pre.clone();
                                    oa.push(fast.clone());
                                    oa.push(Op::PopLayer);
                                    let mut ob = pre.clone();
                                    ob.push(general2.clone());
                                    ob.push(Op::PopLayer);
                                    one(run, si, l, "fill_rect-vs-path-fill-inside-layer", Scene { w, h, dst: dst.clone(), ops: oa }, Scene { w, h, dst: dst.clone(), ops: ob }, false);
                                }
                            }
                        }
                    }
                    if run.expired() {
                        return;
                    }
                }
            });
            // (the degenerate surfaces follow the loop)
            // rectangles wholly off the surface whose y does not fit an i32 (every float that large is
            // integer-valued, but it is not an integer rectangle the fast route can take)
            {
                let far: Vec<(f32, f32, f32, f32)> = vec![(1., 3e9, 2., 2.), (1., -3e9, 2., 2.), (0., 2147483648.0, 3., 1.), (0., -2147483904.0, 3., 1.), (1., 1e12, 2., 2.), (-1., 4294967296.0, 2., 3.), (0., -2147483648.0, 3., -2.), (0., 2147483520.0, 3., 200.), (0., -2147483520.0, 3., -200.)];
                run.bound(&format!("fill_rect beyond the i32 range {}x{}", w, h), format!("{} rectangles with |y| at or beyond 2^31 (the last f32 below it included, with a height that carries the far edge over it) x {} modes x 2 sources x 2 destinations x 2 equivalences", far.len(), modes.len()));
                run.par(modes.len(), |mi, l| {
                    for src in srcs.iter().take(2) {
                        for &(x, y, rw, rh) in &far {
                            for dst in [Dst::White, Dst::Distinct] {
                                let o = Opts { mode: modes[mi], alpha: 1.0, aa: true };
                                let fast = Op::FillRect(x, y, rw, rh, src.clone(), o);
                                let general = Op::Fill(PathSpec::rect(x, y, rw, rh), src.clone(), o);
                                let a = Scene { w, h, dst: dst.clone(), ops: vec![fast.clone()] };
                                one(run, 700 + mi, l, "fill_rect-vs-path-fill", a.clone(), Scene { w, h, dst: dst.clone(), ops: vec![general] }, false);
                                one(run, 700 + mi, l, "fill_rect-vs-under-covering-clip", a, Scene { w, h, dst: dst.clone(), ops: vec![cover_clip(w, h), fast, Op::PopClip] }, false);
                            }
                        }
                    }
                });
            }

            // clear(c) with empty clip stack vs under a surface-covering clip; also inside a layer
            run.bound(&format!("clear {}x{}", w, h), "clear(c) for 16 colours x 2 destinations: empty clip stack vs surface-covering clip rect".to_string());
            run.par(DISTINCT16.len(), |ci, l| {
                for dst in [Dst::White, Dst::Distinct, Dst::Zero] {
                    let a = Scene { w, h, dst: dst.clone(), ops: vec![Op::Clear(DISTINCT16[ci])] };
                    let b = Scene { w, h, dst: dst.clone(), ops: vec![cover_clip(w, h), Op::Clear(DISTINCT16[ci]), Op::PopClip] };
                    one(run, 5000 + ci, l, "clear-vs-under-covering-clip", a.clone(), b, ci == 3);
                    // covering clips far larger than the surface
                    for (x0, y0, x1, y1) in [(-5, -5, w + 5, h + 5), (0, 0, 32768, h), (-32769, 0, w, h + 1), (-40000, -40000, 40000, 40000), (0, 0, 1 << 29, 1 << 29), (i32::MIN, i32::MIN, i32::MAX, i32::MAX)] {
                        let big = Scene { w, h, dst: dst.clone(), ops: vec![Op::PushClipRect(x0, y0, x1, y1), Op::Clear(DISTINCT16[ci]), Op::PopClip] };
                        one(run, 5000 + ci, l, "clear-vs-under-covering-clip", a.clone(), big, false);
                    }
                    // with a non-identity transform set (clear ignores it on both routes)
                    let a2 = Scene { w, h, dst: dst.clone(), ops: vec![Op::SetTransform([2., 0., 0., 2., 1., 1.]), Op::Clear(DISTINCT16[ci])] };
                    let b2 = Scene { w, h, dst: dst.clone(), ops: vec![Op::SetTransform([2., 0., 0., 2., 1., 1.]), cover_clip(w, h), Op::Clear(DISTINCT16[ci]), Op::PopClip] };
                    one(run, 5000 + ci, l, "clear-vs-under-covering-clip", a2, b2, false);
                }
            });

            // draw_image_at(ix, iy) vs fill_rect with the translated image source
            let img = image_of(3, 2, &VALS12, 3);
            run.bound(&format!("draw_image_at {}x{}", w, h), format!("draw_image_at at every integer position in [-4,{}]x[-3,{}] x {} modes x {} alphas x 2 destinations vs fill_rect with the translated image source", w + 1, h + 1, modes.len(), alphas.len()));
            run.par(modes.len(), |mi, l| {
                for &alpha in &alphas {
                    let o = Opts { mode: modes[mi], alpha, aa: true };
                    for x in -4..=w + 1 {
                        for y in -3..=h + 1 {
                            for dst in [Dst::White, Dst::Distinct] {
                                let a = Scene { w, h, dst: dst.clone(), ops: vec![Op::DrawImageAt(x as f32, y as f32, 3, 2, img.clone(), o)] };
                                let s = SrcSpec::Image { w: 3, h: 2, data: img.clone(), repeat: false, bilinear: true, xf: [1., 0., 0., 1., -(x as f32), -(y as f32)] };
                                let b = Scene { w, h, dst: dst.clone(), ops: vec![Op::FillRect(x as f32, y as f32, 3., 2., s.clone(), o)] };
                                one(run, 6000 + mi, l, "draw_image_at-vs-fill_rect", a.clone(), b, mi == 1 && x == 1 && y == 1 && alpha == 1.0);
                                let c = Scene { w, h, dst: dst.clone(), ops: vec![Op::Fill(PathSpec::rect(x as f32, y as f32, 3., 2.), s, o)] };
                                one(run, 6000 + mi, l, "draw_image_at-vs-path-fill", a, c, false);
                            }
                        }
                    }
                }
            });
        }

        // draw_image_at under a non-identity current transform: still "the rectangle filled with
        // the translated image source" (the source draw_image_at itself builds: Pad, Bilinear)
        {
            let (w, h) = (8, 7);
            let img = image_of(3, 2, &VALS12, 3);
            // the last four: the user-space position lies off the surface (beyond it, or negative) while
            // the image lands on it
            let xfs: Vec<Xf> = vec![[1., 0., 0., 1., 0.5, 0.], [1., 0., 0., 1., 0.25, 0.75], [2., 0., 0., 2., 0., 0.], [1.5, 0., 0., 0.75, 0.5, 1.], [0.8660254, 0.5, -0.5, 0.8660254, 3., 0.], [0., 1., -1., 0., 7., 0.], [1., 0.5, 0., 1., 0., 0.], [1., 0., 0., 1., -10., -9.], [1., 0., 0., 1., 9., 8.], [0.5, 0., 0., 0.5, -4., -4.], [1., 0., 0., 1., 0., -7.]];
            let shifts: Vec<(i32, i32)> = vec![(0, 0), (0, 0), (0, 0), (0, 0), (0, 0), (0, 0), (0, 0), (10, 9), (-9, -8), (10, 9), (0, 7)];
            run.bound("draw_image_at under a transform", format!("draw_image_at at 5x4 integer positions under {} current transforms (four of them with the user-space position off the surface while the image lands on it) x 3 modes x 2 alphas vs fill_rect / path fill of the rectangle with the translated Pad+Bilinear image source", xfs.len()));
            run.par(xfs.len(), |ti, l| {
                for mode in [BlendMode::SrcOver, BlendMode::Src, BlendMode::Xor] {
                    for alpha in [1.0f32, 0.5] {
                        let o = Opts { mode, alpha, aa: true };
                        for x in -1 + shifts[ti].0..=3 + shifts[ti].0 {
                            for y in -1 + shifts[ti].1..=2 + shifts[ti].1 {
                                let a = Scene { w, h, dst: Dst::Distinct, ops: vec![Op::SetTransform(xfs[ti]), Op::DrawImageAt(x as f32, y as f32, 3, 2, img.clone(), o)] };
                                let s = SrcSpec::Image { w: 3, h: 2, data: img.clone(), repeat: false, bilinear: true, xf: [1., 0., 0., 1., -(x as f32), -(y as f32)] };
                                let b = Scene { w, h, dst: Dst::Distinct, ops: vec![Op::SetTransform(xfs[ti]), Op::FillRect(x as f32, y as f32, 3., 2., s.clone(), o)] };
                                one(run, 8000 + ti, l, "draw_image_at-vs-fill_rect-under-transform", a.clone(), b, false);
                                let c = Scene { w, h, dst: Dst::Distinct, ops: vec![Op::SetTransform(xfs[ti]), Op::Fill(PathSpec::rect(x as f32, y as f32, 3., 2.), s, o)] };
                                one(run, 8000 + ti, l, "draw_image_at-vs-path-fill-under-transform", a, c, false);
                            }
                        }
                    }
                }
            });
        }

        // long strips: spans beyond 1024 / 2048 / 8192 pixels with sources that vary along them
        {
            let ramp = vec![Stop { pos: 0.0, color: 0xffff0000 }, Stop { pos: 0.5, color: 0xff00ff00 }, Stop { pos: 1.0, color: 0x400000ff }];
        // surfaces with columns but no rows, rows but no columns, neither: every route draws nothing
        // and returns
        {
            let degenerate: Vec<(i32, i32)> = vec![(5, 0), (0, 4), (0, 0), (1, 0)];
            run.bound("surfaces without rows or columns", format!("{:?} x integer rectangles straddling the origin x {} modes x 2 sources: fill_rect vs path fill vs under a covering clip; clear vs clear under a covering clip", degenerate, modes.len()));
            run.par(degenerate.len() * modes.len(), |s, l| {
                let (w, h) = degenerate[s / modes.len()];
                let mode = modes[s % modes.len()];
                for src in srcs.iter().take(2) {
                    for &(x, y, rw, rh) in &[(1, -2, 4, 6), (-2, 1, 6, 2), (-1, -1, 3, 3), (0, 0, 5, 4), (0, 0, 1, 1)] {
                        let o = Opts { mode, alpha: 1.0, aa: true };
                        let fast = Op::FillRect(x as f32, y as f32, rw as f32, rh as f32, src.clone(), o);
                        let general = Op::Fill(PathSpec::rect(x as f32, y as f32, rw as f32, rh as f32), src.clone(), o);
                        let a = Scene { w, h, dst: Dst::Zero, ops: vec![fast.clone()] };
                        one(run, 800 + s, l, "fill_rect-vs-path-fill", a.clone(), Scene { w, h, dst: Dst::Zero, ops: vec![general] }, false);
                        one(run, 800 + s, l, "fill_rect-vs-under-covering-clip", a, Scene { w, h, dst: Dst::Zero, ops: vec![cover_clip(w, h), fast, Op::PopClip] }, false);
                    }
                }
                let a = Scene { w, h, dst: Dst::Zero, ops: vec![Op::Clear(0xff204060)] };
                let b = Scene { w, h, dst: Dst::Zero, ops: vec![cover_clip(w, h), Op::Clear(0xff204060), Op::PopClip] };
                one(run, 800 + s, l, "clear-vs-under-covering-clip", a, b, false);
            });
        }
            run.bound("long strips", "8200x2 and 2x8200: full-length and far-end integer fill_rects with a linear gradient along the strip, a repeating 251-texel image and a solid, x 3 modes x 2 alphas (vs path fill, vs covering clip); draw_image_at of an 8100-texel image".to_string());
            run.par(2 * 3, |i, l| {
                let tall = i % 2 == 1;
                let mode = [BlendMode::SrcOver, BlendMode::Src, BlendMode::DstIn][i / 2];
                let len = 8200;
                let (w, h) = if tall { (2, len) } else { (len, 2) };
                let t = |x: f32, y: f32| if tall { (y, x) } else { (x, y) };
                let ti = |x: i32, y: i32| if tall { (y, x) } else { (x, y) };
                let texels: Vec<u32> = (0..251u32).map(|k| 0xff000000 | (k << 16) | ((250 - k) << 8) | ((k * 7) & 0xff)).collect();
                let (g0, g1) = (t(0., 0.), t(len as f32, 0.));
                let (iw, ih) = ti(251, 1);
                let srcs = vec![
                    SrcSpec::Linear { stops: ramp.clone(), spread: Spr::Pad, p: [g0.0, g0.1, g1.0, g1.1] },
                    SrcSpec::Image { w: iw, h: ih, data: texels.clone(), repeat: true, bilinear: false, xf: IDENT },
                    SrcSpec::Solid(0x80002040),
                ];
                for alpha in [1.0f32, 0.5] {
                    let o = Opts { mode, alpha, aa: true };
                    for src in &srcs {
                        for (a0, a1) in [(0, len), (3, len - 7), (len - 40, 35), (1020, 1030)] {
                            let (x, y) = t(a0 as f32, 0.);
                            let (rw, rh) = t(a1 as f32, 2.);
                            let fast = Op::FillRect(x, y, rw, rh, src.clone(), o);
                            let general = Op::Fill(PathSpec::rect(x, y, rw, rh), src.clone(), o);
                            let a = Scene { w, h, dst: Dst::White, ops: vec![fast.clone()] };
                            one(run, 9000 + i, l, "fill_rect-vs-path-fill", a.clone(), Scene { w, h, dst: Dst::White, ops: vec![general] }, false);
                            one(run, 9000 + i, l, "fill_rect-vs-under-covering-clip", a, Scene { w, h, dst: Dst::White, ops: vec![cover_clip(w, h), fast, Op::PopClip] }, false);
                        }
                    }
                    // a long image drawn at an integer position
                    let (lw, lh) = ti(8100, 1);
                    let data: Vec<u32> = (0..8100u32).map(|k| texels[(k % 251) as usize]).collect();
                    let (px, py) = t(50., 1.);
                    let a = Scene { w, h, dst: Dst::White, ops: vec![Op::DrawImageAt(px, py, lw, lh, data.clone(), o)] };
                    let s = SrcSpec::Image { w: lw, h: lh, data, repeat: false, bilinear: true, xf: [1., 0., 0., 1., -px, -py] };
                    let b = Scene { w, h, dst: Dst::White, ops: vec![Op::FillRect(px, py, lw as f32, lh as f32, s.clone(), o)] };
                    one(run, 9000 + i, l, "draw_image_at-vs-fill_rect", a.clone(), b, false);
                    let c = Scene { w, h, dst: Dst::White, ops: vec![Op::Fill(PathSpec::rect(px, py, lw as f32, lh as f32), s, o)] };
                    one(run, 9000 + i, l, "draw_image_at-vs-path-fill", a, c, false);
                }
            });
        }
    }

    fn replay(&self, case: &str) -> Result<Option<Violation>, String> {
        let (a, b) = parse_scene_pair(case)?;
        Ok(diff_scenes("replay", &a, &b).err())
    }
}
