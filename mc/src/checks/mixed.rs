//! Cross-feature history exploration shared by C02, C03, C05 and C06: all call sequences up
//! to a depth bound over one mixed alphabet (draws of every kind, clip rect / clip path pushes
//! and pops, layers with different blends, transforms), auto-closed, on a fresh 6x5 target.
//! Every transition is checked by the step oracle under the *model's* clip (M-CLIP, tracked
//! from the history); each owning check reports only its own violation kinds, C06 additionally
//! compares the final surface with the isolated-surface machine.

use super::c03::image_of;
use super::common::*;
use crate::engine::*;
use crate::model::clip::ClipModel;
use crate::model::layer::Machine;
use crate::model::step::*;
use crate::scene::*;
use raqote::BlendMode;

pub const W: i32 = 6;
pub const H: i32 = 5;

pub fn alphabet() -> Vec<Op> {
    let (wf, hf) = (W as f32, H as f32);
    let tri = PathSpec::poly(&[(0.25, 0.5), (wf - 0.25, 0.0), (wf * 0.5, hf - 0.25)]);
    let ring = PathSpec { evenodd: true, ops: [PathSpec::rect(0.5, 0.25, wf - 1.0, hf - 0.75).ops, PathSpec::rect(2.0, 1.5, 2.25, 1.75).ops].concat() };
    let img = image_of(3, 2, &VALS12, 5);
    vec![
        Op::Fill(tri.clone(), SrcSpec::Solid(0x80402010), Opts::default()),
        Op::Fill(PathSpec::poly(&[(wf, hf), (0.0, hf - 0.5), (wf - 1.25, 0.5)]), SrcSpec::Solid(0xff204080), Opts { mode: BlendMode::Src, alpha: 1.0, aa: true }),
        Op::FillRect(1., 1., 3., 3., SrcSpec::Image { w: 3, h: 2, data: img.clone(), repeat: true, bilinear: false, xf: [1., 0., 0., 1., -1., 0.] }, Opts { mode: BlendMode::Xor, alpha: 0.5, aa: true }),
        Op::FillRect(0.5, 0.75, 4.25, 3.0, SrcSpec::Solid(0xfe00fe7f), Opts { mode: BlendMode::Multiply, alpha: 1.0, aa: true }),
        Op::FillRect(0., 0., wf, hf, SrcSpec::Solid(0x40400020), Opts { mode: BlendMode::DstOut, alpha: 1.0, aa: false }),
        Op::Clear(0x80008080),
        Op::Mask(1, 1, 3, 2, vec![255, 128, 1, 0, 64, 255], SrcSpec::Solid(0xffffff00)),
        Op::DrawImageAt(2., 1., 3, 2, img, Opts { mode: BlendMode::SrcOver, alpha: 0.75, aa: true }),
        Op::Stroke(PathSpec::new(vec![POp::M(0.5, 0.5), POp::L(wf - 0.5, hf - 1.0), POp::L(0.75, hf - 0.5)]), StyleSpec { width: 1.25, cap: 1, join: 1, miter: 4., dash: vec![], offset: 0. }, SrcSpec::Solid(0xff00ff00), Opts { mode: BlendMode::SrcAtop, alpha: 1.0, aa: true }),
        Op::PushClipRect(1, 0, 5, 4),
        Op::PushClipRect(0, 1, 4, 5),
        // inverted: an empty clip (everything under it, layers included, is a no-op)
        Op::PushClipRect(5, 4, 1, 1),
        Op::PushClip(tri),
        Op::PushClip(ring.clone()),
        // the same ops under the other winding rule (anything keyed on the ops alone shows), a
        // path that covers the whole surface (an inner clip that clips nothing), and a clip
        // rectangle lying beside the surface on one axis only
        Op::PushClip(PathSpec { evenodd: false, ops: ring.ops.clone() }),
        Op::PushClip(PathSpec::rect(-2.0, -1.0, wf + 4.0, hf + 3.0)),
        Op::PushClipRect(W + 1, 1, W + 5, 4),
        Op::PopClip,
        Op::PushLayer(0.5, BlendMode::SrcOver),
        Op::PushLayer(1.0, BlendMode::Multiply),
        Op::PushLayer(0.75, BlendMode::Src),
        Op::PushLayer(0.0, BlendMode::SrcOver),
        Op::PopLayer,
        Op::SetTransform(IDENT),
        Op::SetTransform([1., 0., 0., 1., 0.5, 0.25]),
        Op::SetTransform([1.5, 0., 0., 1.5, -1., -1.]),
        // singular: draws under it paint nothing; pops and clear are unaffected
        Op::SetTransform([0., 0., 0., 1., 0., 0.]),
    ]
}

fn depths(seq: &[Op]) -> (i32, i32) {
    let (mut c, mut l) = (0, 0);
    for op in seq {
        match op {
            Op::PushClip(_) | Op::PushClipRect(..) => c += 1,
            Op::PopClip => c -= 1,
            Op::PushLayer(..) => l += 1,
            Op::PopLayer => l -= 1,
            _ => {}
        }
    }
    (c, l)
}

fn enabled(seq: &[Op], op: &Op) -> bool {
    let (c, l) = depths(seq);
    match op {
        Op::PopClip => c > 0,
        Op::PopLayer => l > 0,
        Op::PushLayer(..) => l < 2,
        Op::PushClip(_) | Op::PushClipRect(..) => c < 3,
        // consecutive transforms add nothing
        Op::SetTransform(_) => !matches!(seq.last(), Some(Op::SetTransform(_))),
        _ => true,
    }
}

fn closed(seq: &[Op]) -> Vec<Op> {
    let (c, l) = depths(seq);
    let mut ops = seq.to_vec();
    for _ in 0..l {
        ops.push(Op::PopLayer);
    }
    for _ in 0..c {
        ops.push(Op::PopClip);
    }
    ops
}

/// run one closed scene: step oracle on every transition under the model's clip; Err = first
/// violation owned by the caller
pub fn eval_mixed<F: Fn(&StepViolation) -> bool>(scene: &Scene, owns: &F, isolated: bool) -> Result<SceneStats, Violation> {
    let mut st = SceneStats::default();
    let mut dt = scene.target();
    let mut clip = ClipModel::default();
    let mut xf = IDENT;
    for (i, op) in scene.ops.iter().enumerate() {
        st.steps += 1;
        let eff = match clip.effective(scene.w, scene.h) {
            Ok(e) => e,
            Err(p) => return Err(Violation::new("model/reference-render-panicked", scene.to_string(), p)),
        };
        let lenient = eff.cov.as_ref().map_or(false, |c| c.iter().any(|x| x.len() > 1));
        let ov: ([i32; 4], Option<&[u8]>) = (eff.rect, eff.mask.as_deref());
        match exec_checked(&mut dt, op, Some(ov)) {
            Ok((_, s)) => {
                st.checked += s.checked;
                st.undecided += s.undecided;
                st.partial += s.partial;
            }
            Err(v) => {
                // candidates: the first violation in scan order, then the first of every other
                // category of the same step; value clauses are not judged under a lenient clip
                let mut cands = vec![v];
                cands.extend(take_others());
                cands.retain(|o| !(lenient && o.kind == Kind::WrongValue));
                if cands.is_empty() {
                    st.foreign = true;
                    return Ok(st);
                }
                let v = cands.iter().find(|o| owns(o)).cloned().unwrap_or_else(|| cands[0].clone());
                if owns(&v) {
                    return Err(Violation::new(format!("mixed/{}/{}", prop_kind(&v.kind), v.clause), scene.to_string(), format!("step {} ({}) under the model's clip (rect {:?}, {}): {}\n{}", i, op.kind(), eff.rect, if eff.mask.is_some() { "path coverage product" } else { "no path" }, v.clause, v.detail)));
                }
                st.foreign = true;
                // a violation that belongs to another property: after a panic the target is in no
                // defined state and the scene ends; otherwise the history goes on under the model's
                // clip (what was pushed, not what the implementation kept), so that what follows
                // from it for this property is still seen
                if cands.iter().any(|o| o.kind == Kind::Panic) {
                    if !isolated {
                        return Ok(st);
                    }
                    break;
                }
            }
        }
        match op {
            Op::SetTransform(t) => xf = *t,
            Op::PushClip(_) | Op::PushClipRect(..) => clip.push(op, &xf),
            Op::PopClip => clip.pop(),
            _ => {}
        }
    }
    st.hash = hash64(&dt.get_data().to_vec());
    if isolated {
        let got = match render(scene) {
            Ok(g) => g,
            Err(p) => {
                if is_dependency_panic(&p) {
                    return Ok(st);
                }
                return Err(Violation::new("mixed/scene/panic", scene.to_string(), p));
            }
        };
        match Machine::run(scene.w, scene.h, scene.dst.pixels(scene.w, scene.h), &scene.ops) {
            Ok(r) => {
                for i in 0..got.len() {
                    if !r.undecided[i] && got[i] != r.main[i] && got[i] != r.alt[i] {
                        return Err(Violation::new("mixed/isolated-surface/final-pixels-differ", scene.to_string(), format!("pixel ({},{}): implementation {:#010x}, isolated-surface reference {:#010x} (alt {:#010x})", i as i32 % scene.w, i as i32 / scene.w, got[i], r.main[i], r.alt[i])));
                    }
                }
            }
            Err(p) => {
                if !is_dependency_panic(&p) {
                    return Err(Violation::new("mixed/model/reference-machine-failed", scene.to_string(), p));
                }
            }
        }
    }
    Ok(st)
}

/// all sequences of length 1..=depth over the mixed alphabet, auto-closed
pub fn explore_mixed<F: Fn(&StepViolation) -> bool + Sync>(run: &Run, prop: &str, owns: F, depth: usize, isolated: bool) {
    explore_alpha(run, prop, "mixed histories", alphabet(), owns, depth, isolated, Dst::Distinct)
}

/// a small alphabet in which clips pushed inside a layer may outlive it and clips pushed before a
/// layer may be popped inside it (the two stacks are independent), explored deeper
pub fn cross_alphabet() -> Vec<Op> {
    let (wf, hf) = (W as f32, H as f32);
    vec![
        Op::PushClipRect(1, 0, 5, 4),
        Op::PushClipRect(0, 1, 4, 5),
        // a clip rectangle beside the first one on one axis only, and a clip path much smaller than
        // the surface (a layer pushed under it may not be sized by the path's own bounds)
        Op::PushClipRect(5, 0, 6, 5),
        Op::PushClip(PathSpec::rect(1.5, 1.25, 2.5, 2.0)),
        Op::PushClip(PathSpec::poly(&[(0.25, 0.5), (wf - 0.25, 0.0), (wf * 0.5, hf - 0.25)])),
        Op::PopClip,
        Op::PushLayer(1.0, BlendMode::SrcOver),
        Op::PushLayer(1.0, BlendMode::Src),
        Op::PopLayer,
        Op::Clear(0x80008080),
        Op::FillRect(0., 0., wf, hf, SrcSpec::Solid(0xff204080), Opts::default()),
    ]
}

pub fn explore_alpha<F: Fn(&StepViolation) -> bool + Sync>(run: &Run, prop: &str, name: &str, alpha: Vec<Op>, owns: F, depth: usize, isolated: bool, dst: Dst) {
    let na = alpha.len();
    run.bound(name, if name != "mixed histories" { format!("all well-formed call sequences of length 1..={} over {} calls ({}), auto-closed, on {}x{}; step oracle under the model's clip{}", depth, na, alpha.iter().map(|o| o.kind()).collect::<Vec<_>>().join(", "), W, H, if isolated { " + isolated-surface machine" } else { "" }) } else { format!("all well-formed call sequences of length 1..={} (at full length, while no layer is open, the last call is not a clip push or a transform change) over a mixed alphabet of {} calls (9 draws of different kinds / modes / sources, 8 clip pushes (one empty, one beside the surface, one path under both winding rules, one path covering everything), pop_clip, 4 layer pushes (one with opacity 0), pop_layer, 4 transforms (one singular); the two stacks are independent), auto-closed, on {}x{}; step oracle under the model's clip{}", depth, na, W, H, if isolated { " + isolated-surface machine" } else { "" }) });
    let _ = prop;
    run.par(na * na, |s, l| {
        fn rec<F: Fn(&StepViolation) -> bool + Sync>(run: &Run, s: usize, l: &mut Local, alpha: &[Op], seq: &mut Vec<Op>, depth: usize, owns: &F, isolated: bool, dst: &Dst) {
            l.states += 1;
            // only sequences ending in a draw or a pop add a new checked transition pattern; all are run
            let scene = Scene { w: W, h: H, dst: dst.clone(), ops: closed(seq) };
            l.transitions += scene.ops.len() as u64;
            l.traces += 1;
            l.evals += 1;
            match eval_mixed(&scene, owns, isolated) {
                Ok(st) => {
                    l.count("mixed_pixels_checked", st.checked);
                    if st.foreign {
                        l.count("mixed_scenes_stopped_by_foreign_violation", 1);
                    }
                    if st.partial > 0 {
                        l.nontrivial += 1;
                    }
                    l.outcome(st.hash);
                }
                Err(v) => run.report(1_000_000 + s, v),
            }
            if seq.len() == 3 && s == 37 && run.want_sample() {
                run.sample(scene.to_string());
            }
            if seq.len() >= depth || run.expired() {
                return;
            }
            for op in alpha {
                if !enabled(seq, op) {
                    continue;
                }
                // at the depth bound the last call is a draw or a pop: a push or set_transform in
                // last position is followed by the closing pops only and adds no transition that the
                // shorter sequences do not have already
                // (only while no layer is open: the closing pop_layer of an open layer happens *under*
                // that clip or transform, which is a transition of its own; and a layer push in last
                // position is followed by the pop of an empty layer under everything before it)
                if seq.len() + 1 == depth && depth >= 4 && matches!(op, Op::PushClip(_) | Op::PushClipRect(..) | Op::SetTransform(_)) && depths(seq).1 == 0 {
                    continue;
                }
                seq.push(op.clone());
                rec(run, s, l, alpha, seq, depth, owns, isolated, dst);
                seq.pop();
            }
        }
        let (i0, i1) = (s / na, s % na);
        let mut seq: Vec<Op> = Vec::new();
        if !enabled(&seq, &alpha[i0]) {
            return;
        }
        seq.push(alpha[i0].clone());
        if i1 == 0 {
            rec(run, s, l, &alpha, &mut seq, 1, &owns, isolated, &dst);
        }
        if depth < 2 || !enabled(&seq, &alpha[i1]) {
            return;
        }
        seq.push(alpha[i1].clone());
        rec(run, s, l, &alpha, &mut seq, depth, &owns, isolated, &dst);
    });
}
