//! C06 A layer is an isolated group composited once with its opacity and blend mode.
//!
//! Explicit-state exploration of balanced layer scenes. Two oracles on every scene:
//! (i) the single-step oracle on every transition (draws go to the innermost open layer only,
//!     push/pop leave transform and clip stack alone, pop composites the group per M-PIX);
//! (ii) M-LAYER: the final surface equals the one produced by a reference machine that keeps
//!     every layer as a literally separate transparent surface.

use super::common::*;
use crate::engine::*;
use crate::model::layer::Machine;
use crate::model::step::*;
use crate::scene::*;
use raqote::BlendMode;

pub struct C06;

fn owns(v: &StepViolation) -> bool {
    match v.kind {
        Kind::WrongBuffer | Kind::StateChanged => true,
        Kind::Panic => !is_nonsep_overflow(v),
        // pop / push clauses, and any pixel clause of a call that drew into an open layer: between
        // push and pop the layer behaves as a surface of its own under the same transform and clip
        Kind::WrongValue | Kind::OutsideChanged => v.clause.starts_with("pop_layer") || v.clause.starts_with("push_layer") || (v.detail.contains("; open layers ") && !v.detail.contains("; open layers 0")),
        Kind::NotIdle => false,
    }
}

fn classify(_s: &Scene, _i: usize, _v: &StepViolation) -> Option<&'static str> {
    None
}

fn eval(scene: &Scene) -> Result<SceneStats, Violation> {
    // (i) step oracle
    let st = run_scene("C06", scene, owns, &classify)?;
    // (ii) M-LAYER end-to-end
    let got = match render(scene) {
        Ok(g) => g,
        Err(p) => {
            if crate::checks::common::is_dependency_panic(&p) {
                return Ok(st);
            }
            return Err(Violation::new("scene/panic", scene.to_string(), p));
        }
    };
    let reference = match Machine::run(scene.w, scene.h, scene.dst.pixels(scene.w, scene.h), &scene.ops) {
        Ok(r) => r,
        Err(p) => {
            if crate::checks::common::is_dependency_panic(&p) {
                let mut s2 = st;
                s2.foreign = true;
                return Ok(s2);
            }
            return Err(Violation::new("model/reference-machine-failed", scene.to_string(), p));
        }
    };
    for i in 0..got.len() {
        if reference.undecided[i] {
            continue;
        }
        if got[i] != reference.main[i] && got[i] != reference.alt[i] {
            return Err(Violation::new(
                "isolated-surface/final-pixels-differ",
                scene.to_string(),
                format!("pixel ({},{}): implementation {:#010x}, isolated-surface reference {:#010x} (alt {:#010x})\nimplementation: {}\nreference:      {}", i as i32 % scene.w, i as i32 / scene.w, got[i], reference.main[i], reference.alt[i], hexs(&got), hexs(&reference.main)),
            ));
        }
    }
    Ok(st)
}

fn contexts(w: i32, h: i32, quick: bool) -> Vec<(Vec<Op>, Vec<Op>)> {
    let (wf, hf) = (w as f32, h as f32);
    let tri = PathSpec::poly(&[(0.25, 0.0), (wf, 0.5), (0.5, hf)]);
    let mut v = vec![
        (vec![], vec![]),
        (vec![Op::PushClipRect(1, 1, w, h - 1)], vec![Op::PopClip]),
        (vec![Op::PushClip(tri.clone())], vec![Op::PopClip]),
        (vec![Op::PushClipRect(0, 0, 1, h), Op::PushClipRect(2, 0, w, h)], vec![Op::PopClip, Op::PopClip]),
        // a clip rectangle whose area does not fit an i32 (it contains the surface: nothing is clipped)
        (vec![Op::PushClipRect(-50000, -50000, 50000, 50000)], vec![Op::PopClip]),
    ];
    if !quick {
        v.push((vec![Op::PushClipRect(-2, -2, w + 3, h + 2)], vec![Op::PopClip]));
        v.push((vec![Op::PushClipRect(3, 3, 1, 1)], vec![Op::PopClip]));
        v.push((vec![Op::PushClipRect(1, 0, w, h), Op::PushClip(tri)], vec![Op::PopClip, Op::PopClip]));
        v.push((vec![Op::SetTransform([1., 0., 0., 1., 0.5, 0.25])], vec![]));
    }
    v
}

fn inner_alphabet(w: i32, h: i32, quick: bool) -> Vec<Op> {
    let (wf, hf) = (w as f32, h as f32);
    let c1 = SrcSpec::Solid(0xff204080);
    let c2 = SrcSpec::Solid(0x80400020);
    let img = super::c03::image_of(3, 2, &VALS12, 3);
    let so = Opts::default();
    let mut v = vec![
        // two overlapping rects of the same colour: one shared opacity
        Op::Fill(PathSpec::rect(0.5, 0.5, 2.0, 2.0), c2.clone(), so),
        Op::Fill(PathSpec::rect(1.5, 1.0, 2.0, 2.5), c2.clone(), so),
        Op::Fill(PathSpec::poly(&[(0., 0.25), (wf, 0.), (wf * 0.5, hf)]), c1.clone(), so),
        Op::FillRect(1., 1., 2., 2., c1.clone(), Opts { mode: BlendMode::Src, alpha: 1.0, aa: true }),
        Op::FillRect(0., 0., wf, hf, c2.clone(), Opts { mode: BlendMode::Xor, alpha: 0.5, aa: true }),
        Op::Clear(0x80008000),
        Op::Mask(1, 0, 2, 3, vec![255, 128, 64, 255, 0, 1], c1.clone()),
        Op::DrawImageAt(0., 1., 3, 2, img, so),
        Op::Stroke(PathSpec::new(vec![POp::M(0.5, 0.5), POp::L(wf - 0.5, hf - 0.5)]), StyleSpec { width: 1.5, cap: 1, join: 1, miter: 4., dash: vec![], offset: 0. }, c1.clone(), so),
        Op::PushLayer(0.5, BlendMode::SrcOver),
        Op::PushLayer(1.0, BlendMode::Multiply),
        Op::PopLayer,
        Op::PushClipRect(0, 1, w - 1, h),
        Op::PushClip(PathSpec::poly(&[(0.5, 0.25), (wf - 0.25, 1.0), (1.0, hf - 0.5)])),
        Op::PopClip,
        Op::SetTransform([1., 0., 0., 1., 0.5, 0.5]),
    ];
    if !quick {
        v.push(Op::Fill(PathSpec::rect(0., 0., wf, hf), c1.clone(), Opts { mode: BlendMode::Clear, alpha: 1.0, aa: true }));
        v.push(Op::PushLayer(0.0, BlendMode::Src));
        v.push(Op::SetTransform(IDENT));
        v.push(Op::Clear(0));
    }
    v
}

/// raqote keeps two independent stacks; (clips on the clip stack, layers opened inside the outer layer)
fn depths(pre: &[Op], seq: &[Op]) -> (i32, i32) {
    let mut c = 0;
    let mut l = 0;
    for op in pre.iter().chain(seq.iter()) {
        match op {
            Op::PushClip(_) | Op::PushClipRect(..) => c += 1,
            Op::PopClip => c -= 1,
            _ => {}
        }
    }
    for op in seq {
        match op {
            Op::PushLayer(..) => l += 1,
            Op::PopLayer => l -= 1,
            _ => {}
        }
    }
    (c, l)
}

fn enabled(pre: &[Op], seq: &[Op], op: &Op) -> bool {
    let (c, l) = depths(pre, seq);
    match op {
        Op::PopLayer => l > 0,
        // any clip may be popped, also one that was pushed before the layer
        Op::PopClip => c > 0,
        Op::PushLayer(..) => l < 2,
        Op::PushClip(_) | Op::PushClipRect(..) => c < 4,
        _ => true,
    }
}

/// pops that balance the scene: inner layers, the outer layer, then whatever clips are left
fn close_all(pre: &[Op], seq: &[Op]) -> Vec<Op> {
    let (c, l) = depths(pre, seq);
    let mut out = Vec::new();
    for _ in 0..l {
        out.push(Op::PopLayer);
    }
    out.push(Op::PopLayer);
    for _ in 0..c {
        out.push(Op::PopClip);
    }
    out
}

fn run_space(run: &Run, name: &str, w: i32, h: i32, outer: &[(f32, BlendMode)], ctxs: &[(Vec<Op>, Vec<Op>)], alpha: &[Op], depth: usize, dsts: &[Dst]) {
    run.bound(name, format!("{} outer layers (opacity x blend) x {} contexts x all well-nested inner sequences of length 0..={} over {} ops (auto-closed) x {} destinations on {}x{}", outer.len(), ctxs.len(), depth, alpha.len(), dsts.len(), w, h));
    run.par(outer.len() * ctxs.len() * alpha.len(), |s, l| {
        let oi = s / (ctxs.len() * alpha.len());
        let ci = (s / alpha.len()) % ctxs.len();
        let a0 = s % alpha.len();
        let (o, b) = outer[oi];
        let (pre, suf) = &ctxs[ci];
        fn rec(run: &Run, s: usize, l: &mut Local, w: i32, h: i32, pre: &[Op], suf: &[Op], o: f32, b: BlendMode, alpha: &[Op], seq: &mut Vec<Op>, depth: usize, dsts: &[Dst]) {
            l.states += 1;
            for dst in dsts {
                let mut ops: Vec<Op> = pre.to_vec();
                ops.push(Op::PushLayer(o, b));
                ops.extend(seq.iter().cloned());
                // a transform set inside persists; clips still on the stack are popped after the layer
                ops.extend(close_all(pre, seq));
                let _ = suf;
                let scene = Scene { w, h, dst: dst.clone(), ops };
                l.transitions += scene.ops.len() as u64;
                l.traces += 1;
                l.evals += 1;
                match eval(&scene) {
                    Ok(st) => {
                        l.count("pixels_checked", st.checked);
                        if st.foreign {
                            l.count("scenes_stopped_by_foreign_violation_or_dependency_panic", 1);
                        }
                        if seq.iter().any(|o| o.is_draw()) {
                            l.nontrivial += 1;
                        }
                        l.outcome(st.hash);
                    }
                    Err(v) => run.report(s, v),
                }
                if s == 40 && seq.len() == 2 && run.want_sample() {
                    run.sample(scene.to_string());
                }
            }
            if seq.len() >= depth || run.expired() {
                return;
            }
            for op in alpha {
                if !enabled(pre, seq, op) {
                    continue;
                }
                seq.push(op.clone());
                rec(run, s, l, w, h, pre, suf, o, b, alpha, seq, depth, dsts);
                seq.pop();
            }
        }
        let mut seq: Vec<Op> = Vec::new();
        if a0 == 0 {
            // the empty inner sequence, accounted once per (outer, context)
            rec(run, s, l, w, h, pre, suf, o, b, alpha, &mut seq, 0, dsts);
        }
        if depth == 0 || !enabled(pre, &seq, &alpha[a0]) {
            return;
        }
        seq.push(alpha[a0].clone());
        rec(run, s, l, w, h, pre, suf, o, b, alpha, &mut seq, depth, dsts);
    });
}

impl Check for C06 {
    fn id(&self) -> &'static str {
        "C06"
    }
    fn title(&self) -> &'static str {
        "A layer is an isolated group composited once with its opacity and blend mode"
    }

    fn run(&self, run: &Run) {
        let q = run.tier.quick();
        run.rule("balanced layer scenes = clip context + push_layer(opacity, blend) + every well-nested inner sequence up to the depth bound (draws, clear, nested layers, clip changes, transform changes; auto-closed) + pop_layer + context pops; every transition is checked by the step oracle and the final surface against the isolated-surface reference machine; non-trivial = the inner sequence draws something");
        run.assume("at a pop under a partially covering clip path both compositions of opacity and clip coverage are admitted (see C03)");
        let (w, h) = (4, 4);
        let ctx = contexts(w, h, false);
        let alpha = inner_alphabet(w, h, false);
        let some: Vec<BlendMode> = vec![BlendMode::SrcOver, BlendMode::Src, BlendMode::Multiply, BlendMode::Xor];
        let dsts_q = vec![Dst::Distinct];
        let dsts = vec![Dst::Distinct, Dst::White];
        let mut outer4 = Vec::new();
        for &o in &[0.0f32, 0.5, 1.0] {
            for &b in &some {
                outer4.push((o, b));
            }
        }
        let mut outer28 = Vec::new();
        for &o in &[0.0f32, 0.25, 0.5, 1.0] {
            for &b in MODES.iter() {
                outer28.push((o, b));
            }
        }
        if !q {
            let ctx4: Vec<(Vec<Op>, Vec<Op>)> = contexts(w, h, true);
            run_space(run, "depth-4 inner sequences, 4 layer blends, 4 contexts", w, h, &outer4, &ctx4, &inner_alphabet(w, h, true), 4, &dsts_q);
        }
        {
            run_space(run, "depth-3 inner sequences, 4 layer blends", w, h, &outer4, &ctx, &alpha, 3, &dsts);
            run_space(run, "depth-2 inner sequences, 28 layer blends", w, h, &outer28, &ctx, &alpha, 2, &dsts);
            let ctx65 = contexts(6, 5, true);
            run_space(run, "depth-2 inner sequences on 6x5", 6, 5, &outer4, &ctx65, &inner_alphabet(6, 5, true), 2, &dsts_q);
        }
        // deep nesting: towers of 4..=5 (quick) / 6 (thorough) layers, every assignment of one of
        // four (opacity, blend) pairs to each level, a different draw at every level, clips
        // pushed at two levels; checked like every other scene (step oracle + isolated machine)
        {
            let (w, h) = (6, 5);
            let kinds: [(f32, BlendMode); 4] = [(0.5, BlendMode::SrcOver), (1.0, BlendMode::Multiply), (0.75, BlendMode::Src), (0.25, BlendMode::Xor)];
            let levels: Vec<usize> = if q { vec![4, 5] } else { vec![4, 5, 6] };
            let draws = |k: usize| -> Op {
                match k % 4 {
                    0 => Op::Fill(PathSpec::poly(&[(0.25, 0.5), (5.75, 0.0), (3.0, 4.75)]), SrcSpec::Solid(0x80402010), Opts::default()),
                    1 => Op::FillRect(1., 1., 3., 3., SrcSpec::Solid(0xff204080), Opts { mode: BlendMode::Xor, alpha: 0.5, aa: true }),
                    2 => Op::FillRect(0.5, 0.75, 4.25, 3.0, SrcSpec::Solid(0xfe00fe7f), Opts { mode: BlendMode::Multiply, alpha: 1.0, aa: true }),
                    _ => Op::Mask(1, 1, 3, 2, vec![255, 128, 1, 0, 64, 255], SrcSpec::Solid(0xffffff00)),
                }
            };
            let total: usize = levels.iter().map(|n| 4usize.pow(*n as u32)).sum();
            run.bound("deep layer towers", format!("{} towers: depth in {:?}, each level one of 4 (opacity, blend) pairs, one draw per level, clip rect at level 1 and clip path at level 3, on {}x{}", total, levels, w, h));
            for &n in &levels {
                run.par(4usize.pow(n as u32), |s, l| {
                    let mut ops = Vec::new();
                    let mut c = s;
                    for lv in 0..n {
                        if lv == 1 {
                            ops.push(Op::PushClipRect(1, 0, 6, 4));
                        }
                        if lv == 3 {
                            ops.push(Op::PushClip(PathSpec::poly(&[(0.25, 0.0), (6.0, 0.5), (5.5, 5.0), (0.5, 4.75)])));
                        }
                        let (o, b) = kinds[c % 4];
                        c /= 4;
                        ops.push(Op::PushLayer(o, b));
                        ops.push(draws(lv + s));
                    }
                    for lv in (0..n).rev() {
                        ops.push(Op::PopLayer);
                        if lv == 3 || lv == 1 {
                            ops.push(Op::PopClip);
                        }
                    }
                    let scene = Scene { w, h, dst: Dst::Distinct, ops };
                    l.states += 1;
                    l.transitions += scene.ops.len() as u64;
                    l.traces += 1;
                    l.evals += 1;
                    match super::mixed::eval_mixed(&scene, &owns, true) {
                        Ok(st) => {
                            l.count("pixels_checked", st.checked);
                            l.count(if st.foreign { "towers_stopped_by_foreign_violation_or_dependency_panic" } else { "towers_fully_checked" }, 1);
                            l.nontrivial += 1;
                            l.outcome(st.hash);
                        }
                        Err(v) => run.report(700_000 + s, v),
                    }
                });
            }
        }
        // large surfaces (more than 65536 pixels): layers narrower than the surface and taller than
        // any plausible band, content that differs from row to row and column to column
        {
            let sizes: Vec<(i32, i32)> = if q { vec![(300, 300)] } else { vec![(300, 300), (70, 1000), (1100, 64)] };
            let kinds: [(f32, BlendMode); 4] = [(1.0, BlendMode::SrcOver), (0.5, BlendMode::SrcOver), (0.75, BlendMode::Multiply), (1.0, BlendMode::Src)];
            run.bound("large surfaces", format!("{:?} x 4 (opacity, blend) pairs x 3 clip contexts (none, inset clip rect, inset clip rect popped inside the layer) x 2 contents (repeating 7x5 image, big triangle + nested layer)", sizes));
            run.par(sizes.len() * 4 * 3, |s, l| {
                let (w, h) = sizes[s / 12];
                let (o, b) = kinds[(s / 3) % 4];
                let ctx = s % 3;
                let (wf, hf) = (w as f32, h as f32);
                let img = super::c03::image_of(7, 5, &VALS12, 2);
                for content in 0..2 {
                    let mut ops = Vec::new();
                    if ctx > 0 {
                        ops.push(Op::PushClipRect(w / 6, h / 30, w - w / 6, h - h / 30));
                    }
                    ops.push(Op::PushLayer(o, b));
                    if ctx == 2 {
                        ops.push(Op::PopClip);
                    }
                    if content == 0 {
                        ops.push(Op::FillRect(0., 0., wf, hf, SrcSpec::Image { w: 7, h: 5, data: img.clone(), repeat: true, bilinear: false, xf: IDENT }, Opts { mode: BlendMode::Src, alpha: 1.0, aa: true }));
                    } else {
                        ops.push(Op::Fill(PathSpec::poly(&[(1.5, 0.25), (wf - 0.75, hf * 0.4), (wf * 0.3, hf - 1.25)]), SrcSpec::Solid(0x80402010), Opts::default()));
                        ops.push(Op::PushLayer(0.5, BlendMode::SrcOver));
                        ops.push(Op::Fill(PathSpec::poly(&[(wf - 2.0, 1.0), (3.25, hf * 0.5), (wf * 0.8, hf - 2.0)]), SrcSpec::Solid(0xff204080), Opts::default()));
                        ops.push(Op::PopLayer);
                    }
                    ops.push(Op::PopLayer);
                    if ctx == 1 {
                        ops.push(Op::PopClip);
                    }
                    let scene = Scene { w, h, dst: Dst::White, ops };
                    l.states += 1;
                    l.transitions += scene.ops.len() as u64;
                    l.traces += 1;
                    l.evals += 1;
                    match super::mixed::eval_mixed(&scene, &owns, true) {
                        Ok(st) => {
                            l.count("pixels_checked", st.checked);
                            l.count(if st.foreign { "large_scenes_stopped_by_foreign_violation_or_dependency_panic" } else { "large_scenes_fully_checked" }, 1);
                            l.nontrivial += 1;
                            l.outcome(st.hash);
                        }
                        Err(v) => run.report(800_000 + s, v),
                    }
                }
            });
        }
        super::mixed::explore_mixed(run, "C06", owns, if q { 5 } else { 6 }, true);
        super::mixed::explore_alpha(run, "C06", "cross-nested clips and layers", super::mixed::cross_alphabet(), owns, if q { 6 } else { 7 }, true, Dst::Distinct);
        // the same on a target made by from_backing over existing pixels
        super::mixed::explore_alpha(run, "C06", "cross-nested clips and layers, from_backing target", super::mixed::cross_alphabet(), owns, if q { 5 } else { 6 }, true, Dst::Backing(Box::new(Dst::Distinct)));
    }

    fn replay(&self, case: &str) -> Result<Option<Violation>, String> {
        let scene = parse_scene(case)?;
        if let Err(v) = eval(&scene) {
            return Ok(Some(v));
        }
        Ok(super::mixed::eval_mixed(&scene, &owns, true).err())
    }
}
