//! C12 Gradient sources are positioned and coloured as constructed.

use super::common::*;
use crate::engine::*;
use crate::model::grad::*;
use crate::model::img::{mat_apply, mat_inverse, xf64};
use crate::model::pix::alpha_byte;
use crate::scene::*;
use raqote::BlendMode;

pub struct C12;

const S: i32 = 24;

fn src_of(scene: &Scene) -> Option<(Xf, SrcSpec, f32)> {
    let mut ctm = IDENT;
    for op in &scene.ops {
        match op {
            Op::SetTransform(t) => ctm = *t,
            Op::Fill(_, s, o) => return Some((ctm, s.clone(), o.alpha)),
            // (only used with a rectangle that covers the whole surface)
            Op::FillRect(_, _, _, _, s, o) => return Some((ctm, s.clone(), o.alpha)),
            Op::Mask(_, _, _, _, _, s) => return Some((ctm, s.clone(), 1.0)),
            Op::Text(_, _, _, _, s, o) => return Some((ctm, s.clone(), o.alpha)),
            _ => {}
        }
    }
    None
}

thread_local! {
    /// largest stretch of the current transform of the scene being judged (device px per user unit)
    static CTM_SCALE: std::cell::Cell<f64> = std::cell::Cell::new(1.0);
}

fn classify(src: &SrcSpec, _alpha: f32) -> Option<&'static str> {
    if let SrcSpec::Sweep { p, .. } = src {
        if p[2] != 0.0 {
            return Some("sweep_start_angle_bias");
        }
    }
    None
}

pub fn eval(scene: &Scene) -> Result<(u64, u64, u64), Violation> {
    let case = scene.to_string();
    let (ctm, src, alpha) = src_of(scene).ok_or_else(|| Violation::new("harness/no-fill", case.clone(), "".to_string()))?;
    let (stops, spread) = match &src {
        SrcSpec::Linear { stops, spread, .. } | SrcSpec::Radial { stops, spread, .. } | SrcSpec::TwoCircle { stops, spread, .. } | SrcSpec::Sweep { stops, spread, .. } => (stops.clone(), *spread),
        _ => return Err(Violation::new("harness/not-a-gradient", case, "".to_string())),
    };
    let got = render(scene).map_err(|p| Violation::new("fill/panic", case.clone(), p))?;
    let inv = match mat_inverse(&xf64(&ctm)) {
        Some(i) => i,
        None => return Ok((0, 0, 0)),
    };
    // size of a device pixel in user units (largest stretch of the inverse)
    let px_user = ((inv[0] * inv[0] + inv[1] * inv[1]).sqrt()).max((inv[2] * inv[2] + inv[3] * inv[3]).sqrt());
    CTM_SCALE.with(|c| {
        let m = xf64(&ctm);
        c.set(((m[0] * m[0] + m[1] * m[1]).sqrt()).max((m[2] * m[2] + m[3] * m[3]).sqrt()))
    });
    let a = alpha_byte(alpha) as f64 / 255.0;
    let widen = matches!(src, SrcSpec::TwoCircle { .. } | SrcSpec::Sweep { .. });
    let (w, h) = (scene.w, scene.h);
    let mut checked = 0u64;
    let mut skipped = 0u64;
    // a clip path in force: only pixels it covers fully show the gradient, pixels it does not
    // cover keep the destination (white)
    let mut clip_cov: Option<Vec<u32>> = None;
    let bg = scene.dst.pixels(w, h);
    let mut cx = IDENT;
    for op in &scene.ops {
        match op {
            Op::SetTransform(t) => cx = *t,
            Op::PushClip(path) => {
                let s = Scene { w, h, dst: Dst::Zero, ops: vec![Op::SetTransform(cx), Op::Fill(path.clone(), SrcSpec::Solid(0xffffffff), Opts::default())] };
                clip_cov = Some(render(&s).map_err(|p| Violation::new("model/reference-render-panicked", case.clone(), p))?);
            }
            Op::Fill(..) | Op::FillRect(..) | Op::Mask(..) | Op::Text(..) => break,
            _ => {}
        }
    }
    // clip rectangles and layer bounds in force at the draw
    let at = scene.ops.iter().position(|o| matches!(o, Op::Fill(..) | Op::FillRect(..) | Op::Mask(..) | Op::Text(..))).unwrap_or(0);
    // a shape that does not cover the surface: like a clip path, only the pixels it covers fully
    // show the gradient and the pixels it does not cover keep the destination
    if let Some(Op::Fill(path, _, o)) = scene.ops.get(at) {
        if !matches!(path.ops.first(), Some(POp::M(x, _)) if *x <= -100.0) {
            let s = Scene { w, h, dst: Dst::Zero, ops: vec![Op::SetTransform(cx), Op::Fill(path.clone(), SrcSpec::Solid(0xffffffff), Opts { mode: BlendMode::SrcOver, alpha: 1.0, aa: o.aa })] };
            let sc = render(&s).map_err(|p| Violation::new("model/reference-render-panicked", case.clone(), p))?;
            clip_cov = Some(match clip_cov.take() {
                None => sc,
                Some(cc) => cc.iter().zip(sc.iter()).map(|(a, b)| if a >> 24 == 0 || b >> 24 == 0 { 0 } else if a >> 24 == 255 && b >> 24 == 255 { 0xff000000 } else { 0x80000000 }).collect(),
            });
        }
    }
    let rr = reach_rect(&scene.ops, at, w, h);
    if rr != [0, 0, w, h] {
        let mut cc = clip_cov.take().unwrap_or_else(|| vec![0xff000000u32; (w * h) as usize]);
        for i in 0..(w * h) {
            if !(i % w >= rr[0] && i % w < rr[2] && i / w >= rr[1] && i / w < rr[3]) {
                cc[i as usize] = 0;
            }
        }
        clip_cov = Some(cc);
    }
    // a text run: the glyph coverage is what an opaque-white draw of the same run leaves in the alpha
    // channel; fully covered glyph pixels show the gradient colour of their own position
    if let Some(Op::Text(size, text, tx, ty, _, o)) = scene.ops.get(at) {
        let s = Scene { w, h, dst: Dst::Zero, ops: vec![Op::SetTransform(cx), Op::Text(*size, text.clone(), *tx, *ty, SrcSpec::Solid(0xffffffff), Opts { mode: BlendMode::SrcOver, alpha: 1.0, aa: o.aa })] };
        let sc = render(&s).map_err(|p| Violation::new("model/reference-render-panicked", case.clone(), p))?;
        clip_cov = Some(match clip_cov.take() {
            None => sc,
            Some(cc) => cc.iter().zip(sc.iter()).map(|(a, b)| if a >> 24 == 0 || b >> 24 == 0 { 0 } else if a >> 24 == 255 && b >> 24 == 255 { 0xff000000 } else { 0x80000000 }).collect(),
        });
    }
    for y in 0..h {
        for x in 0..w {
            let p = got[(y * w + x) as usize];
            if let Some(cc) = &clip_cov {
                match cc[(y * w + x) as usize] >> 24 {
                    255 => {}
                    0 => {
                        checked += 1;
                        if p != bg[(y * w + x) as usize] {
                            return Err(Violation::new(format!("{}/outside-clip-path-unchanged", src.kind()), case, format!("pixel ({},{}) has zero clip coverage but changed to {:#010x}", x, y, p)));
                        }
                        continue;
                    }
                    _ => {
                        skipped += 1;
                        continue;
                    }
                }
            }
            let (ux, uy) = mat_apply(&inv, x as f64 + 0.5, y as f64 + 0.5);
            let t = match t_at(&src, ux, uy, px_user) {
                TVal::T(t) => t,
                TVal::Empty => {
                    checked += 1;
                    if p != 0 {
                        return Err(Violation::new(format!("{}/no-valid-circle-must-be-transparent", src.kind()), case, format!("pixel ({},{}) = {:#010x} but no circle of the family passes through it", x, y, p)).finding(classify(&src, alpha)));
                    }
                    continue;
                }
                TVal::Skip => {
                    skipped += 1;
                    continue;
                }
            };
            if !t.is_finite() {
                skipped += 1;
                continue;
            }
            let d = 3.0 / 255.0 + if widen { t.abs() / 255.0 } else { 0.0 };
            // the sampling position itself is only known to the fixed-point matrices' precision:
            // admit t of any point within 1/1000 px of the pixel centre
            let e = px_user * 1e-3;
            let (mut tlo, mut thi) = (t, t);
            let mut unstable = false;
            for (dx, dy) in [(-e, -e), (e, -e), (-e, e), (e, e)] {
                match t_at(&src, ux + dx, uy + dy, px_user) {
                    TVal::T(tt) if tt.is_finite() => {
                        tlo = tlo.min(tt);
                        thi = thi.max(tt);
                    }
                    _ => unstable = true,
                }
            }
            if unstable {
                skipped += 1;
                continue;
            }
            let tm = 0.5 * (tlo + thi);
            let d = d + 0.5 * (thi - tlo);
            let (lo, hi) = window(&stops, spread, tm, d, a);
            let ch = [(p >> 24) as f64, ((p >> 16) & 0xff) as f64, ((p >> 8) & 0xff) as f64, (p & 0xff) as f64];
            checked += 1;
            for k in 0..4 {
                if ch[k] < lo[k] - 4.0 || ch[k] > hi[k] + 4.0 {
                    let names = ["alpha", "red", "green", "blue"];
                    let clause = if a < 1.0 { "colour-at-t-with-global-alpha" } else { "colour-at-t" };
                    // the gradient matrix is evaluated in 16.16 fixed point: each coefficient is off by
                    // up to 2^-16 (in t per device pixel), so far from the origin t is off by up to
                    // about (|x| + |y|) * 2^-16. A pixel that is right once that much is admitted is the
                    // listed precision finding; anything beyond it is not.
                    let fp = (x.abs() + y.abs() + 2) as f64 * 1.5 / 65536.0 * (1.0 + if widen { t.abs() } else { 0.0 });
                    let (lo2, hi2) = window(&stops, spread, tm, d + fp, a);
                    let within_fp = (0..4).all(|j| ch[j] >= lo2[j] - 4.0 && ch[j] <= hi2[j] + 4.0);
                    let fid = match classify(&src, alpha) {
                        Some(f) => Some(f),
                        None if within_fp && fp > 3.0 / 255.0 => Some("gradient_matrix_fixed_point_precision"),
                        None => None,
                    };
                    return Err(Violation::new(
                        format!("{}/{}/{}", src.kind(), spread.name(), clause),
                        case,
                        format!("pixel ({},{}) (user point ({:.3},{:.3}), t = {:.4}): observed {:#010x}; {} channel {} outside [{:.1}, {:.1}] +- 4 (gradient colour for t within {:.4} of the pixel's t, global alpha {:.3}){}", x, y, ux, uy, t, p, names[k], ch[k], lo[k], hi[k], d, a, if within_fp { format!("; inside the range once the 16.16 matrix error of {:.4} is admitted", fp) } else { String::new() }),
                    )
                    .finding(fid));
                }
            }
            // (Pad beyond the ends: "exactly the end colour" defines the gradient colour function;
            // the observed pixel is held to the same 4/255 as everywhere else - demanding bit-exact
            // end colours was an over-reading that failed for a 900 px radius, see DESIGN.md section 9)
        }
    }
    Ok((hash64(&got), checked, skipped))
}

fn premul(c: u32) -> u32 {
    let a = c >> 24;
    if a == 255 {
        return c;
    }
    let f = |v: u32| sw_composite::muldiv255(v & 0xff, a);
    (a << 24) | (f(c >> 16) << 16) | (f(c >> 8) << 8) | f(c)
}

fn stop_sets(q: bool) -> Vec<Vec<Stop>> {
    let s = |v: &[(f32, u32)]| v.iter().map(|(p, c)| Stop { pos: *p, color: *c }).collect::<Vec<_>>();
    let mut v = vec![
        s(&[(0.0, 0xffff0000), (1.0, 0xff0000ff)]),
        s(&[(0.0, 0xff000000), (0.5, 0x80ffffff), (1.0, 0xff00ff00)]),
        s(&[(0.25, 0xffffff00), (0.5, 0xffffff00), (0.5, 0xff0000ff), (0.75, 0x400000ff)]),
        // the same colour at both ends (a highlight band): a row that begins and ends beyond the
        // gradient starts and ends on one colour and is still not constant
        s(&[(0.0, 0xff000000), (0.5, 0xffffffff), (1.0, 0xff000000)]),
    ];
    if !q {
        v.push(s(&[(0.0, 0x00ffffff), (0.3, 0xffffffff), (1.0, 0x00ffffff)]));
        v.push(s(&[(0.5, 0xc0804020)]));
        v.push(s(&[(0.0, 0xff000000), (0.2, 0xffffffff), (0.4, 0x00ff0000), (0.7, 0xff00ffff), (1.0, 0x80808080)]));
    }
    v
}

fn ctms(q: bool) -> Vec<Xf> {
    let mut v = vec![IDENT, [0.8660254, 0.5, -0.5, 0.8660254, 6., -4.]];
    if !q {
        v.extend([[1., 0., 0., 1., 0.5, 0.25], [2., 0., 0., 2., -10., -6.], [2., 0., 0., 0.5, 0., 4.], [0., 1., -1., 0., 24., 0.], [1., 0., 0.5, 1., -4., 0.], [-1., 0., 0., 1., 24., 0.]]);
    }
    v
}

fn geometries(q: bool) -> Vec<(&'static str, Vec<f32>)> {
    let mut g: Vec<(&'static str, Vec<f32>)> = Vec::new();
    let pts: Vec<(f32, f32)> = if q { vec![(2.5, 3.25), (20.0, 4.0), (6.0, 21.5)] } else { vec![(2.5, 3.25), (20.0, 4.0), (6.0, 21.5), (12.0, 12.0), (23.5, 23.0), (-8.0, 10.0)] };
    for (i, a) in pts.iter().enumerate() {
        for (j, b) in pts.iter().enumerate() {
            if i != j {
                g.push(("linear", vec![a.0, a.1, b.0, b.1]));
            }
        }
    }
    g.push(("linear", vec![10.0, 5.0, 11.0, 5.0]));
    g.push(("linear", vec![4.0, 30.0, 4.0, -10.0]));
    for c in pts.iter().take(if q { 2 } else { 4 }) {
        for r in [1.0f32, 4.0, 16.0, 64.0] {
            g.push(("radial", vec![c.0, c.1, r]));
        }
    }
    // two-circle: first circle inside the second (concentric, eccentric, touching) - the property's domain
    g.push(("twocircle", vec![12., 12., 2., 12., 12., 10.]));
    g.push(("twocircle", vec![10., 11., 1., 13., 12., 9.]));
    g.push(("twocircle", vec![8., 12., 2., 12., 12., 6.]));
    if !q {
        g.push(("twocircle", vec![12., 12., 0.5, 14., 10., 20.]));
        g.push(("twocircle", vec![11., 13., 3., 12., 12., 5.]));
        g.push(("twocircle", vec![12., 12., 0.01, 12., 12., 30.]));
    }
    for c in pts.iter().take(if q { 2 } else { 4 }) {
        for (a0, a1) in [(0.0f32, 360.0f32), (0.0, 90.0), (90.0, 180.0), (-90.0, 90.0)] {
            g.push(("sweep", vec![c.0, c.1, a0, a1]));
        }
        // an angle range of more than one turn (t = a / 720 stays below 1/2)
        g.push(("sweep", vec![c.0, c.1, 0.0, 720.0]));
    }
    g
}

fn make(kind: &str, p: &[f32], stops: Vec<Stop>, spread: Spr) -> SrcSpec {
    match kind {
        "linear" => SrcSpec::Linear { stops, spread, p: [p[0], p[1], p[2], p[3]] },
        "radial" => SrcSpec::Radial { stops, spread, p: [p[0], p[1], p[2]] },
        "twocircle" => SrcSpec::TwoCircle { stops, spread, p: [p[0], p[1], p[2], p[3], p[4], p[5]] },
        _ => SrcSpec::Sweep { stops, spread, p: [p[0], p[1], p[2], p[3]] },
    }
}

impl Check for C12 {
    fn id(&self) -> &'static str {
        "C12"
    }
    fn title(&self) -> &'static str {
        "Gradient sources are positioned and coloured as constructed"
    }

    fn run(&self, run: &Run) {
        let deep = !run.tier.quick();
        let q = false;
        run.rule("every combination of gradient geometry x stop set x spread x global alpha x current transform is drawn as a full-surface Src fill on 24x24; every pixel's channels must lie within 4 of the range the analytic gradient colour takes for t within 3/255 (+|t|/255 for two-circle and sweep) of the pixel's analytic t; Pad beyond the ends is exact; two-circle without a valid circle is transparent; pixels within 1-1.5 px of a discontinuity of t (sweep seam, sweep centre) are not asserted; non-trivial = at least 100 asserted pixels");
        let geos = geometries(q);
        let stops = stop_sets(q);
        let ctm = ctms(q);
        let alphas: Vec<f32> = if deep { vec![1.0, 0.999, 0.75, 0.5, 0.25, 1.0 / 255.0, 0.0] } else { vec![1.0, 0.5, 0.25, 0.0] };
        let mut ctm = ctm;
        let mut stops = stops;
        if deep {
            ctm.extend([[1.5, 0., 0., 1.5, -6., -6.], [0.5, 0., 0., 0.5, 6., 6.], [0.9396926, -0.34202015, 0.34202015, 0.9396926, -3., 5.], [3., 0., 0., 3., -24., -24.]]);
            let s = |v: &[(f32, u32)]| v.iter().map(|(p, c)| Stop { pos: *p, color: *c }).collect::<Vec<_>>();
            stops.push(s(&[(0.0, 0x00000000), (1.0, 0xffffffff)]));
            stops.push(s(&[(0.1, 0xff102030), (0.9, 0x10ff8040)]));
            stops.push(s(&[(0.0, 0xffff0000), (0.33, 0xff00ff00), (0.33, 0xff0000ff), (0.66, 0xffffff00), (1.0, 0xff00ffff)]));
        }
        run.bound("gradients", format!("{} geometries x {} stop sets x 3 spreads x {} alphas x {} transforms", geos.len(), stops.len(), alphas.len(), ctm.len()));
        run.par(geos.len() * ctm.len(), |s, l| {
            let (kind, p) = &geos[s / ctm.len()];
            let c = ctm[s % ctm.len()];
            for st in &stops {
                for spread in [Spr::Pad, Spr::Repeat, Spr::Reflect] {
                    for &alpha in &alphas {
                        let src = make(kind, p, st.clone(), spread);
                        let mut ops = vec![];
                        if c != IDENT {
                            ops.push(Op::SetTransform(c));
                        }
                        ops.push(Op::Fill(PathSpec::rect(-200., -200., 400., 400.), src, Opts { mode: BlendMode::Src, alpha, aa: true }));
                        let scene = Scene { w: S, h: S, dst: Dst::White, ops };
                        l.states += 1;
                        l.transitions += scene.ops.len() as u64;
                        l.traces += 1;
                        l.evals += 1;
                        if s == 9 && spread == Spr::Reflect && alpha == 0.5 && run.want_sample() {
                            run.sample(scene.to_string());
                        }
                        match eval(&scene) {
                            Ok((hsh, n, sk)) => {
                                l.outcome(hsh);
                                l.count("pixels_asserted", n);
                                l.count("pixels_not_asserted_discontinuity", sk);
                                if n >= 100 {
                                    l.nontrivial += 1;
                                }
                            }
                            Err(v) => run.report(s, v),
                        }
                    }
                }
            }
        });
        // the same gradients after calls that leave the current transform alone (pop_layer, clear
        // under a clip) and under a clip path whose rows begin with uncovered pixels
        let ctx_geos: Vec<(&'static str, Vec<f32>)> = vec![("linear", vec![2.5, 3.25, 20.0, 4.0]), ("linear", vec![6.0, 21.5, 2.5, 3.25]), ("radial", vec![12.0, 12.0, 16.0]), ("twocircle", vec![10., 11., 1., 13., 12., 9.]), ("sweep", vec![12.0, 12.0, 0.0, 360.0])];
        let diamond = PathSpec::poly(&[(12.0, 1.0), (23.0, 12.0), (12.0, 23.0), (1.0, 12.0)]);
        let pres: Vec<(Vec<Op>, Vec<Op>)> = vec![
            (vec![Op::PushLayer(1.0, BlendMode::SrcOver), Op::PopLayer], vec![]),
            (vec![Op::PushLayer(0.5, BlendMode::SrcOver), Op::PushLayer(1.0, BlendMode::SrcOver), Op::PopLayer, Op::PopLayer], vec![]),
            (vec![Op::PushClipRect(0, 0, S, S), Op::Clear(0xffffffff), Op::PopClip], vec![]),
            (vec![Op::PushClipRect(9, 9, 3, 3), Op::PushLayer(1.0, BlendMode::SrcOver), Op::PopLayer, Op::PopClip], vec![]),
            (vec![Op::PushClip(diamond.clone())], vec![Op::PopClip]),
            (vec![Op::PushClip(diamond.clone())], vec![Op::PopClip]),
            (vec![Op::PushClip(PathSpec::rect(5.0, 3.0, 14.0, 17.0))], vec![Op::PopClip]),
            // inside a layer whose origin is not the surface origin (pushed under a clip rect that
            // starts lower and further right), with the clip still in force and with it popped
            (vec![Op::PushClipRect(3, 5, S - 1, S - 2), Op::PushLayer(1.0, BlendMode::SrcOver)], vec![Op::PopLayer, Op::PopClip]),
            (vec![Op::PushClipRect(3, 5, S - 1, S - 2), Op::PushLayer(1.0, BlendMode::SrcOver), Op::PopClip], vec![Op::PopLayer]),
        ];
        // a clip path on top, inside a layer whose origin is not the surface origin, drawn with modes
        // that go through the clip-and-blend route (opaque stops over a transparent layer: Src, Xor,
        // Add, SrcAtop-over-white give the gradient where the clip covers fully)
        {
            let lctx: Vec<(Vec<Op>, Vec<Op>)> = vec![
                (vec![Op::PushClipRect(3, 5, S - 1, S - 2), Op::PushLayer(1.0, BlendMode::SrcOver), Op::PushClip(diamond.clone())], vec![Op::PopClip, Op::PopLayer, Op::PopClip]),
                (vec![Op::PushClipRect(4, 2, S, S - 3), Op::PushLayer(1.0, BlendMode::SrcOver), Op::PopClip, Op::PushClip(diamond.clone())], vec![Op::PopClip, Op::PopLayer]),
                (vec![Op::PushClip(diamond.clone()), Op::PushClipRect(2, 6, S - 2, S), Op::PushLayer(1.0, BlendMode::SrcOver)], vec![Op::PopLayer, Op::PopClip, Op::PopClip]),
            ];
            let lmodes = [BlendMode::Src, BlendMode::Xor, BlendMode::Add, BlendMode::SrcOver];
            run.bound("clip path inside offset layers, non-SrcOver modes", format!("{} geometries x {} contexts (layer origins (3,5), (4,2), (2,6); clip path pushed inside / before the layer) x {} modes x 2 spreads, opaque stops over a transparent surface", ctx_geos.len(), lctx.len(), lmodes.len()));
            run.par(ctx_geos.len() * lctx.len(), |s, l| {
                let (kind, p) = &ctx_geos[s / lctx.len()];
                let (pre, suf) = &lctx[s % lctx.len()];
                for mode in lmodes {
                    for spread in [Spr::Pad, Spr::Repeat] {
                        let src = make(kind, p, stops[0].clone(), spread);
                        let mut ops = pre.clone();
                        ops.push(Op::Fill(PathSpec::rect(-200., -200., 400., 400.), src, Opts { mode, alpha: 1.0, aa: true }));
                        ops.extend(suf.iter().cloned());
                        let scene = Scene { w: S, h: S, dst: Dst::Zero, ops };
                        l.states += 1;
                        l.transitions += scene.ops.len() as u64;
                        l.traces += 1;
                        l.evals += 1;
                        match eval(&scene) {
                            Ok((hsh, n, sk)) => {
                                l.outcome(hsh);
                                l.count("pixels_asserted", n);
                                l.count("pixels_not_asserted_discontinuity", sk);
                                if n >= 100 {
                                    l.nontrivial += 1;
                                }
                            }
                            Err(v) => run.report(28_000 + s, v),
                        }
                    }
                }
            });
        }
        // the mask-less route: an integer fill_rect under the identity with an empty clip stack, inside a
        // layer whose origin is not the surface origin (its clip rectangle popped after push_layer)
        {
            let fctx: Vec<(Vec<Op>, Vec<Op>)> = vec![
                (vec![Op::PushClipRect(3, 5, S - 1, S - 2), Op::PushLayer(1.0, BlendMode::SrcOver), Op::PopClip], vec![Op::PopLayer]),
                (vec![Op::PushClipRect(0, 7, S, S), Op::PushLayer(1.0, BlendMode::SrcOver), Op::PopClip], vec![Op::PopLayer]),
                (vec![Op::PushClipRect(6, 0, S, S), Op::PushLayer(1.0, BlendMode::SrcOver), Op::PopClip], vec![Op::PopLayer]),
                (vec![], vec![]),
            ];
            run.bound("fast-path fill_rect inside offset layers", format!("{} geometries x {} contexts (layer origins (3,5), (0,7), (6,0), none; the clip popped inside the layer) x Src / SrcOver x 3 spreads: fill_rect(0, 0, S, S) under the identity", ctx_geos.len(), fctx.len()));
            run.par(ctx_geos.len() * fctx.len(), |s, l| {
                let (kind, p) = &ctx_geos[s / fctx.len()];
                let (pre, suf) = &fctx[s % fctx.len()];
                for mode in [BlendMode::Src, BlendMode::SrcOver] {
                    for spread in [Spr::Pad, Spr::Repeat, Spr::Reflect] {
                        let src = make(kind, p, stops[0].clone(), spread);
                        let mut ops = pre.clone();
                        ops.push(Op::FillRect(0., 0., S as f32, S as f32, src, Opts { mode, alpha: 1.0, aa: true }));
                        ops.extend(suf.iter().cloned());
                        let scene = Scene { w: S, h: S, dst: Dst::Zero, ops };
                        l.states += 1;
                        l.transitions += scene.ops.len() as u64;
                        l.traces += 1;
                        l.evals += 1;
                        match eval(&scene) {
                            Ok((hsh, n, sk)) => {
                                l.outcome(hsh);
                                l.count("pixels_asserted", n);
                                l.count("pixels_not_asserted_discontinuity", sk);
                                if n >= 100 {
                                    l.nontrivial += 1;
                                }
                            }
                            Err(v) => run.report(29_000 + s, v),
                        }
                    }
                }
            });
        }
        run.bound("after-state-calls-and-under-clip-paths", format!("{} geometries x {} transforms x 3 spreads x 2 alphas x {} contexts (layer push/pop, nested, clear under a clip rect, diamond clip path, rectangular clip path)", ctx_geos.len(), ctm.len(), pres.len()));
        run.par(ctx_geos.len() * ctm.len(), |s, l| {
            let (kind, p) = &ctx_geos[s / ctm.len()];
            let c = ctm[s % ctm.len()];
            for spread in [Spr::Pad, Spr::Repeat, Spr::Reflect] {
                for alpha in [1.0f32, 0.5] {
                    for (pi, (pre, suf)) in pres.iter().enumerate() {
                        // Src over white, and SrcOver over a transparent target (the same pixels,
                        // through the SrcOver blitters)
                        let over = pi == 1 || pi >= 4;
                        let src = make(kind, p, stops[1].clone(), spread);
                        let mut ops = vec![Op::SetTransform(c)];
                        ops.extend(pre.iter().cloned());
                        ops.push(Op::Fill(PathSpec::rect(-200., -200., 400., 400.), src, Opts { mode: if over { BlendMode::SrcOver } else { BlendMode::Src }, alpha, aa: true }));
                        ops.extend(suf.iter().cloned());
                        let scene = Scene { w: S, h: S, dst: if over { Dst::Zero } else { Dst::White }, ops };
                        l.states += 1;
                        l.transitions += scene.ops.len() as u64;
                        l.traces += 1;
                        l.evals += 1;
                        match eval(&scene) {
                            Ok((hsh, n, sk)) => {
                                l.outcome(hsh);
                                l.count("pixels_asserted", n);
                                l.count("pixels_not_asserted_discontinuity", sk);
                                if n >= 100 {
                                    l.nontrivial += 1;
                                }
                            }
                            Err(v) => run.report(20_000 + s, v),
                        }
                    }
                }
            }
        });
        // shapes with gaps in their rows (bars, a ring, a diamond) under the modes that go through
        // the per-mode row blenders: every covered pixel shows the gradient colour of its own position
        {
            let shapes: Vec<PathSpec> = vec![
                PathSpec::new([PathSpec::rect(1., 0., 4., 24.).ops, PathSpec::rect(9., 2., 5., 20.).ops, PathSpec::rect(19., 0., 4., 24.).ops].concat()),
                PathSpec { evenodd: true, ops: [PathSpec::rect(2., 2., 20., 20.).ops, PathSpec::rect(8., 7., 9., 10.).ops].concat() },
                PathSpec::poly(&[(12., 0.5), (23.5, 12.), (12., 23.5), (0.5, 12.)]),
                PathSpec::new([PathSpec::rect(0., 3., 1., 1.).ops, PathSpec::rect(23., 3., 1., 1.).ops, PathSpec::rect(2., 10., 1., 8.).ops, PathSpec::rect(4., 10., 1., 8.).ops, PathSpec::rect(7., 10., 16., 8.).ops].concat()),
            ];
            let gmodes = [BlendMode::Src, BlendMode::SrcOver, BlendMode::Xor, BlendMode::Add, BlendMode::SrcAtop];
            run.bound("shapes with gaps", format!("{} geometries x {} shapes (bars, even-odd ring, diamond, dots and bars) x {} modes (over white where the mode reduces to the source there) x 2 aa x 2 spreads", ctx_geos.len(), shapes.len(), gmodes.len()));
            run.par(ctx_geos.len() * shapes.len(), |s, l| {
                let (kind, p) = &ctx_geos[s / shapes.len()];
                let shape = &shapes[s % shapes.len()];
                for mode in gmodes {
                    for aa in [true, false] {
                        for spread in [Spr::Pad, Spr::Reflect] {
                            // opaque stops: over an opaque white destination Src, SrcOver and SrcAtop give the
                            // source; over a transparent one Src, SrcOver, Xor and Add do
                            let dst = if matches!(mode, BlendMode::SrcAtop) { Dst::White } else { Dst::Zero };
                            let src = make(kind, p, stops[0].clone(), spread);
                            let scene = Scene { w: S, h: S, dst, ops: vec![Op::Fill(shape.clone(), src, Opts { mode, alpha: 1.0, aa })] };
                            l.states += 1;
                            l.transitions += 1;
                            l.traces += 1;
                            l.evals += 1;
                            match eval(&scene) {
                                Ok((hsh, n, sk)) => {
                                    l.outcome(hsh);
                                    l.count("pixels_asserted", n);
                                    l.count("pixels_not_asserted_discontinuity", sk);
                                    if n >= 100 {
                                        l.nontrivial += 1;
                                    }
                                }
                                Err(v) => run.report(25_000 + s, v),
                            }
                        }
                    }
                }
            });
        }
        // user units of 1/4096 and 1/1000 pixel (determinants down to 6e-8): the same device geometry
        // from gradients given in the huge user coordinates; only a non-invertible transform draws
        // nothing (linear and radial: the others leave the 16.16 range of the gradient matrix there)
        {
            let tg: Vec<(&'static str, Vec<f32>)> = vec![("linear", vec![2.5, 3.25, 20.0, 4.0]), ("linear", vec![6.0, 21.5, 2.5, 3.25]), ("radial", vec![12.0, 12.0, 16.0]), ("radial", vec![2.5, 3.25, 4.0])];
            run.bound("tiny determinants", format!("{} linear / radial geometries given in user units of 1/k pixel under scale 1/k, k in {{4096, 1000, 300}} x 3 spreads x 2 alphas x Src / SrcOver; linear gradients in user units of 2^24 / 2^28 pixels (a few 1e-7 units long) under that magnification", tg.len()));
            run.par(tg.len() * 3, |s, l| {
                let (kind, p) = &tg[s / 3];
                let k = [4096.0f32, 1000.0, 300.0][s % 3];
                let pk: Vec<f32> = p.iter().map(|v| v * k).collect();
                // and the other way round: user units of 2^24 / 2^28 pixels, the gradient a few 1e-7
                // units long (linear only)
                if *kind == "linear" {
                    for m in [16777216.0f32, 268435456.0] {
                        let pm: Vec<f32> = p.iter().map(|v| v / m).collect();
                        for spread in [Spr::Pad, Spr::Repeat, Spr::Reflect] {
                            let src = make(kind, &pm, stops[1].clone(), spread);
                            let ops = vec![Op::SetTransform([m, 0., 0., m, 0., 0.]), Op::Fill(PathSpec::rect(-200.0 / m, -200.0 / m, 400.0 / m, 400.0 / m), src, Opts { mode: BlendMode::Src, alpha: 1.0, aa: true })];
                            let scene = Scene { w: S, h: S, dst: Dst::White, ops };
                            l.states += 1;
                            l.transitions += 2;
                            l.traces += 1;
                            l.evals += 1;
                            match eval(&scene) {
                                Ok((hsh, n, sk)) => {
                                    l.outcome(hsh);
                                    l.count("pixels_asserted", n);
                                    l.count("pixels_not_asserted_discontinuity", sk);
                                    if n >= 100 {
                                        l.nontrivial += 1;
                                    }
                                }
                                Err(v) => run.report(26_500 + s, v),
                            }
                        }
                    }
                }
                for spread in [Spr::Pad, Spr::Repeat, Spr::Reflect] {
                    for alpha in [1.0f32, 0.5] {
                        for over in [false, true] {
                            let src = make(kind, &pk, stops[1].clone(), spread);
                            let ops = vec![Op::SetTransform([1.0 / k, 0., 0., 1.0 / k, 0., 0.]), Op::Fill(PathSpec::rect(-200.0 * k, -200.0 * k, 400.0 * k, 400.0 * k), src, Opts { mode: if over { BlendMode::SrcOver } else { BlendMode::Src }, alpha, aa: true })];
                            let scene = Scene { w: S, h: S, dst: if over { Dst::Zero } else { Dst::White }, ops };
                            l.states += 1;
                            l.transitions += 2;
                            l.traces += 1;
                            l.evals += 1;
                            match eval(&scene) {
                                Ok((hsh, n, sk)) => {
                                    l.outcome(hsh);
                                    l.count("pixels_asserted", n);
                                    l.count("pixels_not_asserted_discontinuity", sk);
                                    if n >= 100 {
                                        l.nontrivial += 1;
                                    }
                                }
                                Err(v) => run.report(26_000 + s, v),
                            }
                        }
                    }
                }
            });
        }
        // gradient-filled text: draw_text takes a user-space source like any other drawing call
        if font_available() {
            let txs: Vec<Xf> = vec![IDENT, [1., 0., 0., 1., 3., -2.], [1., 0., 0., 1., 0.5, 0.25], [1.25, 0., 0., 1.25, -2., 4.], [0.9659258, 0.25881905, -0.25881905, 0.9659258, 4., -3.]];
            run.bound("gradient-filled text", format!("{} geometries x {} transforms x 2 spreads x 2 alphas x 2 runs of large glyphs (test font): every fully covered glyph pixel shows the gradient colour of its own position", ctx_geos.len(), txs.len()));
            run.par(ctx_geos.len() * txs.len(), |s, l| {
                let (kind, p) = &ctx_geos[s / txs.len()];
                let c = txs[s % txs.len()];
                for spread in [Spr::Pad, Spr::Reflect] {
                    for alpha in [1.0f32, 0.5] {
                        for (text, size, x, y) in [("I", 70.0f32, 7.0f32, 23.0f32), ("L.", 44.0, 1.0, 21.0)] {
                            let src = make(kind, p, stops[0].clone(), spread);
                            let scene = Scene { w: S, h: S, dst: Dst::Zero, ops: vec![Op::SetTransform(c), Op::Text(size, text.to_string(), x, y, src, Opts { mode: BlendMode::SrcOver, alpha, aa: true })] };
                            l.states += 1;
                            l.transitions += 2;
                            l.traces += 1;
                            l.evals += 1;
                            match eval(&scene) {
                                Ok((hsh, n, sk)) => {
                                    l.outcome(hsh);
                                    l.count("pixels_asserted", n);
                                    l.count("text_pixels_asserted", n);
                                    l.count("pixels_not_asserted_discontinuity", sk);
                                    if n >= 100 {
                                        l.nontrivial += 1;
                                    }
                                }
                                Err(v) => run.report(27_000 + s, v),
                            }
                        }
                    }
                }
            });
        }
        // more stops than any colour table has entries: a smooth ramp in 300 steps
        {
            let many: Vec<Stop> = (0..300).map(|i| { let g = (i * 255 / 299) as u32; Stop { pos: i as f32 / 299.0, color: 0xff000000 | (g << 16) | ((255 - g) << 8) | (g / 2) } }).collect();
            let mg: Vec<(&'static str, Vec<f32>)> = vec![("linear", vec![2.5, 3.25, 20.0, 4.0]), ("linear", vec![4.0, 30.0, 4.0, -10.0]), ("radial", vec![12.0, 12.0, 16.0]), ("sweep", vec![12.0, 12.0, 0.0, 360.0])];
            run.bound("300 stops", format!("{} geometries x 3 spreads x 2 alphas, identity", mg.len()));
            run.par(mg.len() * 3, |s, l| {
                let (kind, p) = &mg[s / 3];
                let spread = [Spr::Pad, Spr::Repeat, Spr::Reflect][s % 3];
                for alpha in [1.0f32, 0.5] {
                    let scene = Scene { w: S, h: S, dst: Dst::White, ops: vec![Op::Fill(PathSpec::rect(-200., -200., 400., 400.), make(kind, p, many.clone(), spread), Opts { mode: BlendMode::Src, alpha, aa: true })] };
                    l.states += 1;
                    l.transitions += 1;
                    l.traces += 1;
                    l.evals += 1;
                    match eval(&scene) {
                        Ok((hsh, n, sk)) => {
                            l.outcome(hsh);
                            l.count("pixels_asserted", n);
                            l.count("pixels_not_asserted_discontinuity", sk);
                            l.nontrivial += 1;
                        }
                        Err(v) => run.report(40_000 + s, v),
                    }
                }
            });
        }
        // mask(): the source is positioned through the current transform like in any other draw
        run.bound("mask() with gradient sources", format!("{} geometries x {} transforms x 3 spreads: mask(all 255) over the whole surface", ctx_geos.len(), ctm.len()));
        run.par(ctx_geos.len() * ctm.len(), |s, l| {
            let (kind, p) = &ctx_geos[s / ctm.len()];
            let c = ctm[s % ctm.len()];
            for spread in [Spr::Pad, Spr::Repeat, Spr::Reflect] {
                let src = make(kind, p, stops[1].clone(), spread);
                let scene = Scene { w: S, h: S, dst: Dst::Zero, ops: vec![Op::SetTransform(c), Op::Mask(0, 0, S, S, vec![255u8; (S * S) as usize], src)] };
                l.states += 1;
                l.transitions += 2;
                l.traces += 1;
                l.evals += 1;
                match eval(&scene) {
                    Ok((hsh, n, sk)) => {
                        l.outcome(hsh);
                        l.count("pixels_asserted", n);
                        l.count("pixels_not_asserted_discontinuity", sk);
                        if n >= 100 {
                            l.nontrivial += 1;
                        }
                    }
                    Err(v) => run.report(30_000 + s, v),
                }
            }
        });
        // wide and tall surfaces: device coordinates beyond 256
        // (kind, geometry, length of the strip); the 8200-long ones show any chunking of long spans
        let wide: Vec<(&'static str, Vec<f32>, i32)> = vec![
            ("linear", vec![250., 0., 290., 0.], 300),
            ("linear", vec![10., 1., 280., 1.], 300),
            ("radial", vec![270., 1., 20.], 300),
            ("twocircle", vec![270., 1., 2., 272., 1., 25.], 300),
            ("sweep", vec![265., -6., 0., 360.], 300),
            ("linear", vec![8000., 0., 8190., 0.], 8200),
            ("linear", vec![4200., 1., 4000., 1.], 8200),
            ("radial", vec![8100., 1., 64.], 8200),
            ("radial", vec![1500., 0.5, 256.], 8200),
            // gradients thousands of pixels long (fixed-point precision of the gradient matrix)
            ("linear", vec![8100., 1., 3000., 1.], 8200),
            ("radial", vec![8000., 1., 900.], 8200),
        ];
        run.bound("wide-tall", format!("{} geometries (and their transposes) on 300x2 and 8200x2 strips x up to {} stop sets x 3 spreads x 2 alphas", wide.len(), stops.len().min(3)));
        run.par(wide.len() * 2, |s, l| {
            let (kind, p, len) = &wide[s / 2];
            let len = *len;
            let tall = s % 2 == 1;
            let p: Vec<f32> = if tall && *kind != "sweep" {
                match p.len() {
                    4 => vec![p[1], p[0], p[3], p[2]],
                    3 => vec![p[1], p[0], p[2]],
                    _ => vec![p[1], p[0], p[2], p[4], p[3], p[5]],
                }
            } else if tall {
                vec![p[1], p[0], p[2], p[3]]
            } else {
                p.clone()
            };
            let (w, h) = if tall { (2, len) } else { (len, 2) };
            for st in stops.iter().take(if len > 300 { 1 } else { 3 }) {
                for spread in [Spr::Pad, Spr::Repeat, Spr::Reflect] {
                    for alpha in [1.0f32, 0.5] {
                        let src = make(kind, &p, st.clone(), spread);
                        let scene = Scene { w, h, dst: if len > 300 { Dst::Zero } else { Dst::White }, ops: vec![Op::Fill(PathSpec::rect(-200., -200., 9000., 9000.), src, Opts { mode: if len > 300 { BlendMode::SrcOver } else { BlendMode::Src }, alpha, aa: true })] };
                        l.states += 1;
                        l.transitions += 1;
                        l.traces += 1;
                        l.evals += 1;
                        match eval(&scene) {
                            Ok((hsh, n, sk)) => {
                                l.outcome(hsh);
                                l.count("pixels_asserted", n);
                                l.count("pixels_not_asserted_discontinuity", sk);
                                if n >= 100 {
                                    l.nontrivial += 1;
                                }
                            }
                            Err(v) => run.report(10_000 + s, v),
                        }
                    }
                }
            }
        });
    }

    fn replay(&self, case: &str) -> Result<Option<Violation>, String> {
        let scene = parse_scene(case)?;
        Ok(eval(&scene).err())
    }
}
