//! C19 Pixel word layout, byte views and PNG export agree.

use crate::engine::*;
use raqote::*;
use std::path::PathBuf;

pub struct C19;

/// a=0 with non-zero colour, a=1, a=0x80, a=0xff, c=a, c<a, distinct bytes per channel
const PIX12: [u32; 12] = [0x00000000, 0x00102030, 0x01010000, 0x01000100, 0x80808080, 0x80402010, 0x80000001, 0xff010203, 0xffffffff, 0xff0000ff, 0xfe7f3f1f, 0x0a090807];

fn case_str(w: i32, h: i32, px: &[u32]) -> String {
    format!("kind=surface w={} h={} px={}", w, h, px.iter().map(|p| format!("{:08x}", p)).collect::<Vec<_>>().join("."))
}

fn tmp_png(root: &PathBuf, tag: usize) -> PathBuf {
    let d = root.join("target").join("tmp").join(format!("c19-{}", std::process::id()));
    let _ = std::fs::create_dir_all(&d);
    d.join(format!("t{}.png", tag))
}

fn expected_rgba(p: u32) -> [u8; 4] {
    let a = p >> 24;
    let (mut r, mut g, mut b) = ((p >> 16) & 0xff, (p >> 8) & 0xff, p & 0xff);
    if a > 0 {
        r = r * 255 / a;
        g = g * 255 / a;
        b = b * 255 / a;
    }
    [r as u8, g as u8, b as u8, a as u8]
}

const FILE_NAMES: [&[u8]; 3] = [b"caf\xe9.png", b"\xff\xfe name with spaces.png", b"trailing.dot."];

/// write_png to file name number `ni` (bytes that are not valid UTF-8 among them): a PNG must be
/// at exactly that path afterwards
fn eval_filename(root: &PathBuf, ni: usize) -> Option<Violation> {
    use std::os::unix::ffi::OsStrExt;
    let dir = root.join("target").join("tmp");
    let _ = std::fs::create_dir_all(&dir);
    // the first names are joined to an absolute directory; the others are relative paths (a bare
    // file name, "./name", a path through "sub/..") given with that directory as the working directory
    let rel: [&str; 5] = ["bare.png", "./dot-slash.png", "sub/../through-parent.png", "link-to-target.png", "second-name.png"];
    let (given, shown): (PathBuf, String) = if ni < FILE_NAMES.len() { (dir.join(std::ffi::OsStr::from_bytes(FILE_NAMES[ni])), String::from_utf8_lossy(FILE_NAMES[ni]).to_string()) } else { (PathBuf::from(rel[ni - FILE_NAMES.len()]), format!("{} (relative to the working directory)", rel[ni - FILE_NAMES.len()])) };
    let old_cwd = std::env::current_dir().ok();
    if ni >= FILE_NAMES.len() {
        let _ = std::fs::create_dir_all(dir.join("sub"));
        if std::env::set_current_dir(&dir).is_err() {
            return None;
        }
    }
    let abs = dir.join(&given);
    let _ = std::fs::remove_file(&abs);
    // the last two: the path is a symbolic link to / a second hard link of an existing file: the
    // image goes into the file the path designates (so it is also seen through the other name)
    let other = dir.join("the-other-name.png");
    let kind = ni as i64 - FILE_NAMES.len() as i64;
    if kind == 3 || kind == 4 {
        let _ = std::fs::remove_file(&other);
        let _ = std::fs::write(&other, b"old contents, longer than nothing");
        let made = if kind == 3 { std::os::unix::fs::symlink("the-other-name.png", &abs).is_ok() } else { std::fs::hard_link(&other, &abs).is_ok() };
        if !made {
            if let Some(c) = old_cwd {
                let _ = std::env::set_current_dir(c);
            }
            return None;
        }
    }
    let px: Vec<u32> = vec![0xff102030, 0x80402010, 0, 0xffffffff, 0x01010101, 0xfe7f00fe];
    let r = guard(|| {
        let dt = DrawTarget::from_vec(3, 2, px.clone());
        dt.write_png(&given).map_err(|e| format!("{:?}", e))
    });
    if let Some(c) = old_cwd {
        let _ = std::env::set_current_dir(c);
    }
    let ok = match &r {
        Ok(Ok(())) => match std::fs::read(&abs) {
            Ok(raw) => raw.len() > 20 && raw[..4] == [0x89, b'P', b'N', b'G'],
            Err(_) => false,
        },
        _ => false,
    };
    // through the other name the same PNG must be visible, and a symbolic link stays one
    let ok = ok
        && if kind == 3 || kind == 4 {
            let same = std::fs::read(&other).ok() == std::fs::read(&abs).ok();
            let still_link = kind != 3 || std::fs::symlink_metadata(&abs).map(|m| m.file_type().is_symlink()).unwrap_or(false);
            same && still_link
        } else {
            true
        };
    let _ = std::fs::remove_file(&abs);
    let _ = std::fs::remove_file(&other);
    if ok {
        None
    } else {
        Some(Violation::new("layout/png-not-written-to-the-given-path", format!("kind=filename idx={}", ni), format!("write_png did not leave a PNG file at exactly the path it was given ({:?}); it returned {:?}", shown, r)))
    }
}

fn eval_surface(root: &PathBuf, tag: usize, w: i32, h: i32, px: &[u32]) -> Result<u64, Violation> {
    let case = case_str(w, h, px);
    let n = (w * h) as usize;
    let bad = |clause: &str, d: String| Err(Violation::new(format!("layout/{}", clause), case.clone(), d));
    let r = guard(|| -> Result<u64, (String, String)> {
        let mut dt = DrawTarget::from_vec(w, h, px.to_vec());
        if dt.width() != w || dt.height() != h {
            return Err(("dimensions".into(), format!("{}x{}", dt.width(), dt.height())));
        }
        if dt.get_data() != px {
            return Err(("from_vec-get_data".into(), format!("{:x?}", dt.get_data())));
        }
        // byte view: little-endian B,G,R,A of the same memory
        let bytes: Vec<u8> = dt.get_data_u8().to_vec();
        if bytes.len() != 4 * n {
            return Err(("byte-view-length".into(), format!("{} bytes for {} pixels", bytes.len(), n)));
        }
        for i in 0..n {
            let p = px[i];
            let want = [p as u8, (p >> 8) as u8, (p >> 16) as u8, (p >> 24) as u8];
            if bytes[4 * i..4 * i + 4] != want {
                return Err(("byte-view-order".into(), format!("pixel {} = {:#010x}: bytes {:x?}, expected B,G,R,A = {:x?}", i, p, &bytes[4 * i..4 * i + 4], want)));
            }
        }
        // writes through one view are visible through the others (every position on small
        // surfaces; the positions around 0, powers of two, the middle and the end on large ones)
        let positions: Vec<usize> = if n <= 64 {
            (0..n).collect()
        } else {
            let mut v: Vec<usize> = vec![0, 1, 255, 256, 16383, 16384, 65535, 65536, n / 2, n - 2, n - 1];
            v.retain(|&i| i < n);
            v.sort();
            v.dedup();
            v
        };
        for i in positions {
            let old = dt.get_data()[i];
            dt.get_data_mut()[i] = 0xa1b2c3d4;
            if dt.get_data_u8()[4 * i..4 * i + 4] != [0xd4, 0xc3, 0xb2, 0xa1] {
                return Err(("word-write-visible-in-bytes".into(), format!("index {}", i)));
            }
            for k in 0..4 {
                dt.get_data_u8_mut()[4 * i + k] = 0x11 * (k as u8 + 1);
            }
            if dt.get_data()[i] != 0x44332211 {
                return Err(("byte-write-visible-in-words".into(), format!("index {}: {:#010x}", i, dt.get_data()[i])));
            }
            // neighbours untouched
            for j in 0..n {
                if j != i && dt.get_data()[j] != px[j] {
                    return Err(("view-write-touched-neighbour".into(), format!("wrote {}, changed {}", i, j)));
                }
            }
            dt.get_data_mut()[i] = old;
        }
        // the views are the surface's memory also while a layer is open (under a clip rectangle the
        // layer is smaller than the surface): writes through the mutable views are seen by the
        // others and survive the pop of the untouched layer
        if n > 0 && n <= 64 {
            dt.push_clip_rect(IntRect::new(IntPoint::new(0, 0), IntPoint::new((w - 1).max(1), h)));
            dt.push_layer(1.0);
            let (lm, lb) = (dt.get_data_mut().len(), dt.get_data_u8_mut().len());
            if dt.get_data() != px || lm != n || lb != 4 * n {
                return Err(("views-with-open-layer".into(), format!("get_data {:x?}, get_data_mut len {}, get_data_u8_mut len {}", dt.get_data(), lm, lb)));
            }
            // the export is the surface, not the open layer
            if w > 0 && h > 0 {
                let (pl, pp) = (tmp_png(root, tag + 500_000), tmp_png(root, tag + 600_000));
                let rl = dt.write_png(&pl);
                let plain = DrawTarget::from_vec(w, h, px.to_vec());
                let rp = plain.write_png(&pp);
                let (bl, bp) = (std::fs::read(&pl).ok(), std::fs::read(&pp).ok());
                let _ = std::fs::remove_file(&pl);
                let _ = std::fs::remove_file(&pp);
                if rl.is_err() != rp.is_err() || bl != bp {
                    return Err(("png-with-open-layer-differs".into(), format!("write_png with an open layer: {:?}, {} bytes; without: {:?}, {} bytes", rl.is_ok(), bl.map_or(0, |b| b.len()), rp.is_ok(), bp.map_or(0, |b| b.len()))));
                }
            }
            let i = n - 1;
            dt.get_data_mut()[i] = 0xa1b2c3d4;
            if dt.get_data()[i] != 0xa1b2c3d4 || dt.get_data_u8()[4 * i..4 * i + 4] != [0xd4, 0xc3, 0xb2, 0xa1] {
                return Err(("word-write-with-open-layer-visible".into(), format!("index {}: get_data {:#010x}", i, dt.get_data()[i])));
            }
            dt.get_data_u8_mut()[0] = 0x5a;
            if dt.get_data()[0] & 0xff != 0x5a {
                return Err(("byte-write-with-open-layer-visible".into(), format!("{:#010x}", dt.get_data()[0])));
            }
            dt.pop_layer();
            dt.pop_clip();
            let mut want = px.to_vec();
            want[i] = 0xa1b2c3d4;
            want[0] = (want[0] & 0xffffff00) | 0x5a;
            if dt.get_data() != &want[..] {
                return Err(("writes-with-open-layer-survive-the-pop".into(), format!("{:x?} expected {:x?}", dt.get_data(), want)));
            }
            dt.get_data_mut().copy_from_slice(px);
            // into_vec / into_inner hand back the surface's words as the views showed them, also when
            // layers are still open (drawn into, composited with Src, nested under a clip rectangle):
            // consuming the target does not composite anything
            for variant in 0..3 {
                for inner in [false, true] {
                    let mut t = DrawTarget::from_vec(w, h, px.to_vec());
                    match variant {
                        0 => {
                            t.push_layer(1.0);
                            t.clear(SolidSource { r: 0x10, g: 0x80, b: 0x20, a: 0xff });
                        }
                        1 => t.push_layer_with_blend(0.5, BlendMode::Src),
                        _ => {
                            t.push_clip_rect(IntRect::new(IntPoint::new(0, 0), IntPoint::new((w - 1).max(1), h)));
                            t.push_layer(0.5);
                            t.clear(SolidSource { r: 0x40, g: 0x40, b: 0x40, a: 0x40 });
                            t.push_layer_with_blend(1.0, BlendMode::Xor);
                            t.clear(SolidSource { r: 0xff, g: 0xff, b: 0xff, a: 0xff });
                        }
                    }
                    let shown = t.get_data().to_vec();
                    let out = if inner { t.into_inner() } else { t.into_vec() };
                    if shown != px || out != px {
                        return Err((format!("{}-with-open-layer", if inner { "into_inner" } else { "into_vec" }), format!("variant {}: get_data showed {:x?}, the consumed target returned {:x?}, the surface holds {:x?}", variant, shown, out, px)));
                    }
                }
            }
        }
        // PNG export
        if w > 0 && h > 0 {
            let path = tmp_png(root, tag);
            // the target path already holds a longer file (the export must replace it)
            std::fs::write(&path, vec![0xaau8; 8192.max(8 * n + 1024)]).map_err(|e| ("png-precreate".to_string(), e.to_string()))?;
            if let Err(e) = dt.write_png(&path) {
                return Err(("write_png-failed".into(), format!("{:?}", e)));
            }
            // the file is exactly one PNG datastream: signature first, IEND chunk last (a target
            // path that already holds a longer file must be replaced, not overwritten in place)
            let raw = std::fs::read(&path).map_err(|e| ("png-open".to_string(), e.to_string()))?;
            const SIG: [u8; 8] = [0x89, b'P', b'N', b'G', 0x0d, 0x0a, 0x1a, 0x0a];
            const IEND: [u8; 12] = [0, 0, 0, 0, b'I', b'E', b'N', b'D', 0xae, 0x42, 0x60, 0x82];
            if raw.len() < 20 || raw[..8] != SIG || raw[raw.len() - 12..] != IEND {
                return Err(("png-file-is-not-exactly-one-datastream".into(), format!("{} bytes; starts {:x?}, ends {:x?}", raw.len(), &raw[..raw.len().min(8)], &raw[raw.len().saturating_sub(12)..])));
            }
            let f = std::fs::File::open(&path).map_err(|e| ("png-open".to_string(), e.to_string()))?;
            let dec = png::Decoder::new(f);
            let mut reader = dec.read_info().map_err(|e| ("png-decode".to_string(), e.to_string()))?;
            let mut buf = vec![0; reader.output_buffer_size()];
            let info = reader.next_frame(&mut buf).map_err(|e| ("png-decode".to_string(), e.to_string()))?;
            if info.width != w as u32 || info.height != h as u32 || info.color_type != png::ColorType::Rgba || info.bit_depth != png::BitDepth::Eight {
                return Err(("png-header".into(), format!("{}x{} {:?} {:?}", info.width, info.height, info.color_type, info.bit_depth)));
            }
            let data = &buf[..info.buffer_size()];
            if data.len() != 4 * n {
                return Err(("png-size".into(), format!("{} bytes", data.len())));
            }
            for i in 0..n {
                let want = expected_rgba(px[i]);
                if data[4 * i..4 * i + 4] != want {
                    return Err(("png-pixel".into(), format!("pixel {} ({},{}) = {:#010x}: PNG has RGBA {:?}, expected {:?}", i, i as i32 % w, i as i32 / w, px[i], &data[4 * i..4 * i + 4], want)));
                }
            }
        } else {
            // zero-sized: must return (Ok or Err), not panic
            let path = tmp_png(root, tag);
            let _ = dt.write_png(&path);
        }
        // destructors round-trip
        let v = dt.into_vec();
        if v != px {
            return Err(("into_vec".into(), format!("{:x?}", v)));
        }
        let dt2 = DrawTarget::from_backing(w, h, v);
        if dt2.get_data() != px {
            return Err(("from_backing".into(), "data differs".into()));
        }
        let inner = dt2.into_inner();
        if inner != px {
            return Err(("into_inner".into(), "data differs".into()));
        }
        // from_vec with shorter / longer vectors: the given pixels are kept, the rest is 0
        if n > 0 {
            let short = DrawTarget::from_vec(w, h, px[..n - 1].to_vec());
            if short.get_data()[..n - 1] != px[..n - 1] || short.get_data()[n - 1] != 0 || short.get_data().len() != n {
                return Err(("from_vec-shorter".into(), format!("{:x?}", short.get_data())));
            }
        }
        // a recycled vector: shorter than the surface but with spare capacity still holding old
        // words (a previous frame cleared or truncated): what from_vec adds is 0, not what was there
        if n > 0 {
            for keep in [0usize, n / 2, n - 1] {
                let mut v: Vec<u32> = Vec::with_capacity(n + 3);
                v.extend(px.iter().map(|p| p ^ 0x5a5a5a5a));
                v.extend([0xdeadbeefu32, 0xfeedface, 0x12345678]);
                v.truncate(keep);
                let want: Vec<u32> = px.iter().take(keep).map(|p| p ^ 0x5a5a5a5a).chain(std::iter::repeat(0)).take(n).collect();
                let dt3 = DrawTarget::from_vec(w, h, v);
                if dt3.get_data() != &want[..] {
                    return Err(("from_vec-recycled-vector".into(), format!("kept {} words of a vector with capacity {}: {:x?}, expected {:x?}", keep, n + 3, dt3.get_data(), want)));
                }
            }
        }
        let mut longer = px.to_vec();
        longer.push(0xdeadbeef);
        let long = DrawTarget::from_vec(w, h, longer);
        if long.get_data() != px {
            return Err(("from_vec-longer".into(), format!("{:x?}", long.get_data())));
        }
        Ok(hash64(&bytes))
    });
    match r {
        Ok(Ok(hh)) => Ok(hh),
        Ok(Err((c, d))) => bad(&c, d),
        Err(p) => bad("panic", p),
    }
}

impl Check for C19 {
    fn id(&self) -> &'static str {
        "C19"
    }
    fn title(&self) -> &'static str {
        "Pixel word layout, byte views and PNG export agree"
    }

    fn run(&self, run: &Run) {
        let q = false;
        run.rule("every assignment of a 12-value pixel alphabet to surfaces with up to 4 pixels (5 in the thorough tier), and a one-hot scan (every position x every value over two backgrounds) for the larger sizes up to 3x3, is built with from_vec and observed through get_data, get_data_u8, both mutable views, write_png (decoded with the png crate), into_vec, from_backing, into_inner; SolidSource::to_u32 over a 17^4 channel grid; non-trivial = surface has at least one pixel");
        run.assume("little-endian host for the byte-view clause; the png crate's decoder is trusted");
        let root = run.root.clone();
        // full assignments for <= 4 pixels
        let mut sizes_small: Vec<(i32, i32)> = vec![(0, 0), (0, 2), (3, 0), (1, 1), (2, 1), (1, 2), (3, 1), (1, 3), (2, 2)];
        if !run.tier.quick() {
            // thorough: every assignment to 5-pixel surfaces as well (12^5 each)
            sizes_small.extend([(5, 1), (1, 5)]);
        }
        for &(w, h) in &sizes_small {
            let n = (w * h) as usize;
            if q && n == 4 {
                // quick: 2x2 over an 8-value subset
            }
            let vals: Vec<u32> = if n == 4 && q { PIX12[..8].to_vec() } else { PIX12.to_vec() };
            let total = vals.len().pow(n as u32);
            run.bound(&format!("assignments {}x{}", w, h), format!("{}^{} = {} surfaces", vals.len(), n, total));
            let shards = if n >= 2 { vals.len() * vals.len() } else { 1 };
            run.par(shards, |s, l| {
                let per = total / shards;
                for k in 0..per {
                    let mut idx = s * per + k;
                    let mut px = Vec::with_capacity(n);
                    for _ in 0..n {
                        px.push(vals[idx % vals.len()]);
                        idx /= vals.len();
                    }
                    l.states += 1;
                    l.transitions += 8 + 2 * n as u64;
                    l.traces += 1;
                    l.evals += 1;
                    if n > 0 {
                        l.nontrivial += 1;
                    }
                    match eval_surface(&root, s, w, h, &px) {
                        Ok(hh) => l.outcome(hh),
                        Err(v) => run.report(s, v),
                    }
                    if s == 5 && k == 7 {
                        run.sample(case_str(w, h, &px));
                    }
                }
            });
        }
        // one-hot scans
        let sizes_big: Vec<(i32, i32)> = if q { vec![(3, 2), (3, 3)] } else { vec![(3, 2), (2, 3), (3, 3), (7, 5)] };
        for &(w, h) in &sizes_big {
            let n = (w * h) as usize;
            run.bound(&format!("one-hot {}x{}", w, h), format!("{} positions x 12 values x 2 backgrounds", n));
            run.par(n, |pos, l| {
                for bg in [0x00000000u32, 0xff123456] {
                    for &v in PIX12.iter() {
                        let mut px = vec![bg; n];
                        px[pos] = v;
                        l.states += 1;
                        l.transitions += 8 + 2 * n as u64;
                        l.traces += 1;
                        l.evals += 1;
                        l.nontrivial += 1;
                        match eval_surface(&root, 1000 + pos, w, h, &px) {
                            Ok(hh) => l.outcome(hh),
                            Err(e) => run.report(pos, e),
                        }
                    }
                }
            });
        }
        // long surfaces: one-hot at positions around 0, 256 and the far end of each row / column
        for &(w, h) in &[(300i32, 2i32), (2, 300), (257, 3)] {
            let n = (w * h) as usize;
            let mut positions: Vec<usize> = Vec::new();
            for y in [0, 1, h / 2, h - 2, h - 1] {
                for x in [0, 1, 255.min(w - 1), 256.min(w - 1), w / 2, w - 2, w - 1] {
                    if x >= 0 && y >= 0 {
                        positions.push((y * w + x) as usize);
                    }
                }
            }
            positions.sort();
            positions.dedup();
            run.bound(&format!("one-hot {}x{}", w, h), format!("{} positions x 3 values x 2 backgrounds", positions.len()));
            run.par(positions.len(), |pi, l| {
                let pos = positions[pi];
                for bg in [0x00000000u32, 0xff123456] {
                    for &v in &[PIX12[1], PIX12[5], PIX12[9]] {
                        let mut px = vec![bg; n];
                        px[pos] = v;
                        l.states += 1;
                        l.transitions += 8 + 2 * n as u64;
                        l.traces += 1;
                        l.evals += 1;
                        l.nontrivial += 1;
                        match eval_surface(&root, 3000 + pi, w, h, &px) {
                            Ok(hh) => l.outcome(hh),
                            Err(e) => run.report(3000 + pi, e),
                        }
                    }
                }
            });
        }
        // large surfaces (more than 16384 / 65536 pixels, rows longer than 16384 pixels): whole
        // patterns whose zero words and non-zero words alternate with periods prime to any
        // power of two, and half-painted canvases
        let big: Vec<(i32, i32)> = if q { vec![(200, 200), (16400, 1), (1, 16400), (16385, 2), (300, 300), (1025, 1025)] } else { vec![(200, 200), (16400, 1), (1, 16400), (16385, 2), (300, 300), (70000, 1), (3, 40000), (1024, 70), (1025, 1025), (2051, 1027)] };
        run.bound("large surfaces", format!("{:?} x 4 whole-surface patterns (period-251 palette with zero words, top half painted, bottom half painted, one-hot far end)", big));
        run.par(big.len() * 4, |s, l| {
            let (w, h) = big[s / 4];
            let n = (w * h) as usize;
            let pal = |k: usize| -> u32 {
                match k % 7 {
                    0 | 3 => 0,
                    1 => 0xff000000 | ((k % 251) as u32) << 8,
                    2 => 0x80402010,
                    4 => 0x01010101,
                    5 => 0xfe7f00fe,
                    _ => 0x00000000 | (((k % 251) as u32 / 2) << 24) | ((k % 251) as u32 / 4),
                }
            };
            let px: Vec<u32> = match s % 4 {
                0 => (0..n).map(|k| pal(k % 251 + k / 251)).collect(),
                1 => (0..n).map(|k| if k < n / 2 { pal(k % 251 + 1) | 0xff000000 } else { 0 }).collect(),
                2 => (0..n).map(|k| if k >= n / 2 { 0xff336699 } else { 0 }).collect(),
                _ => (0..n).map(|k| if k == n - 1 || k == 0 { 0xffabcdef } else { 0 }).collect(),
            };
            l.states += 1;
            l.transitions += 8 + 2 * n as u64;
            l.traces += 1;
            l.evals += 1;
            l.nontrivial += 1;
            match eval_surface(&root, 7000 + s, w, h, &px) {
                Ok(hh) => l.outcome(hh),
                Err(e) => run.report(7000 + s, e),
            }
        });
        // the export goes to exactly the path it is given, also when that is not valid UTF-8
        run.bound("file names", "export of a 3x2 surface to file names with non-UTF-8 bytes, spaces and a trailing dot in an existing directory, and to relative paths (bare file name, ./name, sub/../name), through a symbolic link and through a second hard link of an existing file".to_string());
        run.seq(|l| {
            for ni in 0..FILE_NAMES.len() + 5 {
                l.states += 1;
                l.transitions += 1;
                l.traces += 1;
                l.evals += 1;
                l.nontrivial += 1;
                match eval_filename(&root, ni) {
                    None => l.outcome(ni as u64 + 77),
                    Some(v) => run.report(8000 + ni, v),
                }
            }
        });
        // every (a, c <= a) pair, for each colour channel: un-premultiply must be floor(c*255/a)
        run.bound("unpremultiply table", "all 32896 (alpha, colour <= alpha) pairs x 3 channel positions, as 256-pixel-wide surfaces through write_png".to_string());
        run.par(3 * 16, |s, l| {
            let ch = s / 16; // 0 = r, 1 = g, 2 = b
            let band = (s % 16) as u32; // alphas band*16 .. band*16+15
            let shift = [16u32, 8, 0][ch];
            let mut px = Vec::new();
            for a in band * 16..band * 16 + 16 {
                for c in 0..256u32 {
                    let cc = c.min(a);
                    px.push((a << 24) | (cc << shift) | ((cc / 2) << [8u32, 0, 16][ch]));
                }
            }
            l.states += 1;
            l.transitions += 10;
            l.traces += 1;
            l.evals += 1;
            l.nontrivial += 1;
            match eval_surface(&root, 5000 + s, 256, 16, &px) {
                Ok(hh) => l.outcome(hh),
                Err(v) => run.report(5000 + s, v),
            }
        });
        // to_u32 packing
        let ch: Vec<u8> = (0..17).map(|i| (i * 16).min(255) as u8).collect();
        run.bound("to_u32", "17^4 channel tuples".to_string());
        run.par(17, |ai, l| {
            for &r in &ch {
                for &g in &ch {
                    for &b in &ch {
                        let a = ch[ai];
                        let got = SolidSource { r, g, b, a }.to_u32();
                        let want = ((a as u32) << 24) | ((r as u32) << 16) | ((g as u32) << 8) | b as u32;
                        l.states += 1;
                        l.transitions += 1;
                        l.traces += 1;
                        l.evals += 1;
                        l.nontrivial += 1;
                        l.outcome(got as u64);
                        if got != want {
                            run.report(ai, Violation::new("layout/to_u32", format!("kind=to_u32 a={} r={} g={} b={}", a, r, g, b), format!("to_u32 = {:#010x}, expected {:#010x}", got, want)));
                        }
                    }
                }
            }
        });
        run.sample("kind=to_u32 a=128 r=16 g=32 b=48".to_string());
        let _ = std::fs::remove_dir_all(run.root.join("target").join("tmp").join(format!("c19-{}", std::process::id())));
    }

    fn replay(&self, case: &str) -> Result<Option<Violation>, String> {
        let m = kv(case);
        match kv_s(&m, "kind")? {
            "filename" => {
                let root = std::env::var("VERIF_ROOT").map(PathBuf::from).unwrap_or_else(|_| PathBuf::from("/verif"));
                Ok(eval_filename(&root, kv_i(&m, "idx")? as usize))
            }
            "surface" => {
                let px: Vec<u32> = {
                    let s = kv_s(&m, "px").unwrap_or("");
                    if s.is_empty() { Vec::new() } else { s.split('.').map(|t| u32::from_str_radix(t, 16).map_err(|e| e.to_string())).collect::<Result<_, _>>()? }
                };
                let root = std::env::var("VERIF_ROOT").map(PathBuf::from).unwrap_or_else(|_| PathBuf::from("/verif"));
                Ok(eval_surface(&root, 999_999, kv_i(&m, "w")? as i32, kv_i(&m, "h")? as i32, &px).err())
            }
            "to_u32" => {
                let (a, r, g, b) = (kv_i(&m, "a")? as u8, kv_i(&m, "r")? as u8, kv_i(&m, "g")? as u8, kv_i(&m, "b")? as u8);
                let got = SolidSource { r, g, b, a }.to_u32();
                let want = ((a as u32) << 24) | ((r as u32) << 16) | ((g as u32) << 8) | b as u32;
                Ok(if got != want { Some(Violation::new("layout/to_u32", case.to_string(), format!("to_u32 = {:#010x}, expected {:#010x}", got, want))) } else { None })
            }
            o => Err(format!("bad kind {}", o)),
        }
    }
}
