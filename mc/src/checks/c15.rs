//! C15 Surface copies and blends place exactly the requested block.
//!
//! Exhaustive over small source/destination sizes, all src_rect with coordinates in [-1,4]
//! (inside, overlapping, outside, empty, inverted), all dst in [-4,4]^2, copy / blend (all
//! modes) / blend_with_alpha; oracle M-BLOCK (a plain double loop).

use crate::engine::*;
use crate::model::pix;
use crate::scene::*;
use raqote::*;

pub struct C15;

#[derive(Clone, Copy, Debug, PartialEq)]
enum BOp {
    Copy,
    Blend(BlendMode),
    Alpha(f32),
}

#[derive(Clone, Debug)]
struct Case {
    sw: i32,
    sh: i32,
    dw: i32,
    dh: i32,
    r: [i32; 4],
    d: [i32; 2],
    op: BOp,
    /// state that must be ignored: 0 none; 1 the destination has a transform, a clip rect and an
    /// open layer; 2 the destination has a singular transform; 3 the *source* has a clip and an
    /// open layer with content in it; 4 the source, 5 the destination comes from an over-long vector; 6, 7, 8 the destination's clip is empty (zero-sized, inverted, disjoint)
    ctx: u8,
}

fn op_str(o: BOp) -> String {
    match o {
        BOp::Copy => "copy".into(),
        BOp::Blend(m) => format!("blend:{}", mode_name(m)),
        BOp::Alpha(a) => format!("alpha:{:?}", a),
    }
}

fn case_str(c: &Case) -> String {
    format!("sw={} sh={} dw={} dh={} r={},{},{},{} d={},{} op={} ctx={}", c.sw, c.sh, c.dw, c.dh, c.r[0], c.r[1], c.r[2], c.r[3], c.d[0], c.d[1], op_str(c.op), c.ctx)
}

fn src_pixels(w: i32, h: i32) -> Vec<u32> {
    (0..(w * h) as usize).map(|i| DISTINCT16[(i * 3 + 1) % 16]).collect()
}

fn dst_pixels(w: i32, h: i32) -> Vec<u32> {
    (0..(w * h) as usize).map(|i| DISTINCT16[(i * 5 + 2) % 16]).collect()
}

/// M-BLOCK. None when the blend primitive itself is undefined (panics) for some pixel pair.
fn model(c: &Case, src: &[u32], dst: &[u32]) -> Option<Vec<u32>> {
    let mut out = dst.to_vec();
    let r = c.r;
    // the part of src_rect inside the source surface
    let x0 = r[0].max(0);
    let y0 = r[1].max(0);
    let x1 = r[2].min(c.sw);
    let y1 = r[3].min(c.sh);
    for sy in y0..y1 {
        for sx in x0..x1 {
            let tx = sx as i64 - r[0] as i64 + c.d[0] as i64;
            let ty = sy as i64 - r[1] as i64 + c.d[1] as i64;
            if tx < 0 || ty < 0 || tx >= c.dw as i64 || ty >= c.dh as i64 {
                continue;
            }
            let (tx, ty) = (tx as i32, ty as i32);
            let s = src[(sy * c.sw + sx) as usize];
            let di = (ty * c.dw + tx) as usize;
            out[di] = match c.op {
                BOp::Copy => s,
                BOp::Blend(m) => pix::try_blend(m, s, out[di])?,
                BOp::Alpha(a) => sw_composite::over_in(s, out[di], pix::alpha_byte(a).min(255)),
            };
        }
    }
    Some(out)
}

enum Res {
    Ok(u64, bool),
    Skip,
    Bad(Violation),
}

fn eval(c: &Case) -> Res {
    let sp = src_pixels(c.sw, c.sh);
    let dp = dst_pixels(c.dw, c.dh);
    let expected = match model(c, &sp, &dp) {
        Some(e) => e,
        None => return Res::Skip,
    };
    let r = guard(|| {
        // ctx 4 / 5: the source / the destination is built by from_vec from a longer, recycled
        // vector (it is cut to width x height); the source's as long as the destination's buffer
        let mut spv = sp.clone();
        let mut dpv = dp.clone();
        if c.ctx == 4 {
            let n = ((c.dw * c.dh) as usize).max(spv.len() + 3);
            while spv.len() < n {
                spv.push(0xff102030 + spv.len() as u32);
            }
        }
        if c.ctx == 5 {
            for k in 0..(c.sw * c.sh + 2) as u32 {
                dpv.push(0xff302010 + k);
            }
        }
        let mut src = DrawTarget::from_vec(c.sw, c.sh, spv);
        let mut dst = DrawTarget::from_vec(c.dw, c.dh, dpv);
        if c.ctx == 2 {
            dst.set_transform(&Transform::new(1., 2., 2., 4., 0., 0.));
        }
        if c.ctx == 3 {
            src.push_clip_rect(IntRect::new(IntPoint::new(1, 0), IntPoint::new(c.sw, c.sh)));
            src.push_layer(0.5);
            src.fill_rect(0., 0., c.sw as f32, c.sh as f32, &Source::Solid(SolidSource { r: 0x40, g: 0x80, b: 0x20, a: 0xff }), &DrawOptions::new());
        }
        // ctx 6 / 7 / 8: the destination's current clip is empty (zero-sized, inverted, two disjoint
        // rectangles): the clip is ignored like every other clip
        if c.ctx == 6 {
            dst.push_clip_rect(IntRect::new(IntPoint::new(1, 1), IntPoint::new(1, 1)));
        }
        if c.ctx == 7 {
            dst.push_clip_rect(IntRect::new(IntPoint::new(2, 2), IntPoint::new(0, 0)));
        }
        if c.ctx == 8 {
            dst.push_clip_rect(IntRect::new(IntPoint::new(0, 0), IntPoint::new(1, 1)));
            dst.push_clip_rect(IntRect::new(IntPoint::new(2, 0), IntPoint::new(3, 1)));
        }
        if c.ctx == 1 {
            dst.set_transform(&Transform::scale(2., 2.));
            dst.push_clip_rect(IntRect::new(IntPoint::new(0, 0), IntPoint::new(1, 1)));
            dst.push_layer(0.5);
        }
        let rect = IntRect::new(IntPoint::new(c.r[0], c.r[1]), IntPoint::new(c.r[2], c.r[3]));
        let p = IntPoint::new(c.d[0], c.d[1]);
        match c.op {
            BOp::Copy => dst.copy_surface(&src, rect, p),
            BOp::Blend(m) => dst.blend_surface(&src, rect, p, m),
            BOp::Alpha(a) => dst.blend_surface_with_alpha(&src, rect, p, a),
        }
        let layer_clean = if c.ctx == 1 { dst.verif_layer(0).map(|(_, px, _, _)| px.iter().all(|p| *p == 0)).unwrap_or(false) } else { true };
        (dst.get_data().to_vec(), src.get_data().to_vec(), layer_clean)
    });
    let (got, src_after, layer_clean) = match r {
        Ok(v) => v,
        Err(p) => {
            if crate::checks::common::is_dependency_panic(&p) {
                return Res::Skip;
            }
            return Res::Bad(Violation::new(format!("{}/panic", op_kind(c.op)), case_str(c), format!("subject panicked: {}", p)));
        }
    };
    // only the width x height pixels of either surface are what the property speaks about
    let mut got = got;
    got.truncate(dp.len());
    if src_after.get(..sp.len()) != Some(&sp[..]) {
        return Res::Bad(Violation::new(format!("{}/source-modified", op_kind(c.op)), case_str(c), "source surface changed".to_string()));
    }
    if !layer_clean {
        return Res::Bad(Violation::new(format!("{}/wrote-into-layer", op_kind(c.op)), case_str(c), "the open layer of the destination was written (layers must be ignored)".to_string()));
    }
    if got != expected {
        let i = (0..got.len()).find(|&i| got[i] != expected[i]).unwrap();
        let changed = got[i] != dp[i];
        let sig = format!("{}/{}", op_kind(c.op), if expected[i] == dp[i] { "pixel-outside-block-changed" } else if changed { "wrong-source-pixel-or-formula" } else { "block-pixel-not-written" });
        return Res::Bad(Violation::new(
            sig,
            case_str(c),
            format!("destination pixel ({},{}): observed {:#010x}, model {:#010x}, before {:#010x}\nsource   {}\nobserved {}\nmodel    {}", i as i32 % c.dw, i as i32 / c.dw, got[i], expected[i], dp[i], hexs(&sp), hexs(&got), hexs(&expected)),
        ));
    }
    let moved = expected != dp;
    Res::Ok(hash64(&got), moved)
}

fn op_kind(o: BOp) -> &'static str {
    match o {
        BOp::Copy => "copy_surface",
        BOp::Blend(_) => "blend_surface",
        BOp::Alpha(_) => "blend_surface_with_alpha",
    }
}

fn hexs(v: &[u32]) -> String {
    let s = v.iter().take(64).map(|p| format!("{:08x}", p)).collect::<Vec<_>>().join(" ");
    if v.len() > 64 {
        format!("{} ... ({} pixels)", s, v.len())
    } else {
        s
    }
}

impl Check for C15 {
    fn id(&self) -> &'static str {
        "C15"
    }
    fn title(&self) -> &'static str {
        "Surface copies and blends place exactly the requested block"
    }

    fn run(&self, run: &Run) {
        let q = run.tier.quick();
        run.rule("every (source size, destination size, src_rect, dst, operation) tuple of the stated ranges is executed once on fresh surfaces with all-distinct pixels and compared with a double-loop block-transfer model; non-trivial = at least one destination pixel is written");
        let sizes: Vec<i32> = if q { vec![0, 2, 3] } else { vec![0, 1, 2, 3] };
        let mut ops: Vec<BOp> = vec![BOp::Copy, BOp::Alpha(0.5), BOp::Alpha(1.0), BOp::Alpha(0.0), BOp::Alpha(1.004), BOp::Alpha(300.0), BOp::Alpha(0.003), BOp::Alpha(-0.5), BOp::Alpha(-0.006)];
        let modes: Vec<BlendMode> = if q { vec![BlendMode::Src, BlendMode::SrcOver, BlendMode::Xor, BlendMode::Clear, BlendMode::Dst, BlendMode::DstIn] } else { MODES.to_vec() };
        for m in modes {
            ops.push(BOp::Blend(m));
        }
        let mut shapes = Vec::new();
        for &sw in &sizes {
            for &sh in &sizes {
                for &dw in &sizes {
                    for &dh in &sizes {
                        shapes.push((sw, sh, dw, dh));
                    }
                }
            }
        }
        let rc: Vec<i32> = (-1..=4).collect();
        let dc: Vec<i32> = if q { vec![-4, -2, -1, 0, 1, 2, 4] } else { (-4..=4).collect() };
        run.bound("block-transfers", format!("{} size combinations x {}^4 src_rects x {}^2 dst points x {} operations, plus, for dst in {{-1,0,1}}^2, the same with transform+clip+layer set on the destination, with a singular transform on the destination, with a clip and an open layer (with content) on the source, with the source / the destination built by from_vec from an over-long vector, and with an empty clip on the destination", shapes.len(), rc.len(), dc.len(), ops.len()));
        run.par(shapes.len() * rc.len(), |si, l| {
            let (sw, sh, dw, dh) = shapes[si / rc.len()];
            let r0 = rc[si % rc.len()];
            l.states += 1;
            for &r1 in &rc {
                for &r2 in &rc {
                    for &r3 in &rc {
                        l.states += 1;
                        for &dx in &dc {
                            for &dy in &dc {
                                for &op in &ops {
                                    for ctx in [0u8, 1, 2, 3, 4, 5, 6, 7, 8] {
                                        if ctx != 0 && (dx.abs() > 1 || dy.abs() > 1) {
                                            continue;
                                        }
                                        let c = Case { sw, sh, dw, dh, r: [r0, r1, r2, r3], d: [dx, dy], op, ctx };
                                        l.transitions += 1;
                                        l.traces += 1;
                                        l.evals += 1;
                                        match eval(&c) {
                                            Res::Ok(h, moved) => {
                                                l.outcome(h);
                                                if moved {
                                                    l.nontrivial += 1;
                                                }
                                            }
                                            Res::Skip => l.count("skipped_reference_undefined_nonseparable_overflow", 1),
                                            Res::Bad(v) => run.report(si, v),
                                        }
                                        if si == 200 && r1 == 0 && r2 == 2 && r3 == 3 && dx == 1 && dy == -1 && ctx == 0 && op == BOp::Copy {
                                            run.sample(case_str(&c));
                                        }
                                    }
                                }
                            }
                        }
                    }
                }
                if run.expired() {
                    return;
                }
            }
        });
        // every blend mode's formula (the non-separable ones where the reference primitive is defined)
        run.bound("all modes", "3x3 source onto 3x3 destination, 4 src_rects x 3 dst points x 28 modes".to_string());
        run.par(MODES.len(), |mi, l| {
            for r in [[0, 0, 3, 3], [1, 0, 3, 2], [-1, -1, 2, 2], [0, 1, 2, 3]] {
                for d in [[0, 0], [1, 1], [-1, 0]] {
                    let c = Case { sw: 3, sh: 3, dw: 3, dh: 3, r, d, op: BOp::Blend(MODES[mi]), ctx: 0 };
                    l.states += 1;
                    l.transitions += 1;
                    l.traces += 1;
                    l.evals += 1;
                    match eval(&c) {
                        Res::Ok(h, moved) => {
                            l.outcome(h);
                            if moved {
                                l.nontrivial += 1;
                            }
                        }
                        Res::Skip => l.count("skipped_reference_undefined_nonseparable_overflow", 1),
                        Res::Bad(v) => run.report(7000 + mi, v),
                    }
                }
            }
        });
        // the ends of the i32 range: rectangles and destinations far outside either surface
        let ext: Vec<i32> = vec![i32::MIN, i32::MIN + 1, -1, 0, 1, 2, i32::MAX - 1, i32::MAX];
        run.bound("i32-extremes", format!("3x2 source, 3x3 destination: src_rect coordinates in {:?}^4, dst in the same set squared, copy / alpha 0.5", ext));
        run.par(ext.len() * ext.len(), |si, l| {
            let (r0, r1) = (ext[si / ext.len()], ext[si % ext.len()]);
            for &r2 in &ext {
                for &r3 in &ext {
                    for &dx in &ext {
                        for &dy in &ext {
                            for op in [BOp::Copy, BOp::Alpha(0.5)] {
                                let c = Case { sw: 3, sh: 2, dw: 3, dh: 3, r: [r0, r1, r2, r3], d: [dx, dy], op, ctx: 0 };
                                l.states += 1;
                                l.transitions += 1;
                                l.traces += 1;
                                l.evals += 1;
                                match eval(&c) {
                                    Res::Ok(h, moved) => {
                                        l.outcome(h);
                                        if moved {
                                            l.nontrivial += 1;
                                        }
                                    }
                                    Res::Skip => l.count("skipped_reference_undefined_nonseparable_overflow", 1),
                                    Res::Bad(v) => run.report(200_000 + si, v),
                                }
                            }
                        }
                    }
                }
            }
        });
        // very long strips at right angles: (row of one surface) x (width of the other) exceeds
        // 2^31, so an index computed from the wrong pair or in 32 bits goes wrong
        run.bound("huge-strips", "65536x1 source onto 1x40000 destination and 1x40000 source onto 65536x1 destination: single-pixel and whole-surface src_rects, the moved pixel at 5 source positions x 5 destination positions, copy / alpha 0.5".to_string());
        run.par(2 * 25, |si, l| {
            let swap = si / 25 == 1;
            let (sw, sh, dw, dh) = if swap { (1, 40000, 65536, 1) } else { (65536, 1, 1, 40000) };
            let (slen, dlen) = if swap { (40000, 65536) } else { (65536, 40000) };
            let sp = [0, 1, slen / 2 - 1, slen / 2, slen - 1][(si % 25) / 5];
            let dp = [0, 1, 32767.min(dlen - 2), 32768.min(dlen - 1), dlen - 1][si % 5];
            for whole in [false, true] {
                // source pixel sp (along the source's long axis) lands on destination pixel dp
                let (r, d) = match (swap, whole) {
                    (false, false) => ([sp, 0, sp + 1, 1], [0, dp]),
                    (false, true) => ([0, 0, sw, sh], [-sp, dp]),
                    (true, false) => ([0, sp, 1, sp + 1], [dp, 0]),
                    (true, true) => ([0, 0, sw, sh], [dp, -sp]),
                };
                for op in [BOp::Copy, BOp::Alpha(0.5)] {
                    let c = Case { sw, sh, dw, dh, r, d, op, ctx: 0 };
                    l.states += 1;
                    l.transitions += 1;
                    l.traces += 1;
                    l.evals += 1;
                    match eval(&c) {
                        Res::Ok(h, moved) => {
                            l.outcome(h);
                            if moved {
                                l.nontrivial += 1;
                            }
                        }
                        Res::Skip => l.count("skipped_reference_undefined_nonseparable_overflow", 1),
                        Res::Bad(v) => run.report(300_000 + si, v),
                    }
                }
            }
        });
        // long surfaces: offsets beyond 256 along one axis (strides, narrow casts)
        let long: Vec<i32> = vec![-1, 0, 1, 255, 256, 257, 299, 300, 301];
        let short: Vec<i32> = vec![-1, 0, 1, 2, 3];
        run.bound("long-surfaces", format!("300x2 and 2x300 sources and destinations (4 shape pairs): src_rect long-axis coordinates in {:?}^2, short-axis in {{0,-1}}x{{2,3}}, dst long-axis in {:?}, short-axis in {:?}, copy / alpha 0.5 / Xor", long, long, short));
        let lshapes = [(300, 2, 300, 2), (2, 300, 2, 300), (300, 2, 2, 300), (2, 300, 300, 2)];
        run.par(lshapes.len() * long.len(), |si, l| {
            let (sw, sh, dw, dh) = lshapes[si / long.len()];
            let a0 = long[si % long.len()];
            for &a1 in &long {
                for (b0, b1) in [(0, 2), (-1, 3), (1, 2)] {
                    let r = if sw > sh { [a0, b0, a1, b1] } else { [b0, a0, b1, a1] };
                    for &da in &long {
                        for &db in &short {
                            let d = if dw > dh { [da, db] } else { [db, da] };
                            for op in [BOp::Copy, BOp::Alpha(0.5), BOp::Blend(BlendMode::Xor)] {
                                let c = Case { sw, sh, dw, dh, r, d, op, ctx: 0 };
                                l.states += 1;
                                l.transitions += 1;
                                l.traces += 1;
                                l.evals += 1;
                                match eval(&c) {
                                    Res::Ok(h, moved) => {
                                        l.outcome(h);
                                        if moved {
                                            l.nontrivial += 1;
                                        }
                                    }
                                    Res::Skip => l.count("skipped_reference_undefined_nonseparable_overflow", 1),
                                    Res::Bad(v) => run.report(100_000 + si, v),
                                }
                            }
                        }
                    }
                }
            }
        });
    }

    fn replay(&self, case: &str) -> Result<Option<Violation>, String> {
        let m = kv(case);
        let r = kv_list(&m, "r")?;
        let d = kv_list(&m, "d")?;
        let ops = kv_s(&m, "op")?;
        let op = if ops == "copy" {
            BOp::Copy
        } else if let Some(mm) = ops.strip_prefix("blend:") {
            BOp::Blend(mode_from(mm)?)
        } else if let Some(a) = ops.strip_prefix("alpha:") {
            BOp::Alpha(a.parse::<f32>().map_err(|e| e.to_string())?)
        } else {
            return Err(format!("bad op {}", ops));
        };
        if r.len() != 4 || d.len() != 2 {
            return Err("bad r/d".into());
        }
        let c = Case { sw: kv_i(&m, "sw")? as i32, sh: kv_i(&m, "sh")? as i32, dw: kv_i(&m, "dw")? as i32, dh: kv_i(&m, "dh")? as i32, r: [r[0] as i32, r[1] as i32, r[2] as i32, r[3] as i32], d: [d[0] as i32, d[1] as i32], op, ctx: kv_i(&m, "ctx")? as u8 };
        Ok(match eval(&c) {
            Res::Bad(v) => Some(v),
            _ => None,
        })
    }
}
