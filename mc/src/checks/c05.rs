//! C05 The effective clip is the intersection of every clip pushed and not yet popped.
//!
//! Explicit-state exploration of clip histories (push_clip_rect / push_clip / pop_clip /
//! set_transform); after every prefix the implementation's effective clip is compared with
//! M-CLIP, and every probe draw is checked by the step oracle against the *model's* clip.

use super::common::*;
use crate::engine::*;
use crate::model::clip::*;
use crate::model::step::*;
use crate::scene::*;
use raqote::BlendMode;

pub struct C05;

/// in the mixed exploration C05 owns the clauses that speak about the clip
fn owns_clip(v: &StepViolation) -> bool {
    match v.kind {
        Kind::OutsideChanged => v.clause.contains("clip"),
        Kind::WrongValue => v.detail.contains("clip coverage Some"),
        _ => false,
    }
}

fn stack_alphabet(w: i32, h: i32) -> Vec<Op> {
    let (wf, hf) = (w as f32, h as f32);
    vec![
        Op::PopClip,
        Op::PushClipRect(1, 1, 3, 3),
        Op::PushClipRect(2, 0, w + 1, 2),
        Op::PushClipRect(0, 0, 1, 1),
        Op::PushClipRect(3, 3, 1, 1),
        Op::PushClipRect(-3, -3, 0, 0),
        Op::PushClipRect(-2, -2, w + 5, h + 5),
        Op::PushClip(PathSpec::poly(&[(0.25, 0.0), (wf, 0.5), (0.5, hf)])),
        Op::PushClip(PathSpec::rect(0.5, 0.5, wf - 1.0, hf - 1.0)),
        Op::PushClip(PathSpec { evenodd: true, ops: [PathSpec::rect(0.25, 0.25, wf - 0.5, hf - 0.5).ops, PathSpec::rect(1.25, 1.5, wf - 2.75, hf - 3.0).ops].concat() }),
        Op::PushClip(PathSpec::rect(-5.0, -5.0, 2.0, 2.0)),
        Op::PushClip(PathSpec::rect(1.0, 0.0, wf - 1.0, hf - 1.0)),
        Op::SetTransform([2., 0., 0., 2., 0., 0.]),
        Op::SetTransform(IDENT),
    ]
}

fn probes(w: i32, h: i32) -> Vec<Vec<Op>> {
    let (wf, hf) = (w as f32, h as f32);
    let full = PathSpec::rect(-1., -1., wf + 2., hf + 2.);
    let s1 = SrcSpec::Solid(0xff204080);
    let s2 = SrcSpec::Solid(0x80002040);
    let img = super::c03::image_of(3, 2, &VALS12, 3);
    let v = vec![
        vec![Op::Fill(full.clone(), s1.clone(), Opts::default())],
        vec![Op::Fill(full.clone(), s2.clone(), Opts { mode: BlendMode::Src, alpha: 1.0, aa: true })],
        vec![Op::Fill(full.clone(), s2.clone(), Opts { mode: BlendMode::Xor, alpha: 0.5, aa: true })],
        vec![Op::Fill(PathSpec::poly(&[(0., 0.25), (wf, 0.), (wf * 0.5, hf)]), s1.clone(), Opts::default())],
        vec![Op::FillRect(0.5, 0.25, wf - 0.75, hf - 0.5, s2.clone(), Opts { mode: BlendMode::Multiply, alpha: 1.0, aa: true })],
        vec![Op::FillRect(0., 0., wf, hf, s1.clone(), Opts { mode: BlendMode::Clear, alpha: 1.0, aa: true })],
        vec![Op::Clear(0xffff00ff)],
        vec![Op::Mask(0, 0, w, h, (0..w * h).map(|i| [255u8, 128, 64, 1][(i % 4) as usize]).collect(), s1.clone())],
        vec![Op::DrawImageAt(1., 1., 3, 2, img, Opts { mode: BlendMode::SrcOver, alpha: 1.0, aa: true })],
        vec![Op::Stroke(PathSpec::new(vec![POp::M(0., 0.), POp::L(wf, hf)]), StyleSpec { width: 2.0, cap: 2, join: 0, miter: 4., dash: vec![], offset: 0. }, s1.clone(), Opts::default())],
        vec![Op::PushLayer(0.5, BlendMode::SrcOver), Op::Fill(full.clone(), s1.clone(), Opts::default()), Op::PopLayer],
    ];
    // a text run whose left and top are cut by the clips of the alphabet
    let mut v = v;
    if font_available() {
        v.push(vec![Op::Text(6.0, "ab".to_string(), -0.5, hf - 0.5, s1, Opts::default())]);
    }
    v
}

fn scene_str(w: i32, h: i32, dst: &Dst, hist: &[Op], probe: &[Op]) -> String {
    let mut ops = hist.to_vec();
    ops.extend(probe.iter().cloned());
    Scene { w, h, dst: dst.clone(), ops }.to_string()
}

struct Tracked {
    model: ClipModel,
    xf: Xf,
}

fn track(hist: &[Op]) -> Tracked {
    let mut t = Tracked { model: ClipModel::default(), xf: IDENT };
    for op in hist {
        match op {
            Op::SetTransform(x) => t.xf = *x,
            Op::PushClip(_) | Op::PushClipRect(..) => t.model.push(op, &t.xf.clone()),
            Op::PopClip => t.model.pop(),
            _ => {}
        }
    }
    t
}

/// run history + probe on a fresh target; `nhist` leading ops are the clip history
fn eval(w: i32, h: i32, dst: &Dst, ops: &[Op], nhist: usize) -> Result<(SceneStats, u64), Violation> {
    let hist = &ops[..nhist];
    let probe = &ops[nhist..];
    let case = scene_str(w, h, dst, hist, probe);
    let t = track(hist);
    let eff = t.model.effective(w, h).map_err(|p| Violation::new("model/reference-render-panicked", case.clone(), p))?;
    let mut dt = Scene { w, h, dst: dst.clone(), ops: vec![] }.target();
    if let Err(p) = guard(|| {
        for op in hist {
            exec(&mut dt, op);
        }
    }) {
        return Err(Violation::new("history/panic", case, format!("clip history panicked: {}", p)));
    }
    // (1) state oracle: the implementation's effective clip equals the model's
    let s = snap(&dt);
    if s.clips.len() != t.model.items.len() {
        return Err(Violation::new("state/stack-depth", case, format!("clip stack depth {} vs model {}", s.clips.len(), t.model.items.len())));
    }
    if s.base != dst.pixels(w, h) {
        return Err(Violation::new("state/clip-call-touched-pixels", case, "pushing / popping clips changed pixels".to_string()));
    }
    let (ir, im) = s.clip();
    for y in 0..h {
        for x in 0..w {
            let i = (y * w + x) as usize;
            let in_impl = x >= ir[0] && x < ir[2] && y >= ir[1] && y < ir[3];
            let in_model = x >= eff.rect[0] && x < eff.rect[2] && y >= eff.rect[1] && y < eff.rect[3];
            if in_impl != in_model {
                return Err(Violation::new("state/clip-rect-not-intersection", case, format!("pixel ({},{}): implementation's clip bounds {:?} {} it, intersection of the pushed rectangles {:?} {} it", x, y, ir, if in_impl { "contain" } else { "exclude" }, eff.rect, if in_model { "contains" } else { "excludes" })));
            }
            if !in_model {
                continue;
            }
            let ci = im.map(|m| m[i]).unwrap_or(255);
            let ok = match &eff.cov {
                None => ci == 255,
                Some(c) => c[i].contains(&ci),
            };
            if !ok {
                return Err(Violation::new(
                    "state/clip-coverage-not-product",
                    case,
                    format!("pixel ({},{}): implementation's clip coverage {} ({}), product of the pushed paths' coverages {:?}", x, y, ci, if im.is_some() { "mask" } else { "no mask" }, eff.cov.as_ref().map(|c| c[i].clone()).unwrap_or(vec![255])),
                ));
            }
        }
    }
    // (2) probe draws checked against the model's clip
    let mut st = SceneStats::default();
    let ov: ([i32; 4], Option<&[u8]>) = (eff.rect, eff.mask.as_deref());
    for (k, op) in probe.iter().enumerate() {
        st.steps += 1;
        match exec_checked(&mut dt, op, Some(ov)) {
            Ok((_, s)) => {
                st.checked += s.checked;
                st.undecided += s.undecided;
                st.partial += s.partial;
            }
            Err(v) => {
                if is_nonsep_overflow(&v) {
                    st.foreign = true;
                    break;
                }
                // with three or more paths the association order may differ by one unit: re-check leniently
                let lenient = eff.cov.as_ref().map_or(false, |c| c.iter().any(|x| x.len() > 1));
                let v = if lenient && v.kind == Kind::WrongValue {
                    match take_others().into_iter().find(|o| o.kind != Kind::WrongValue) {
                        Some(o) => o,
                        None => {
                            st.foreign = true;
                            break;
                        }
                    }
                } else {
                    v
                };
                return Err(Violation::new(format!("probe/{}/{}", prop_kind(&v.kind), v.clause), case, format!("probe step {} ({}) under the model's clip (rect {:?}, {}): {}\n{}", k, op.kind(), eff.rect, if eff.mask.is_some() { "path coverage product" } else { "no path" }, v.clause, v.detail)));
            }
        }
    }
    let hsh = hash64(&dt.get_data().to_vec());
    Ok((st, hsh))
}

impl Check for C05 {
    fn id(&self) -> &'static str {
        "C05"
    }
    fn title(&self) -> &'static str {
        "The effective clip is the intersection of every clip pushed and not yet popped"
    }

    fn run(&self, run: &Run) {
        let q = run.tier.quick();
        run.rule("every history of push_clip_rect / push_clip / pop_clip / set_transform calls up to the depth bound (pops enabled only on a non-empty stack) is executed on a fresh target; after each the implementation's effective clip (hook) is compared with the model stack's intersection / coverage product, and each of 11 probe draws is checked pixel by pixel by the step oracle under the model's clip; non-trivial = a clip path with partial coverage is on the stack at probe time");
        run.assume("a path's coverage is the alpha of an opaque-white antialiased fill of it on a fresh target under the transform in force at push time (validated by C01/C08)");
        let surfaces: Vec<(i32, i32)> = vec![(4, 4), (6, 5)];
        for (w, h) in surfaces {
            let depth = if q { 4 } else if w == 4 { 5 } else { 4 };
            let alpha = stack_alphabet(w, h);
            let pr = probes(w, h);
            let na = alpha.len();
            run.bound(&format!("clip histories {}x{}", w, h), format!("alphabet of {} stack ops, all histories of length 0..={} x {} probes x 2 destinations", na, depth, pr.len()));
            run.par(na * na, |s, l| {
                fn rec(run: &Run, s: usize, l: &mut Local, w: i32, h: i32, alpha: &[Op], pr: &[Vec<Op>], hist: &mut Vec<Op>, depth: usize) {
                    l.states += 1;
                    let nopen = track(hist).model.items.len();
                    for (pi, p) in pr.iter().enumerate() {
                        for dst in [Dst::Distinct, Dst::White] {
                            if dst == Dst::White && pi % 3 != 0 {
                                continue;
                            }
                            let mut ops = hist.clone();
                            ops.extend(p.iter().cloned());
                            l.transitions += ops.len() as u64;
                            l.traces += 1;
                            l.evals += 1;
                            match eval(w, h, &dst, &ops, hist.len()) {
                                Ok((st, hsh)) => {
                                    l.count("pixels_checked", st.checked);
                                    if st.foreign {
                                        l.count("probes_skipped_lenient_or_dependency", 1);
                                    }
                                    if st.partial > 0 {
                                        l.nontrivial += 1;
                                    }
                                    l.outcome(hsh);
                                }
                                Err(v) => run.report(s, v),
                            }
                            if s == 7 * alpha.len() + 8 && hist.len() == 3 && pi == 1 {
                                run.sample(scene_str(w, h, &dst, hist, p));
                            }
                        }
                    }
                    if hist.len() >= depth || run.expired() {
                        return;
                    }
                    for op in alpha {
                        if matches!(op, Op::PopClip) && nopen == 0 {
                            continue;
                        }
                        hist.push(op.clone());
                        rec(run, s, l, w, h, alpha, pr, hist, depth);
                        hist.pop();
                    }
                }
                let (i0, i1) = (s / na, s % na);
                if matches!(alpha[i0], Op::PopClip) {
                    return;
                }
                let mut hist: Vec<Op> = Vec::new();
                if s == 1 * na {
                    // the empty history (root), accounted once
                    rec(run, s, l, w, h, &alpha, &pr, &mut hist, 0);
                }
                hist.push(alpha[i0].clone());
                if i1 == 1 % na {
                    rec(run, s, l, w, h, &alpha, &pr, &mut hist, 1);
                }
                if depth < 2 {
                    return;
                }
                hist.push(alpha[i1].clone());
                rec(run, s, l, w, h, &alpha, &pr, &mut hist, depth);
            });
        }
        // deep stacks: every history of length <= L over four side-cutting rects, one AA path and
        // pop (stack depths up to L), the state oracle after every prefix and three probes
        {
            let (w, h) = (6, 5);
            let tri = PathSpec::poly(&[(0.25, 0.0), (6.0, 0.5), (5.5, 5.0), (0.5, 4.75)]);
            let all = probes(w, h);
            let configs: Vec<(&str, Vec<Op>, usize, Vec<Vec<Op>>)> = vec![
                (
                    "deep clip stacks (four rects each cutting one side, one AA path, pop)",
                    vec![Op::PushClipRect(1, 0, w, h), Op::PushClipRect(0, 1, w, h), Op::PushClipRect(0, 0, w - 1, h), Op::PushClipRect(-1, -1, w + 1, h - 1), Op::PushClip(tri.clone()), Op::PopClip],
                    if q { 6 } else { 8 },
                    vec![all[1].clone(), all[6].clone(), all[7].clone()],
                ),
                (
                    // rectangles whose extent does not fit an i32 (the 'no clip' rectangle), inverted
                    // ones, and ones that are extreme on one axis only
                    "extreme clip rectangles (i32::MIN..i32::MAX, +-1.5e9, inverted extremes, extreme on one axis, one small rect, one AA path, pop)",
                    vec![
                        Op::PushClipRect(i32::MIN, i32::MIN, i32::MAX, i32::MAX),
                        Op::PushClipRect(-1_500_000_000, -1_500_000_000, 1_500_000_000, 1_500_000_000),
                        Op::PushClipRect(i32::MAX, i32::MAX, i32::MIN, i32::MIN),
                        Op::PushClipRect(i32::MIN, 1, i32::MAX, 3),
                        Op::PushClipRect(2, i32::MIN, 5, i32::MAX),
                        Op::PushClipRect(1, 1, 4, 4),
                        Op::PushClip(tri.clone()),
                        Op::PopClip,
                    ],
                    if q { 3 } else { 4 },
                    all.clone(),
                ),
            ];
            for (name, alpha, deep_len, pr) in configs {
            let na = alpha.len();
            run.bound(name, format!("all histories of length 0..={} over {} stack ops x {} probes on {}x{}", deep_len, na, pr.len(), w, h));
            run.par(na * na, |s, l| {
                fn rec(run: &Run, s: usize, l: &mut Local, alpha: &[Op], pr: &[Vec<Op>], hist: &mut Vec<Op>, depth: usize) {
                    l.states += 1;
                    let nopen = track(hist).model.items.len();
                    for p in pr {
                        let mut ops = hist.clone();
                        ops.extend(p.iter().cloned());
                        l.transitions += ops.len() as u64;
                        l.traces += 1;
                        l.evals += 1;
                        match eval(6, 5, &Dst::Distinct, &ops, hist.len()) {
                            Ok((st, hsh)) => {
                                l.count("pixels_checked", st.checked);
                                if st.foreign {
                                    l.count("probes_skipped_lenient_or_dependency", 1);
                                }
                                if st.partial > 0 {
                                    l.nontrivial += 1;
                                }
                                l.count(if nopen >= 5 { "deep_states_depth_ge_5" } else { "deep_states_depth_lt_5" }, 1);
                                l.outcome(hsh);
                            }
                            Err(v) => run.report(500_000 + s, v),
                        }
                    }
                    if hist.len() >= depth || run.expired() {
                        return;
                    }
                    for op in alpha {
                        if matches!(op, Op::PopClip) && nopen == 0 {
                            continue;
                        }
                        hist.push(op.clone());
                        rec(run, s, l, alpha, pr, hist, depth);
                        hist.pop();
                    }
                }
                let (i0, i1) = (s / na, s % na);
                if matches!(alpha[i0], Op::PopClip) {
                    return;
                }
                let mut hist = vec![alpha[i0].clone(), alpha[i1].clone()];
                rec(run, s, l, &alpha, &pr, &mut hist, deep_len);
            });
            }
        }
        // a surface of more than 65536 pixels, and a chain 40 clips deep
        {
            run.bound("large surface and long chain", "300x300: clip path / clip rect / clip path stacks (6 orders) x 3 probes; 6x5: chains of 40 alternating clip rects and paths; 1100x2, 2100x2, 8300x2 strips under a clip path near one end".to_string());
            run.par(11, |s, l| {
                let (w, h, hist): (i32, i32, Vec<Op>) = if s >= 7 {
                    // strips longer than 1024 / 2048 / 8192 pixels under a clip path that covers only
                    // a few columns near one end (coverage must be looked up at the pixel's own column)
                    let len = [1100, 2100, 8300, 1100][s - 7];
                    let x0 = if s == 10 { 1050.0 } else { 0.25 };
                    (len, 2, vec![Op::PushClip(PathSpec::poly(&[(x0, 0.0), (x0 + 2.5, 0.25), (x0 + 1.0, 2.0)]))])
                } else if s < 6 {
                    let a = Op::PushClip(PathSpec::poly(&[(3.5, 1.0), (298.0, 40.25), (250.5, 299.0), (10.25, 200.0)]));
                    let b = Op::PushClipRect(20, 31, 280, 270);
                    let c = Op::PushClip(PathSpec { evenodd: true, ops: [PathSpec::rect(10.5, 10.25, 280.0, 270.5).ops, PathSpec::rect(100.25, 90.5, 80.0, 120.75).ops].concat() });
                    let orders = [[0, 1, 2], [0, 2, 1], [1, 0, 2], [1, 2, 0], [2, 0, 1], [2, 1, 0]];
                    let abc = [a, b, c];
                    (300, 300, orders[s].iter().map(|&k| abc[k].clone()).collect())
                } else {
                    let mut v = Vec::new();
                    for k in 0..40 {
                        v.push(if k % 2 == 0 { Op::PushClipRect(k % 3 - 1, 0, 6 - (k % 2), 5) } else { Op::PushClipRect(0, (k % 5) / 3, 6, 5) });
                    }
                    v.insert(7, Op::PushClip(PathSpec::poly(&[(0.25, 0.0), (6.0, 0.5), (5.5, 5.0), (0.5, 4.75)])));
                    (6, 5, v)
                };
                let all = probes(w, h);
                for p in [&all[1], &all[6], &all[3], &all[0]] {
                    let mut ops = hist.clone();
                    ops.extend(p.iter().cloned());
                    l.states += 1;
                    l.transitions += ops.len() as u64;
                    l.traces += 1;
                    l.evals += 1;
                    match eval(w, h, &Dst::Distinct, &ops, hist.len()) {
                        Ok((st, hsh)) => {
                            l.count("pixels_checked", st.checked);
                            if st.partial > 0 {
                                l.nontrivial += 1;
                            }
                            l.outcome(hsh);
                        }
                        Err(v) => run.report(600_000 + s, v),
                    }
                }
            });
        }
        super::mixed::explore_mixed(run, "C05", owns_clip, if q { 4 } else { 5 }, false);
        super::mixed::explore_alpha(run, "C05", "cross-nested clips and layers", super::mixed::cross_alphabet(), owns_clip, if q { 6 } else { 7 }, false, Dst::Distinct);
    }

    fn replay(&self, case: &str) -> Result<Option<Violation>, String> {
        let s = parse_scene(case)?;
        // the clip history is the longest prefix of stack ops / set_transform
        let nhist = s.ops.iter().position(|o| !matches!(o, Op::PushClip(_) | Op::PushClipRect(..) | Op::PopClip | Op::SetTransform(_))).unwrap_or(s.ops.len());
        if let Err(v) = eval(s.w, s.h, &s.dst, &s.ops, nhist) {
            return Ok(Some(v));
        }
        Ok(super::mixed::eval_mixed(&s, &owns_clip, false).err())
    }
}
