//! C16 Flattening preserves geometry and subpath structure.
//!
//! All op strings over {M,L,Q,C} x off-grid points + {Z} up to a depth bound, x tolerances;
//! the output of Path::flatten is matched op by op against the input with an f64 curve model.

use crate::engine::*;
use crate::model::curve::*;
use crate::scene::*;
use raqote::*;

pub struct C16;

fn case_str(p: &PathSpec, tol: f32) -> String {
    format!("tol={:?} unit={:?} path={}", tol, unit(), p)
}

struct Fail {
    clause: &'static str,
    detail: String,
    depth: usize,
}

fn p2(x: f32, y: f32) -> P2 {
    (x as f64, y as f64)
}

fn biteq(a: Point, x: f32, y: f32) -> bool {
    a.x.to_bits() == x.to_bits() && a.y.to_bits() == y.to_bits()
}

/// size of the user unit relative to the one the absolute slacks below were chosen for (bits of
/// an f64; set around a family, read by the workers)
static UNIT_BITS: std::sync::atomic::AtomicU64 = std::sync::atomic::AtomicU64::new(0x3ff0000000000000);

fn unit() -> f64 {
    f64::from_bits(UNIT_BITS.load(std::sync::atomic::Ordering::Relaxed))
}

fn set_unit(u: f64) {
    UNIT_BITS.store(u.to_bits(), std::sync::atomic::Ordering::Relaxed);
}

/// match input ops [i..] against output ops [o..]
fn matcher(ins: &[POp], outs: &[PathOp], i: usize, o: usize, cursor: Option<P2>, start: Option<P2>, tol: f64, maxdev: &mut f64) -> Result<(), Fail> {
    if i == ins.len() {
        if o == outs.len() {
            return Ok(());
        }
        return Err(Fail { clause: "extra-output-ops", detail: format!("{} output ops left after the last input op", outs.len() - o), depth: i });
    }
    match ins[i] {
        POp::M(x, y) => match outs.get(o) {
            Some(PathOp::MoveTo(p)) if biteq(*p, x, y) => matcher(ins, outs, i + 1, o + 1, Some(p2(x, y)), Some(p2(x, y)), tol, maxdev),
            other => Err(Fail { clause: "moveto-not-preserved", detail: format!("input op {} is MoveTo({},{}) but output op {} is {:?}", i, x, y, o, other), depth: i }),
        },
        POp::L(x, y) => match outs.get(o) {
            Some(PathOp::LineTo(p)) if biteq(*p, x, y) => {
                let st = if cursor.is_none() { Some(p2(x, y)) } else { start };
                matcher(ins, outs, i + 1, o + 1, Some(p2(x, y)), st, tol, maxdev)
            }
            other => Err(Fail { clause: "lineto-not-preserved", detail: format!("input op {} is LineTo({},{}) but output op {} is {:?}", i, x, y, o, other), depth: i }),
        },
        POp::Z => match outs.get(o) {
            Some(PathOp::Close) => matcher(ins, outs, i + 1, o + 1, start, start, tol, maxdev),
            other => Err(Fail { clause: "close-not-preserved", detail: format!("input op {} is Close but output op {} is {:?}", i, o, other), depth: i }),
        },
        POp::A(..) => Err(Fail { clause: "unsupported-op", detail: "arc ops are not part of the C16 alphabet".into(), depth: i }),
        POp::Q(..) | POp::C(..) => {
            let (c1, end, curve, st) = match ins[i] {
                POp::Q(cx, cy, x, y) => {
                    let s = cursor.unwrap_or(p2(cx, cy));
                    (p2(cx, cy), (x, y), Curve::Quad(s, p2(cx, cy), p2(x, y)), if cursor.is_none() { Some(p2(cx, cy)) } else { start })
                }
                POp::C(ax, ay, bx, by, x, y) => {
                    let s = cursor.unwrap_or(p2(ax, ay));
                    (p2(ax, ay), (x, y), Curve::Cubic(s, p2(ax, ay), p2(bx, by), p2(x, y)), if cursor.is_none() { Some(p2(ax, ay)) } else { start })
                }
                _ => unreachable!(),
            };
            let _ = c1;
            // the vertices are f32: far from the origin they are only known to a few ulps of the
            // curve's own coordinates (nothing for the curves of the usual alphabets)
            let mag = match ins[i] {
                POp::Q(cx, cy, x, y) => [cx, cy, x, y].iter().fold(0.0f32, |m, v| m.max(v.abs())),
                POp::C(ax, ay, bx, by, x, y) => [ax, ay, bx, by, x, y].iter().fold(0.0f32, |m, v| m.max(v.abs())),
                _ => 0.0,
            }
            .max(curve.start().0.abs() as f32)
            .max(curve.start().1.abs() as f32);
            let ua = 4.0 * f32::EPSILON as f64 * mag as f64;
            // candidate run lengths: output LineTos up to one that is bit-equal to the end point
            let mut best_err: Option<Fail> = None;
            let mut k = 0;
            let mut pts: Vec<P2> = vec![curve.start()];
            let mut tprev = 0.0f64;
            loop {
                let p = match outs.get(o + k) {
                    Some(PathOp::LineTo(p)) => *p,
                    other => {
                        let e = Fail { clause: "curve-end-point-not-emitted", detail: format!("input op {} ({:?}): after {} LineTo(s) the output continues with {:?} before a LineTo bit-equal to the end point ({},{}) was seen", i, ins[i], k, other, end.0, end.1), depth: i };
                        return Err(best_err.filter(|b| b.depth >= e.depth).unwrap_or(e));
                    }
                };
                k += 1;
                let pp = p2(p.x, p.y);
                pts.push(pp);
                if biteq(p, end.0, end.1) {
                    // candidate: the curve ends here; deviation of the curve from the polyline
                    let mut dev = 0.0f64;
                    // a curve that opens the path has no earlier op that emits its starting
                    // point: the emitted polyline itself must begin within the deviation of it
                    let emitted: &[P2] = if cursor.is_none() { &pts[1..] } else { &pts[..] };
                    for s in curve.sample(64) {
                        dev = dev.max(dist_polyline(s, emitted));
                    }
                    if dev > 8.0 * tol + 1e-4 * unit() + ua {
                        let e = Fail { clause: "deviation-exceeds-8x-tolerance", detail: format!("input op {} ({:?}) from start ({},{}): polyline of {} segment(s) deviates {:.4} from the curve, tolerance {}", i, ins[i], curve.start().0, curve.start().1, k, dev, tol), depth: i };
                        if best_err.as_ref().map_or(true, |b| b.depth <= e.depth) {
                            best_err = Some(e);
                        }
                    } else {
                        let mut md = maxdev.max(dev / tol);
                        match matcher(ins, outs, i + 1, o + k, Some(p2(end.0, end.1)), st, tol, &mut md) {
                            Ok(()) => {
                                *maxdev = md;
                                return Ok(());
                            }
                            Err(e) => {
                                if best_err.as_ref().map_or(true, |b| b.depth <= e.depth) {
                                    best_err = Some(e);
                                }
                            }
                        }
                    }
                }
                // as an interior vertex it must lie on the curve at a non-decreasing parameter
                let (d, t) = curve.first_hit(pp, tprev, 2e-3 * unit() + ua);
                if d > 2e-3 * unit() + ua {
                    let e = Fail { clause: "vertex-not-on-curve", detail: format!("input op {} ({:?}) with model start point ({},{}): emitted vertex ({},{}) is {:.4} away from the curve (at or after parameter {:.3})", i, ins[i], curve.start().0, curve.start().1, p.x, p.y, d, tprev), depth: i };
                    return Err(best_err.filter(|b| b.depth >= e.depth).unwrap_or(e));
                }
                tprev = t;
            }
        }
    }
}

/// closed polylines of a flat path under the fill semantics
fn polylines(ops: &[PathOp]) -> Vec<Vec<P2>> {
    let mut out: Vec<Vec<P2>> = Vec::new();
    let mut cur: Vec<P2> = Vec::new();
    let mut start: Option<P2> = None;
    for op in ops {
        match *op {
            PathOp::MoveTo(p) => {
                if !cur.is_empty() {
                    out.push(std::mem::take(&mut cur));
                }
                cur.push(p2(p.x, p.y));
                start = Some(p2(p.x, p.y));
            }
            PathOp::LineTo(p) => {
                if cur.is_empty() {
                    start = Some(p2(p.x, p.y));
                }
                cur.push(p2(p.x, p.y));
            }
            PathOp::Close => {
                if !cur.is_empty() {
                    out.push(std::mem::take(&mut cur));
                }
                if let Some(s) = start {
                    cur.push(s);
                }
            }
            _ => {}
        }
    }
    if !cur.is_empty() {
        out.push(cur);
    }
    out
}

const SURF: i32 = 12;

fn eval(p: &PathSpec, tol: f32, with_fill: bool) -> Result<(u64, bool, f64), Violation> {
    let path = p.build();
    let flat = match guard(|| path.flatten(tol)) {
        Ok(f) => f,
        Err(e) => return Err(Violation::new("flatten/panic", case_str(p, tol), e)),
    };
    if let Some(bad) = flat.ops.iter().find(|o| matches!(o, PathOp::QuadTo(..) | PathOp::CubicTo(..))) {
        return Err(Violation::new("flatten/curve-left-in-output", case_str(p, tol), format!("output contains {:?}", bad)));
    }
    // filling or hit-testing the flattened path agrees with the original: its winding rule is the original's
    if flat.winding != path.winding {
        return Err(Violation::new("flatten/winding-rule-not-preserved", case_str(p, tol), format!("the path is {:?}, its flattening {:?}", path.winding, flat.winding)));
    }
    let mut maxdev = 0.0;
    if let Err(f) = matcher(&p.ops, &flat.ops, 0, 0, None, None, tol as f64, &mut maxdev) {
        return Err(Violation::new(format!("flatten/{}", f.clause), case_str(p, tol), format!("{}\noutput: {:?}", f.detail, flat.ops)));
    }
    let has_curve = p.ops.iter().any(|o| matches!(o, POp::Q(..) | POp::C(..)));
    // hit-testing the flattened path agrees with hit-testing the original (both flatten at `tol`; the
    // flattening of a flattened path is itself): probes a tenth of the way from a flattening vertex
    // towards the centroid of all vertices - for a bulging curve that is inside the bulge and beyond
    // every end point
    if has_curve && tol.is_finite() {
        let vs: Vec<(f32, f32)> = flat.ops.iter().filter_map(|o| match o {
            PathOp::LineTo(p) | PathOp::MoveTo(p) => Some((p.x, p.y)),
            _ => None,
        }).collect();
        if vs.len() >= 3 {
            let n = vs.len() as f32;
            let (cx, cy) = (vs.iter().map(|v| v.0).sum::<f32>() / n, vs.iter().map(|v| v.1).sum::<f32>() / n);
            for j in [vs.len() / 3, vs.len() / 2, 2 * vs.len() / 3] {
                let (qx, qy) = (vs[j].0 + 0.1 * (cx - vs[j].0), vs[j].1 + 0.1 * (cy - vs[j].1));
                match guard(|| (path.contains_point(tol, qx, qy), flat.contains_point(tol, qx, qy))) {
                    Ok((a, b)) if a != b => {
                        return Err(Violation::new("flatten/hit-test-of-the-flattening-disagrees", case_str(p, tol), format!("contains_point({:?}, {:?}, {:?}) is {} for the path and {} for its flattening", tol, qx, qy, a, b)));
                    }
                    Ok(_) => {}
                    Err(e) => return Err(Violation::new("contains_point/panic", case_str(p, tol), e)),
                }
            }
        }
    }
    if with_fill {
        // filling the flattened path agrees with filling the original away from the outline
        let r = guard(|| {
            let mut a = DrawTarget::new(SURF, SURF);
            a.fill(&path, &Source::Solid(super::c01::WHITE), &DrawOptions::new());
            let mut b = DrawTarget::new(SURF, SURF);
            b.fill(&flat, &Source::Solid(super::c01::WHITE), &DrawOptions::new());
            (a.into_vec(), b.into_vec())
        });
        let (a, b) = match r {
            Ok(v) => v,
            Err(e) => return Err(Violation::new("fill/panic", case_str(p, tol), e)),
        };
        let polys = polylines(&flat.ops);
        for i in 0..a.len() {
            if a[i] != b[i] {
                let c = ((i as i32 % SURF) as f64 + 0.5, (i as i32 / SURF) as f64 + 0.5);
                let d = dist_outline(c, &polys);
                if d > 1.0 + std::f64::consts::FRAC_1_SQRT_2 + 8.0 * tol as f64 {
                    return Err(Violation::new(
                        "flatten/fill-of-flattened-path-differs",
                        case_str(p, tol),
                        format!("pixel ({},{}) is {:.3} px from the flattened outline but fill(path) = {:#010x} and fill(path.flatten({})) = {:#010x} (winding of original {:?}, of flattened {:?})", i as i32 % SURF, i as i32 / SURF, d, a[i], tol, b[i], path.winding, flat.winding),
                    ));
                }
            }
        }
    }
    Ok((hash64(&flat.ops.iter().map(|o| format!("{:?}", o)).collect::<Vec<_>>()), has_curve, maxdev))
}

fn alphabet(pts: &[(f32, f32)], ctrl: &[(f32, f32)]) -> Vec<POp> {
    let mut v = vec![POp::Z];
    for p in pts {
        v.push(POp::M(p.0, p.1));
    }
    for p in pts {
        v.push(POp::L(p.0, p.1));
    }
    for c in ctrl {
        for p in pts {
            v.push(POp::Q(c.0, c.1, p.0, p.1));
        }
    }
    for (ci, c) in ctrl.iter().enumerate() {
        let c2 = ctrl[(ci + 1) % ctrl.len()];
        for p in pts {
            v.push(POp::C(c.0, c.1, c2.0, c2.1, p.0, p.1));
        }
        for p in pts.iter().take(2) {
            // a looping / cusped cubic: both control points on the far side
            v.push(POp::C(c2.0, c2.1, c.0, c.1, p.0, p.1));
        }
    }
    // degenerate control polygons: both control points coincide; the first control point is a
    // grid point (the start point, when the previous op ended there); the second is the end point
    let c = ctrl[0];
    for p in pts.iter().take(2) {
        v.push(POp::C(c.0, c.1, c.0, c.1, p.0, p.1));
        v.push(POp::C(pts[0].0, pts[0].1, c.0, c.1, p.0, p.1));
        v.push(POp::C(c.0, c.1, p.0, p.1, p.0, p.1));
    }
    v
}

fn strings(run: &Run, name: &str, alpha: &[POp], depth: usize, tols: &[f32]) {
    let na = alpha.len();
    run.bound(name, format!("all op strings of length 1..={} over an alphabet of {} ops x {} tolerances x 2 winding rules for the fill clause", depth, na, tols.len()));
    let shards = if depth >= 2 { na * na } else { na };
    run.par(shards, |s, l| {
        fn rec(run: &Run, s: usize, l: &mut Local, alpha: &[POp], stack: &mut Vec<usize>, depth: usize, tols: &[f32]) {
            l.states += 1;
            let ops: Vec<POp> = stack.iter().map(|&i| alpha[i]).collect();
            for (ti, &tol) in tols.iter().enumerate() {
                for eo in [false, true] {
                    // the even-odd variant only matters for the fill clause
                    if eo && ti != 0 {
                        continue;
                    }
                    let p = PathSpec { evenodd: eo, ops: ops.clone() };
                    l.transitions += 1;
                    l.traces += 1;
                    l.evals += 1;
                    match eval(&p, tol, ti == 0 && unit() == 1.0) {
                        Ok((h, curve, dev)) => {
                            l.outcome(h);
                            if curve {
                                l.nontrivial += 1;
                            }
                            let _ = dev;
                        }
                        Err(v) => run.report(s, v),
                    }
                    if s == 700 && stack.len() == 3 && stack[2] == 30 && ti == 1 {
                        run.sample(case_str(&p, tol));
                    }
                }
            }
            if stack.len() >= depth || run.expired() {
                return;
            }
            for i in 0..alpha.len() {
                stack.push(i);
                rec(run, s, l, alpha, stack, depth, tols);
                stack.pop();
            }
        }
        if depth >= 2 {
            if s % na == 0 {
                let mut st = vec![s / na];
                // length-1 strings
                let d1 = 1;
                rec(run, s, l, alpha, &mut st, d1, tols);
            }
            let mut stack = vec![s / na, s % na];
            rec(run, s, l, alpha, &mut stack, depth, tols);
        } else {
            let mut stack = vec![s];
            rec(run, s, l, alpha, &mut stack, depth, tols);
        }
    });
}

impl Check for C16 {
    fn id(&self) -> &'static str {
        "C16"
    }
    fn title(&self) -> &'static str {
        "Flattening preserves geometry and subpath structure"
    }

    fn run(&self, run: &Run) {
        let q = run.tier.quick();
        run.rule("every op string over the alphabet is flattened with every tolerance; the output is matched against the input op by op: M/L/Z preserved bit-exactly and in order, each curve replaced by LineTos on the f64 curve at non-decreasing parameter starting from the model cursor (after Close: the subpath start; no cursor: the first control point) and ending bit-exactly at the end point, deviation <= 8 x tolerance; fill(path) and fill(flatten(0.01)) may differ only within 1 px (+ deviation) of the outline; non-trivial = the string contains a curve");
        run.assume("the clause 'deviation shrinks with tolerance' is checked as the absolute bound 8 x tolerance at six tolerances spanning four orders of magnitude (0.0002 .. 2), not as strict monotonicity between neighbouring tolerances");
        let tols: Vec<f32> = vec![0.01, 0.1, 0.5, 2.0];
        // tolerances far below a pixel (a floor on the tolerance shows as a deviation that stops shrinking)
        let fine: Vec<f32> = vec![0.001, 0.0002];
        let pts9: Vec<(f32, f32)> = vec![(0.7, 0.9), (5.3, 1.1), (9.9, 0.4), (1.2, 5.5), (5.0, 5.1), (10.4, 6.2), (0.3, 10.1), (6.1, 9.7), (9.2, 10.6)];
        let pts4: Vec<(f32, f32)> = vec![(0.7, 0.9), (9.9, 1.4), (1.2, 9.5), (10.4, 10.2)];
        let ctrl: Vec<(f32, f32)> = vec![(5.6, -3.1), (13.7, 5.2), (-2.2, 6.3), (4.9, 5.0)];
        {
            let a4 = alphabet(&pts4, &ctrl[..3]);
            let ml: Vec<POp> = a4.iter().copied().filter(|o| matches!(o, POp::M(..) | POp::L(..))).collect();
            let curves: Vec<POp> = a4.iter().copied().filter(|o| matches!(o, POp::Q(..) | POp::C(..))).collect();
            run.bound("curve after Close in any subpath", format!("strings (M|L)^1..3 Z (Q|C) [and (M|L)^1..2 Z (M|L) Z (Q|C)] over {} M/L ops and {} curves x {} tolerances", ml.len(), curves.len(), tols.len()));
            run.par(ml.len(), |i0, l| {
                let mut prefixes: Vec<Vec<POp>> = vec![vec![ml[i0]]];
                for a in &ml {
                    prefixes.push(vec![ml[i0], *a]);
                    for b in &ml {
                        prefixes.push(vec![ml[i0], *a, *b]);
                    }
                }
                for pre in &prefixes {
                    let mut variants: Vec<Vec<POp>> = vec![{
                        let mut v = pre.clone();
                        v.push(POp::Z);
                        v
                    }];
                    if pre.len() <= 2 {
                        for a in &ml {
                            let mut v = pre.clone();
                            v.push(POp::Z);
                            v.push(*a);
                            v.push(POp::Z);
                            variants.push(v);
                        }
                    }
                    for var in variants {
                        for c in &curves {
                            let mut ops = var.clone();
                            ops.push(*c);
                            for (ti, &tol) in tols.iter().enumerate() {
                                let p = PathSpec { evenodd: false, ops: ops.clone() };
                                l.states += 1;
                                l.transitions += 1;
                                l.traces += 1;
                                l.evals += 1;
                                match eval(&p, tol, ti == 0) {
                                    Ok((h, _, _)) => {
                                        l.outcome(h);
                                        l.nontrivial += 1;
                                    }
                                    Err(v) => run.report(90_000 + i0, v),
                                }
                            }
                        }
                    }
                }
            });
        }
        // large curves at fine tolerances: hundreds to thousands of segments per curve
        {
            let big: Vec<PathSpec> = vec![
                PathSpec::new(vec![POp::M(0.5, 0.25), POp::Q(1000.0, 2000.0, 2000.0, 0.0)]),
                PathSpec::new(vec![POp::M(0.0, 0.0), POp::C(1000.0, 2250.0, 2000.0, 2250.0, 3000.0, 10.0)]),
                PathSpec::new(vec![POp::M(-3000.0, 100.0), POp::Q(0.0, 3900.0, 3000.0, 100.0), POp::Z, POp::C(-2000.0, -3000.0, 1500.0, 2000.0, 3500.0, -3000.0)]),
                PathSpec::new(vec![POp::Q(300.0, 700.0, 650.0, 20.0), POp::L(10.0, 10.0)]),
                // curves of very different magnitudes in one path: the tolerance of one curve owes
                // nothing to the coordinates of another
                PathSpec::new(vec![POp::M(30000.0, 30000.0), POp::C(30010.0, 30000.0, 30020.0, 30010.0, 30030.0, 30000.0), POp::M(0.0, 0.0), POp::Q(10.0, 20.0, 20.0, 0.0)]),
                PathSpec::new(vec![POp::M(1.0e6, 0.0), POp::Q(1.0e6 + 5.0, 10.0, 1.0e6 + 10.0, 0.0), POp::M(3.0, 4.0), POp::Q(10.0, 20.0, 20.0, 0.0), POp::Z, POp::C(1.0, 9.0, 9.0, 9.0, 9.0, 1.0)]),
            ];
            // a path whose flattening runs to more than 65536 (and 2^17) ops: the last curve is held
            // to the tolerance like the first
            let arches = |n: usize| PathSpec::new(std::iter::once(POp::M(0.0, 0.0)).chain((0..n).map(|i| POp::Q(2.0 * i as f32 + 1.0, 60.0 + (i % 7) as f32, 2.0 * i as f32 + 2.0, (i % 3) as f32))).collect());
            let mut big = big;
            big.push(arches(1500));
            if !q {
                big.push(arches(4000));
            }
            let btols: Vec<f32> = if q { vec![0.002, 0.05, 0.0001, f32::INFINITY] } else { vec![0.001, 0.002, 0.01, 0.05, 1.0, 0.0001, f32::INFINITY, f32::MAX] };
            run.bound("large curves at fine tolerances", format!("{} paths (curves 600-6000 units across; curves 3e4 / 1e6 away followed by curves near the origin; 1500 / 4000 arches in one path) x tolerances {:?}", big.len(), btols));
            run.par(big.len() * btols.len(), |s, l| {
                let p = &big[s / btols.len()];
                let tol = btols[s % btols.len()];
                l.states += 1;
                l.transitions += 1;
                l.traces += 1;
                l.evals += 1;
                match eval(p, tol, false) {
                    Ok((h, _, _)) => {
                        l.outcome(h);
                        l.nontrivial += 1;
                    }
                    Err(v) => run.report(95_000 + s, v),
                }
            });
        }
        // the same strings in a unit 2^-12 (and 2^10) times the usual one, tolerances scaled along:
        // nothing in flattening may depend on the absolute size of the unit
        // (2^-24: the scaled tolerances, 6e-11 .. 6e-9, lie below the 1e-8 that the flattening
        // library itself accepts)
        // (2^-72: tolerances around 2e-25 on geometry around 1e-21)
        // (2^-100: tolerances around 1e-33 - the magnification that serves them is 2^100, whose
        // square no longer fits an f32)
        for exp in [-12i32, 10, -24, -72, -100] {
            let k = (2.0f32).powi(exp);
            let sc = |p: &(f32, f32)| (p.0 * k, p.1 * k);
            let pts_s: Vec<(f32, f32)> = pts4.iter().map(sc).collect();
            let ctrl_s: Vec<(f32, f32)> = ctrl[..3].iter().map(sc).collect();
            let tols_s: Vec<f32> = [0.01f32, 0.1, 0.001].iter().map(|t| t * k).collect();
            set_unit(k as f64);
            strings(run, &format!("4-point alphabet depth {}, unit 2^{}", if exp <= -24 { 1 } else { 2 }, exp), &alphabet(&pts_s, &ctrl_s), if exp <= -24 { 1 } else { 2 }, &tols_s);
            set_unit(1.0);
        }
        if q {
            strings(run, "9-point alphabet depth 1, fine tolerances", &alphabet(&pts9, &ctrl), 1, &fine);
            strings(run, "4-point alphabet depth 2, fine tolerances", &alphabet(&pts4, &ctrl[..3]), 2, &fine);
        } else {
            strings(run, "9-point alphabet depth 2, fine tolerances", &alphabet(&pts9, &ctrl), 2, &fine);
            strings(run, "4-point alphabet depth 3, fine tolerances", &alphabet(&pts4, &ctrl[..3]), 3, &fine);
        }
        if q {
            strings(run, "9-point alphabet depth 2", &alphabet(&pts9, &ctrl), 2, &tols);
            strings(run, "4-point alphabet depth 3", &alphabet(&pts4, &ctrl[..3]), 3, &tols);
        } else {
            strings(run, "9-point alphabet depth 3", &alphabet(&pts9, &ctrl), 3, &tols);
            strings(run, "4-point alphabet depth 4", &alphabet(&pts4, &ctrl[..3]), 4, &tols);
        }
    }

    fn replay(&self, case: &str) -> Result<Option<Violation>, String> {
        let m = kv(case);
        let tol: f32 = kv_s(&m, "tol")?.parse().map_err(|e: std::num::ParseFloatError| e.to_string())?;
        let p = parse_path(kv_s(&m, "path")?)?;
        let u: f64 = m.get("unit").and_then(|v| v.parse().ok()).unwrap_or(1.0);
        set_unit(u);
        let r = eval(&p, tol, u == 1.0).err();
        set_unit(1.0);
        Ok(r)
    }
}
