//! C01 Polygon fill coverage equals the exact 4x4 supersampling model.
//!
//! Transition system over PathBuilder ops M(p) | L(p) | Z with p on the quarter grid, terminal
//! op fill(rule, aa) with opaque white on a fresh transparent target; oracle M-RAST.

use crate::engine::*;
use crate::model::rast::*;
use raqote::*;

pub struct C01;

#[derive(Clone, Debug)]
pub struct Case {
    pub w: i32,
    pub h: i32,
    pub ops: Vec<QOp>,
}

fn ops_str(ops: &[QOp]) -> String {
    let mut s = String::new();
    for (i, o) in ops.iter().enumerate() {
        if i > 0 {
            s.push(',');
        }
        match o {
            QOp::M(x, y) => s.push_str(&format!("M:{}:{}", x, y)),
            QOp::L(x, y) => s.push_str(&format!("L:{}:{}", x, y)),
            QOp::Z => s.push('Z'),
        }
    }
    s
}

pub fn parse_ops(s: &str) -> Result<Vec<QOp>, String> {
    let mut v = Vec::new();
    if s.is_empty() {
        return Ok(v);
    }
    for t in s.split(',') {
        let p: Vec<&str> = t.split(':').collect();
        match p[0] {
            "Z" => v.push(QOp::Z),
            "M" | "L" if p.len() == 3 => {
                let x = p[1].parse::<i32>().map_err(|e| e.to_string())?;
                let y = p[2].parse::<i32>().map_err(|e| e.to_string())?;
                v.push(if p[0] == "M" { QOp::M(x, y) } else { QOp::L(x, y) });
            }
            _ => return Err(format!("bad op {}", t)),
        }
    }
    Ok(v)
}

pub fn build_path(ops: &[QOp], rule: Rule) -> Path {
    let mut pb = PathBuilder::new();
    for o in ops {
        match *o {
            QOp::M(x, y) => pb.move_to(x as f32 / 4.0, y as f32 / 4.0),
            QOp::L(x, y) => pb.line_to(x as f32 / 4.0, y as f32 / 4.0),
            QOp::Z => pb.close(),
        }
    }
    let mut p = pb.finish();
    p.winding = match rule {
        Rule::NonZero => Winding::NonZero,
        Rule::EvenOdd => Winding::EvenOdd,
    };
    p
}

fn rule_name(r: Rule) -> &'static str {
    match r {
        Rule::NonZero => "nz",
        Rule::EvenOdd => "eo",
    }
}

fn case_str(c: &Case, rule: Rule, aa: bool) -> String {
    let pre = PREAMBLE.with(|p| p.get());
    format!("w={} h={} rule={} aa={} pre={} ctor={} ops={}", c.w, c.h, rule_name(rule), if aa { 1 } else { 0 }, pre, CTOR.with(|c| c.get()), ops_str(&c.ops))
}

pub const WHITE: SolidSource = SolidSource { r: 0xff, g: 0xff, b: 0xff, a: 0xff };

/// one (path, rule, aa) configuration against the model; Ok(hash of observed pixels)
thread_local! {
    /// calls made on the target before the fill under test; all of them leave every pixel alone
    /// (0 = none, 1 = push_clip of an on-surface path + pop, 2 = push_clip of a path reaching
    /// below the surface + pop, 3 = fill of an off-surface path and of an empty one,
    /// 4 = layer pushed under an empty clip and popped)
    static PREAMBLE: std::cell::Cell<u8> = std::cell::Cell::new(0);
}

thread_local! {
    /// how the target is made: 0 DrawTarget::new, 1 from_vec (a transparent vector), 2 from_backing
    static CTOR: std::cell::Cell<u8> = std::cell::Cell::new(0);
}

fn make_target(w: i32, h: i32) -> DrawTarget {
    match CTOR.with(|c| c.get()) {
        1 => DrawTarget::from_vec(w, h, vec![0u32; (w * h).max(0) as usize]),
        2 => DrawTarget::from_backing(w, h, vec![0u32; (w * h).max(0) as usize]),
        _ => DrawTarget::new(w, h),
    }
}

fn preamble(dt: &mut DrawTarget, k: u8) {
    let tri = |y0: f32, y1: f32| {
        let mut pb = PathBuilder::new();
        pb.move_to(0.25, y0);
        pb.line_to(1.75, y0 + 0.5);
        pb.line_to(0.5, y1);
        pb.close();
        pb.finish()
    };
    match k {
        1 => {
            dt.push_clip(&tri(0.25, 1.5));
            dt.pop_clip();
        }
        2 => {
            dt.push_clip(&tri(0.5, 9.0));
            dt.pop_clip();
        }
        3 => {
            dt.fill(&tri(-9.0, -6.0), &Source::Solid(WHITE), &DrawOptions::new());
            dt.fill(&PathBuilder::new().finish(), &Source::Solid(WHITE), &DrawOptions::new());
        }
        4 => {
            dt.push_clip_rect(IntRect::new(IntPoint::new(2, 2), IntPoint::new(1, 1)));
            dt.push_layer(1.0);
            dt.fill(&tri(0.25, 1.5), &Source::Solid(WHITE), &DrawOptions::new());
            dt.pop_layer();
            dt.pop_clip();
        }
        _ => {}
    }
}

fn eval_config(c: &Case, rule: Rule, aa: bool, cov: &Cov) -> Result<u64, Violation> {
    let path = build_path(&c.ops, rule);
    let (w, h) = (c.w, c.h);
    let pre = PREAMBLE.with(|p| p.get());
    let r = guard(|| {
        let mut dt = make_target(w, h);
        preamble(&mut dt, pre);
        dt.fill(
            &path,
            &Source::Solid(WHITE),
            &DrawOptions { blend_mode: BlendMode::SrcOver, alpha: 1.0, antialias: if aa { AntialiasMode::Gray } else { AntialiasMode::None } },
        );
        let idle = dt.verif_rasterizer_idle();
        (dt.into_vec(), idle)
    });
    let (px, idle) = match r {
        Ok(v) => v,
        Err(p) => return Err(Violation::new("fill/panic", case_str(c, rule, aa), format!("subject panicked: {}", p))),
    };
    // whether the rasteriser is idle afterwards is C10's question (the property's own hook), not C01's
    let _ = idle;
    for (i, &p) in px.iter().enumerate() {
        let a = p >> 24;
        let ok_rgb = (p & 0xff) == a && ((p >> 8) & 0xff) == a && ((p >> 16) & 0xff) == a;
        let ok = if aa {
            alpha_ok(a, cov.kmin[i], cov.kmax[i])
        } else {
            (a == 255 && cov.na_max[i]) || (a == 0 && !cov.na_min[i])
        };
        if !ok || !ok_rgb {
            let x = i as i32 % w;
            let y = i as i32 / w;
            let detail = format!(
                "pixel ({},{}) = {:#010x}; model: covered cells k in [{},{}], aliased painted in [{},{}]; surface {}x{} rule {} aa {}\nobserved pixels: {}\nmodel kmin: {:?}\nmodel kmax: {:?}",
                x,
                y,
                p,
                cov.kmin[i],
                cov.kmax[i],
                cov.na_min[i],
                cov.na_max[i],
                w,
                h,
                rule_name(rule),
                aa,
                px.iter().map(|p| format!("{:08x}", p)).collect::<Vec<_>>().join(" "),
                cov.kmin,
                cov.kmax
            );
            let sig = if !ok_rgb { "fill/rgb-differs-from-alpha" } else if aa { "fill/aa-alpha-not-in-model-set" } else { "fill/aliased-pixel-set" };
            return Err(Violation::new(sig, case_str(c, rule, aa), detail));
        }
    }
    Ok(hash64(&px))
}

/// all four (rule, aa) configurations of one path
fn eval_case(run: &Run, shard: usize, c: &Case, l: &mut Local, aa_modes: &[bool], rules: &[Rule]) {
    let edges = edges_from_ops(&c.ops);
    l.transitions += c.ops.len() as u64;
    for &rule in rules {
        let cov = coverage(&edges, c.w as usize, c.h as usize, rule);
        let partial = cov.kmin.iter().zip(cov.kmax.iter()).any(|(&lo, &hi)| hi > 0 && lo < 16);
        for &aa in aa_modes {
            l.transitions += 1;
            l.traces += 1;
            l.evals += 1;
            if partial {
                l.nontrivial += 1;
            }
            match eval_config(c, rule, aa, &cov) {
                Ok(h) => l.outcome(h),
                Err(v) => run.report(shard, v),
            }
        }
    }
}

fn grid(xs: &[i32], ys: &[i32]) -> Vec<(i32, i32)> {
    let mut v = Vec::new();
    for &y in ys {
        for &x in xs {
            v.push((x, y));
        }
    }
    v
}

fn g_full(d: i32) -> Vec<i32> {
    (-5..=4 * d + 5).collect()
}

fn g_red(d: i32) -> Vec<i32> {
    let mut v = vec![-5, -4, -1, 0, 1, 2, 3, 4, 5, 7, 4 * d - 1, 4 * d, 4 * d + 1, 4 * d + 5];
    v.sort();
    v.dedup();
    v
}

const G_FAR: [i32; 9] = [-16000, -403, -5, 0, 3, 8, 13, 407, 16000];

const BOTH_AA: [bool; 2] = [true, false];
const BOTH_RULES: [Rule; 2] = [Rule::NonZero, Rule::EvenOdd];

/// all polygons M p0 L p1 .. L p(n-1) over `pts`, sharded by the first vertex
fn polygons(run: &Run, name: &str, w: i32, h: i32, pts: &[(i32, i32)], n: usize, close: bool, aa_modes: &[bool], rules: &[Rule]) {
    let np = pts.len();
    run.bound(name, format!("{}-vertex polygons over {} grid points on {}x{}: {} paths x {} configs", n, np, w, h, (np as u128).pow(n as u32), aa_modes.len() * rules.len()));
    run.par(np, |i0, l| {
        let mut idx = vec![0usize; n];
        idx[0] = i0;
        // prefix nodes: root is shared; count nodes below the first vertex in this shard
        let mut nodes: u64 = 1;
        let mut pow = 1u64;
        for _ in 1..n {
            pow *= np as u64;
            nodes += pow;
        }
        l.states += nodes;
        let mut ops: Vec<QOp> = Vec::with_capacity(n + 1);
        loop {
            ops.clear();
            for (j, &k) in idx.iter().enumerate() {
                let p = pts[k];
                ops.push(if j == 0 { QOp::M(p.0, p.1) } else { QOp::L(p.0, p.1) });
            }
            if close {
                ops.push(QOp::Z);
            }
            let c = Case { w, h, ops: ops.clone() };
            eval_case(run, i0, &c, l, aa_modes, rules);
            if i0 == np / 2 && idx.iter().enumerate().skip(1).all(|(j, &k)| k == (np * j / (n + 1) + 3 * j) % np) && run.want_sample() {
                run.sample(format!("{} :: {}", name, case_str(&c, Rule::NonZero, true)));
            }
            // odometer over idx[1..]
            let mut j = n - 1;
            loop {
                if j == 0 {
                    return;
                }
                idx[j] += 1;
                if idx[j] < np {
                    break;
                }
                idx[j] = 0;
                j -= 1;
            }
            if run.expired() {
                return;
            }
        }
    });
}

/// all op strings of length 1..=depth over {M,L} x pts + {Z}
/// triangles over `pts` on a target made by constructor `ctor` (see CTOR)
fn polygons_ctor(run: &Run, name: &str, w: i32, h: i32, pts: &[(i32, i32)], ctor: u8) {
    let np = pts.len();
    run.bound(name, format!("{}^3 triangles x 2 rules x 2 antialias modes", np));
    run.par(np * np, |s, l| {
        CTOR.with(|p| p.set(ctor));
        for k in 0..np {
            let (a, b, c) = (pts[s / np], pts[s % np], pts[k]);
            let case = Case { w, h, ops: vec![QOp::M(a.0, a.1), QOp::L(b.0, b.1), QOp::L(c.0, c.1)] };
            l.states += 1;
            eval_case(run, 970_000 + s, &case, l, &BOTH_AA, &BOTH_RULES);
        }
        CTOR.with(|p| p.set(0));
    });
}

/// triangles over `pts`, filled after preamble `pre` (see PREAMBLE)
fn polygons_pre(run: &Run, name: &str, w: i32, h: i32, pts: &[(i32, i32)], pre: u8) {
    let np = pts.len();
    run.bound(name, format!("{}^3 triangles (a third of them also as paths begun by LineTo / by a leading Close) x 2 rules x 2 antialias modes on {}x{}", np, w, h));
    run.par(np * np, |s, l| {
        PREAMBLE.with(|p| p.set(pre));
        for k in 0..np {
            let (a, b, c) = (pts[s / np], pts[s % np], pts[k]);
            let case = Case { w, h, ops: vec![QOp::M(a.0, a.1), QOp::L(b.0, b.1), QOp::L(c.0, c.1)] };
            l.states += 1;
            eval_case(run, 960_000 + s, &case, l, &BOTH_AA, &BOTH_RULES);
            // the same triangle from paths without a MoveTo (begun by LineTo, by a leading Close):
            // where such a subpath starts may not depend on the paths the target has seen before
            for ops in [vec![QOp::L(a.0, a.1), QOp::L(b.0, b.1), QOp::L(c.0, c.1)], vec![QOp::Z, QOp::L(a.0, a.1), QOp::L(b.0, b.1), QOp::L(c.0, c.1)], vec![QOp::Z, QOp::L(a.0, a.1), QOp::L(b.0, b.1), QOp::L(c.0, c.1), QOp::Z, QOp::L(b.0, c.1)]] {
                if (s + k) % 3 != 0 {
                    continue;
                }
                let case = Case { w, h, ops };
                l.states += 1;
                eval_case(run, 960_000 + s, &case, l, &BOTH_AA, &BOTH_RULES);
            }
        }
        PREAMBLE.with(|p| p.set(0));
    });
}

fn op_strings(run: &Run, name: &str, w: i32, h: i32, pts: &[(i32, i32)], depth: usize) {
    let mut alpha: Vec<QOp> = Vec::new();
    alpha.push(QOp::Z);
    for p in pts {
        alpha.push(QOp::M(p.0, p.1));
    }
    for p in pts {
        alpha.push(QOp::L(p.0, p.1));
    }
    let na = alpha.len();
    run.bound(name, format!("all op strings of length 1..={} over an alphabet of {} ops ({{M,L}} x {} points + Z) on {}x{}", depth, na, pts.len(), w, h));
    // shard by the first two ops
    let shards = if depth >= 2 { na * na } else { na };
    run.par(shards, |sidx, l| {
        let first: Vec<usize> = if depth >= 2 { vec![sidx / na, sidx % na] } else { vec![sidx] };
        // strings of length 1 are evaluated by the shards with second op index 0
        if depth >= 2 && sidx % na == 0 {
            let c = Case { w, h, ops: vec![alpha[first[0]]] };
            l.states += 1;
            eval_case(run, sidx, &c, l, &BOTH_AA, &BOTH_RULES);
        }
        let mut stack: Vec<usize> = first.clone();
        // DFS over extensions
        fn rec(run: &Run, sidx: usize, l: &mut Local, alpha: &[QOp], stack: &mut Vec<usize>, depth: usize, w: i32, h: i32) {
            l.states += 1;
            let ops: Vec<QOp> = stack.iter().map(|&i| alpha[i]).collect();
            let c = Case { w, h, ops };
            eval_case(run, sidx, &c, l, &BOTH_AA, &BOTH_RULES);
            if stack.len() == 3 && sidx == 77 && stack[2] == 5 && run.want_sample() {
                run.sample(format!("op-string :: {}", case_str(&c, Rule::EvenOdd, false)));
            }
            if stack.len() >= depth || run.expired() {
                return;
            }
            for i in 0..alpha.len() {
                stack.push(i);
                rec(run, sidx, l, alpha, stack, depth, w, h);
                stack.pop();
            }
        }
        rec(run, sidx, l, &alpha, &mut stack, depth, w, h);
    });
}

/// two triangles with all relative orientations
fn two_subpaths(run: &Run, name: &str, w: i32, h: i32, pts: &[(i32, i32)]) {
    let np = pts.len();
    run.bound(name, format!("two-subpath paths (M L L M L L) over {} grid points on {}x{}: {} paths x 4 configs", np, w, h, (np as u128).pow(6)));
    run.par(np * np, |s, l| {
        let (i0, i1) = (s / np, s % np);
        l.states += 1 + (np + np * np + np * np * np + np * np * np * np) as u64;
        for i2 in 0..np {
            for i3 in 0..np {
                for i4 in 0..np {
                    for i5 in 0..np {
                        let p = [pts[i0], pts[i1], pts[i2], pts[i3], pts[i4], pts[i5]];
                        let ops = vec![QOp::M(p[0].0, p[0].1), QOp::L(p[1].0, p[1].1), QOp::L(p[2].0, p[2].1), QOp::M(p[3].0, p[3].1), QOp::L(p[4].0, p[4].1), QOp::L(p[5].0, p[5].1)];
                        let c = Case { w, h, ops };
                        eval_case(run, s, &c, l, &BOTH_AA, &BOTH_RULES);
                    }
                }
            }
            if run.expired() {
                return;
            }
        }
    });
}

fn many_edges(run: &Run, q: bool) {
    let stars: Vec<(usize, usize)> = if q { vec![(5, 2), (7, 3), (16, 7), (31, 12), (64, 27)] } else { vec![(5, 2), (7, 2), (7, 3), (9, 4), (11, 5), (16, 7), (17, 8), (31, 12), (31, 15), (64, 27), (97, 41), (128, 63), (257, 100)] };
    let combs: Vec<usize> = if q { vec![3, 17, 64] } else { vec![3, 8, 17, 33, 64, 130] };
    let tiles: Vec<usize> = if q { vec![9, 40] } else { vec![9, 25, 40, 100, 300] };
    let phases: Vec<(i32, i32)> = (0..16).map(|i| (i % 4, i / 4)).collect();
    run.bound("many-edges", format!("{} star polygons {{n/k}} on 10x10, {} combs on (2n+2)x3, {} tilings of small triangles on 40-wide surfaces, each at all 16 quarter phases, both rules, both antialias modes; one triangle family on 4000x1", stars.len(), combs.len(), tiles.len()));
    let njobs = stars.len() + combs.len() + tiles.len();
    run.par(njobs * 16, |s, l| {
        let (dx, dy) = phases[s % 16];
        let j = s / 16;
        let mut ops: Vec<QOp> = Vec::new();
        let (w, h);
        if j < stars.len() {
            let (n, k) = stars[j];
            w = 10;
            h = 10;
            for i in 0..n {
                let a = (i * k % n) as f64 / n as f64 * std::f64::consts::TAU;
                let x = (20.0 + 19.0 * a.cos()).round() as i32 + dx;
                let y = (20.0 + 19.0 * a.sin()).round() as i32 + dy;
                ops.push(if i == 0 { QOp::M(x, y) } else { QOp::L(x, y) });
            }
            ops.push(QOp::Z);
        } else if j < stars.len() + combs.len() {
            let n = combs[j - stars.len()] as i32;
            w = 2 * n + 2;
            h = 3;
            ops.push(QOp::M(dx, 11 + dy));
            for i in 0..n {
                ops.push(QOp::L(dx + 8 * i + 1, dy - 1));
                ops.push(QOp::L(dx + 8 * i + 5, dy + 2 + (i % 5)));
                ops.push(QOp::L(dx + 8 * i + 7, 11 + dy - (i % 3)));
            }
            ops.push(QOp::L(dx + 8 * n, 11 + dy));
            ops.push(QOp::Z);
        } else {
            let n = tiles[j - stars.len() - combs.len()] as i32;
            w = 40;
            h = (n + 19) / 20 * 2 + 1;
            for i in 0..n {
                let (cx, cy) = ((i % 20) * 8 + dx, (i / 20) * 8 + dy);
                // alternating orientation, overlapping the neighbour by one quarter pixel
                if i % 2 == 0 {
                    ops.extend([QOp::M(cx, cy), QOp::L(cx + 9, cy + 1), QOp::L(cx + 3, cy + 7), QOp::Z]);
                } else {
                    ops.extend([QOp::M(cx, cy + 6), QOp::L(cx + 4, cy - 1), QOp::L(cx + 9, cy + 5)]);
                }
            }
        }
        l.states += ops.len() as u64;
        let c = Case { w, h, ops };
        eval_case(run, 900_000 + s, &c, l, &BOTH_AA, &BOTH_RULES);
    });
    // high winding numbers: n coincident (or quarter-staggered) same-direction squares; the
    // winding number reaches n (8-bit counters wrap at 128 / 256)
    let counts: Vec<i32> = if q { vec![127, 128, 129, 256, 257] } else { vec![2, 3, 64, 127, 128, 129, 255, 256, 257, 300, 513] };
    run.bound("high-winding", format!("n coincident squares and n quarter-staggered squares for n in {:?}, clockwise and counter-clockwise, partly left of the surface or inside, 4x3 surface, both rules, both antialias modes", counts));
    run.par(counts.len() * 8, |s, l| {
        let n = counts[s / 8];
        let (stagger, ccw, left) = (s % 2 == 1, (s / 2) % 2 == 1, (s / 4) % 2 == 1);
        let x0 = if left { -6 } else { 2 };
        let mut ops = Vec::new();
        for i in 0..n {
            let d = if stagger { i % 4 } else { 0 };
            let (a, b, c, e) = ((x0 + d, 1), (x0 + d + 9, 1), (x0 + d + 9, 10), (x0 + d, 10));
            let v = if ccw { [a, e, c, b] } else { [a, b, c, e] };
            ops.push(QOp::M(v[0].0, v[0].1));
            for p in &v[1..] {
                ops.push(QOp::L(p.0, p.1));
            }
            ops.push(QOp::Z);
        }
        l.states += ops.len() as u64;
        let c = Case { w: 4, h: 3, ops };
        eval_case(run, 950_000 + s, &c, l, &BOTH_AA, &BOTH_RULES);
    });
    // very tall and very wide surfaces: rows / columns beyond 8192 (16-bit sample-row indices)
    {
        let far_t = [-3, 32761, 32766, 32771, 32790];
        let near_t = [-2, 1, 3, 6];
        let far_q = [-3, 32761, 32771, 32790];
        let near_q = [-2, 1, 6];
        let (far, near): (&[i32], &[i32]) = if q { (&far_q, &near_q) } else { (&far_t, &near_t) };
        polygons(run, "i:triangles on a 1x8200 surface", 1, 8200, &grid(near, far), 3, false, &BOTH_AA, &BOTH_RULES);
        polygons(run, "i:triangles on a 8200x1 surface", 8200, 1, &grid(far, near), 3, false, &BOTH_AA, &BOTH_RULES);
    }
    let xs_t = [-3, 15981, 15990, 15995, 16001];
    let ys_t = [-2, 1, 3, 6];
    let xs_q = [-3, 15981, 15995, 16001];
    let ys_q = [-2, 1, 6];
    let (xs, ys): (&[i32], &[i32]) = if q { (&xs_q, &ys_q) } else { (&xs_t, &ys_t) };
    polygons(run, "i:triangles on a 4000x1 surface", 4000, 1, &grid(xs, ys), 3, false, &BOTH_AA, &BOTH_RULES);
}

impl Check for C01 {
    fn id(&self) -> &'static str {
        "C01"
    }
    fn title(&self) -> &'static str {
        "Polygon fill coverage equals the exact 4x4 supersampling model"
    }

    fn run(&self, run: &Run) {
        run.rule("every path over the stated quarter-grid alphabets is enumerated once and filled with opaque white on a fresh transparent target under both winding rules and both antialias modes; a case is non-trivial when the model gives at least one pixel partial coverage (0 < k < 16 cells)");
        run.assume("model admits both roundings for edge crossings within k*2^-14 quarter pixels of a rounding boundary after k steps (16.16 slope truncation), including exact ties");
        let q = run.tier.quick();
        // (a) triangles
        if q {
            polygons(run, "a:triangles G_red 2x2", 2, 2, &grid(&g_red(2), &g_red(2)), 3, false, &BOTH_AA, &BOTH_RULES);
        } else {
            polygons(run, "a:triangles G_full 2x2", 2, 2, &grid(&g_full(2), &g_full(2)), 3, false, &BOTH_AA, &BOTH_RULES);
            polygons(run, "a:triangles G_red 3x3", 3, 3, &grid(&g_red(3), &g_red(3)), 3, false, &BOTH_AA, &BOTH_RULES);
            polygons(run, "a:triangles G_red 3x2", 3, 2, &grid(&g_red(3), &g_red(2)), 3, false, &BOTH_AA, &BOTH_RULES);
            polygons(run, "a:triangles G_red 1x1", 1, 1, &grid(&g_red(1), &g_red(1)), 3, true, &BOTH_AA, &BOTH_RULES);
        }
        // (b) quadrilaterals (bow-ties included)
        let b_xs = [-5, -1, 0, 2, 3, 5, 7, 8, 9, 13];
        if q {
            let xs = [-4, 0, 3, 6, 9];
            polygons(run, "b:quads 5x5 2x2", 2, 2, &grid(&xs, &xs), 4, false, &BOTH_AA, &BOTH_RULES);
        } else {
            polygons(run, "b:quads 10x10 2x2", 2, 2, &grid(&b_xs, &b_xs), 4, false, &BOTH_AA, &BOTH_RULES);
        }
        // (c) 5- and 6-vertex polygons
        if !q {
            let xs5 = [-3, 1, 4, 6, 10];
            polygons(run, "c:pentagons 5x5 2x2", 2, 2, &grid(&xs5, &xs5), 5, false, &[true], &BOTH_RULES);
            let xs4 = [-2, 2, 5, 9];
            polygons(run, "c:hexagons 4x4 2x2", 2, 2, &grid(&xs4, &xs4), 6, true, &[true], &BOTH_RULES);
        }
        // (d) two subpaths
        if !q {
            let xs = [-2, 1, 4, 7, 10];
            let ys = [-1, 2, 6, 9];
            two_subpaths(run, "d:two triangles 5x4 2x2", 2, 2, &grid(&xs, &ys));
        } else {
            let xs = [-2, 3, 9];
            let ys = [-1, 4, 9];
            two_subpaths(run, "d:two triangles 3x3 2x2", 2, 2, &grid(&xs, &ys));
        }
        // (e) all op strings
        {
            let xs = [-2, 1, 4, 9];
            let ys = [-3, 2, 5, 8];
            op_strings(run, "e:op strings", 2, 2, &grid(&xs, &ys), if q { 4 } else { 5 });
        }
        // (f) far triangles
        polygons(run, "f:triangles G_far 2x2", 2, 2, &grid(&G_FAR, &G_FAR), 3, false, &BOTH_AA, &BOTH_RULES);
        if !q {
            polygons(run, "f:triangles G_far 3x2", 3, 2, &grid(&G_FAR, &G_FAR), 3, true, &BOTH_AA, &BOTH_RULES);
        }
        // wide and tall surfaces: coordinates beyond 256 px (byte / 16-bit truncation, strides)
        {
            let xs = [-3, 2, 1021, 1026, 1030, 1203];
            let ys = [-2, 1, 3, 6];
            polygons(run, "h:triangles on a 300x1 surface", 300, 1, &grid(&xs, &ys), 3, false, &BOTH_AA, &BOTH_RULES);
            let xs2 = [-2, 1, 3, 6];
            let ys2 = [-3, 2, 1021, 1026, 1030, 1203];
            polygons(run, "h:triangles on a 1x300 surface", 1, 300, &grid(&xs2, &ys2), 3, false, &BOTH_AA, &BOTH_RULES);
        }
        // many edges at once: star polygons {n/k} (self-intersecting, up to n simultaneously
        // active edges), combs (n teeth) and tilings of many small subpaths, at every quarter
        // phase; a triangle at 4000 px on a 4000x1 surface
        many_edges(run, q);
        // the same fills on a target that has already processed calls which leave every pixel alone
        // (clip paths pushed and popped, off-surface and empty fills, a layer under an empty clip)
        for pre in 1..=4u8 {
            let xs = [-4, 0, 3, 6, 9];
            let name = format!("j:triangles 5x5 2x2 after no-op history {}", pre);
            polygons_pre(run, &name, 2, 2, &grid(&xs, &xs), pre);
        }
        // targets made by from_vec / from_backing, on surfaces that are not square
        for ctor in [1u8, 2] {
            for (w, h) in [(3, 2), (2, 3), (7, 3)] {
                let xs: Vec<i32> = vec![-3, 2, 4 * w - 3, 4 * w + 2];
                let ys: Vec<i32> = vec![-2, 3, 4 * h - 2, 4 * h + 3];
                let name = format!("k:triangles on a {}x{} target made by {}", w, h, if ctor == 1 { "from_vec" } else { "from_backing" });
                polygons_ctor(run, &name, w, h, &grid(&xs, &ys), ctor);
            }
        }
        // degenerate surfaces: nothing painted, nothing panics
        for (w, h) in [(0, 0), (0, 3), (3, 0)] {
            let xs = [-4, 0, 5, 13];
            polygons(run, &format!("g:triangles on degenerate {}x{}", w, h), w, h, &grid(&xs, &xs), 3, false, &BOTH_AA, &BOTH_RULES);
        }
    }

    fn replay(&self, case: &str) -> Result<Option<Violation>, String> {
        let m = kv(case);
        let c = Case { w: kv_i(&m, "w")? as i32, h: kv_i(&m, "h")? as i32, ops: parse_ops(kv_s(&m, "ops")?)? };
        let rule = match kv_s(&m, "rule")? {
            "nz" => Rule::NonZero,
            "eo" => Rule::EvenOdd,
            o => return Err(format!("bad rule {}", o)),
        };
        let aa = kv_i(&m, "aa")? != 0;
        PREAMBLE.with(|p| p.set(m.get("pre").and_then(|v| v.parse::<u8>().ok()).unwrap_or(0)));
        CTOR.with(|p| p.set(m.get("ctor").and_then(|v| v.parse::<u8>().ok()).unwrap_or(0)));
        let edges = edges_from_ops(&c.ops);
        let cov = coverage(&edges, c.w as usize, c.h as usize, rule);
        Ok(eval_config(&c, rule, aa, &cov).err())
    }
}
