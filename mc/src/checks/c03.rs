//! C03 Each pixel is composited by the blend mode's formula weighted by coverage.
//!
//! Scenes are built so that every pixel has its own inputs (destination value per column,
//! coverage varying along rows/columns, per-pixel source colours for image sources); every
//! step of every scene is checked with the single-step oracle (M-PIX).

use super::common::*;
use crate::engine::*;
use crate::model::step::*;
use crate::scene::*;
use raqote::BlendMode;

pub struct C03;

fn owns(v: &StepViolation) -> bool {
    match v.kind {
        // a pixel with zero coverage (weight 0) keeps its value: also part of "depends only on the pixel's own inputs"
        Kind::WrongValue | Kind::OutsideChanged => true,
        Kind::Panic => !is_nonsep_overflow(v),
        _ => false,
    }
}

fn classify(_s: &Scene, _i: usize, _v: &StepViolation) -> Option<&'static str> {
    None
}

pub fn dst_cols(w: i32, h: i32, vals: &[u32], rot: usize) -> Dst {
    let mut v = Vec::new();
    for y in 0..h {
        for x in 0..w {
            v.push(vals[(x as usize + rot + (y as usize) * 5) % vals.len()]);
        }
    }
    Dst::Pixels(v)
}

pub fn image_of(w: i32, h: i32, vals: &[u32], rot: usize) -> Vec<u32> {
    (0..(w * h) as usize).map(|i| vals[(i * 7 + rot) % vals.len()]).collect()
}

/// (prefix, suffix) op lists establishing a clip / layer context
pub fn contexts(w: i32, h: i32, quick: bool) -> Vec<(&'static str, Vec<Op>, Vec<Op>)> {
    let (wf, hf) = (w as f32, h as f32);
    let tri = PathSpec::poly(&[(-0.5, -0.25), (wf + 0.75, 0.5), (wf - 1.25, hf + 0.5), (0.25, hf - 0.5)]);
    let tri2 = PathSpec::poly(&[(0.5, 0.0), (wf, 0.25), (wf - 0.5, hf), (1.75, hf - 0.25)]);
    let mut v = vec![
        ("none", vec![], vec![]),
        ("clip-rect", vec![Op::PushClipRect(1, 1, w - 1, h - 1)], vec![Op::PopClip]),
        ("clip-path", vec![Op::PushClip(tri.clone())], vec![Op::PopClip]),
        ("layer@(1,0)", vec![Op::PushClipRect(1, 0, w, h), Op::PushLayer(1.0, BlendMode::SrcOver)], vec![Op::PopLayer, Op::PopClip]),
    ];
    v.push(("layer-then-outer-clip-popped", vec![Op::PushClipRect(1, 1, w - 1, h), Op::PushLayer(1.0, BlendMode::SrcOver), Op::PopClip], vec![Op::PopLayer]));
    if !quick {
        v.push(("clip-path-x2", vec![Op::PushClip(tri.clone()), Op::PushClip(tri2.clone())], vec![Op::PopClip, Op::PopClip]));
        v.push(("clip-path+layer(0.5)", vec![Op::PushClip(tri.clone()), Op::PushLayer(0.5, BlendMode::SrcOver)], vec![Op::PopLayer, Op::PopClip]));
        v.push(("layer+clip-path-inside", vec![Op::PushClipRect(0, 1, w - 1, h), Op::PushLayer(1.0, BlendMode::Multiply), Op::PushClip(tri2.clone())], vec![Op::PopClip, Op::PopLayer, Op::PopClip]));
        v.push(("clip-rect-over-path", vec![Op::PushClip(tri2), Op::PushClipRect(0, 0, w - 2, h)], vec![Op::PopClip, Op::PopClip]));
    }
    v
}

pub fn sources(vals: &[u32], w: i32, h: i32, quick: bool) -> Vec<SrcSpec> {
    let mut v: Vec<SrcSpec> = vals.iter().map(|c| SrcSpec::Solid(*c)).collect();
    v.push(SrcSpec::Image { w: 5, h: 3, data: image_of(5, 3, &VALS12, 1), repeat: true, bilinear: true, xf: IDENT });
    v.push(SrcSpec::Image { w: w - 1, h: h - 1, data: image_of(w - 1, h - 1, &VALS12, 4), repeat: false, bilinear: false, xf: [1., 0., 0., 1., -1., -1.] });
    if !quick {
        v.push(SrcSpec::Image { w: 1, h: 1, data: vec![0x80402010], repeat: false, bilinear: true, xf: [1., 0., 0., 1., 3., -2.] });
    }
    // constant images under non-integer sampling transforms: every shader variant
    // (pad/repeat x nearest/bilinear x alpha/no alpha) with a colour known without a sampler model
    for (i, (repeat, bilinear)) in [(false, false), (false, true), (true, false), (true, true)].iter().enumerate() {
        let c = [0xff204080u32, 0x80002040, 0xfe00fe7f, 0x40400020][i];
        v.push(SrcSpec::Image { w: 2, h: 2, data: vec![c; 4], repeat: *repeat, bilinear: *bilinear, xf: [0.7, 0.2, -0.3, 1.1, 0.35, -0.6] });
    }
    // a single repeated texel: a constant colour however it is sampled (and still subject to the global alpha)
    v.push(SrcSpec::Image { w: 1, h: 1, data: vec![0xc0604020], repeat: true, bilinear: false, xf: IDENT });
    v.push(SrcSpec::Image { w: 1, h: 1, data: vec![0xff8040c0], repeat: true, bilinear: true, xf: [0.7, 0.2, -0.3, 1.1, 0.35, -0.6] });
    // a two-circle gradient with opaque stops that is undefined (transparent) left of its small
    // circle: there the source is transparent black, whatever the stops are (elsewhere: C12)
    v.push(SrcSpec::TwoCircle { stops: vec![Stop { pos: 0.0, color: 0xffff0000 }, Stop { pos: 1.0, color: 0xff0000ff }], spread: Spr::Pad, p: [4.0, 2.0, 0.5, 8.0, 2.0, 1.5] });
    // constant gradients (every stop the same colour): the colour is known without a t model
    v.push(SrcSpec::Linear { stops: vec![Stop { pos: 0.0, color: 0x80ff8040 }, Stop { pos: 1.0, color: 0x80ff8040 }], spread: Spr::Pad, p: [0., 0., 5., 3.] });
    if !quick {
        v.push(SrcSpec::Radial { stops: vec![Stop { pos: 0.5, color: 0xff3060c0 }], spread: Spr::Repeat, p: [3., 2., 4.] });
        v.push(SrcSpec::Sweep { stops: vec![Stop { pos: 0.0, color: 0x01ffffff }, Stop { pos: 1.0, color: 0x01ffffff }], spread: Spr::Reflect, p: [3., 2., 0., 360.] });
    }
    v
}

pub fn probes(w: i32, h: i32, src: &SrcSpec, o: Opts, quick: bool) -> Vec<Op> {
    let (wf, hf) = (w as f32, h as f32);
    let mut v = vec![
        Op::Fill(PathSpec::poly(&[(0., 0.), (wf, 0.5), (0.25, hf)]), src.clone(), o),
        Op::Fill(PathSpec::poly(&[(0., 0.25), (wf, 0.), (wf, hf * 0.5), (0., hf)]), src.clone(), o),
        Op::FillRect(2., 1., wf - 4., hf - 2., src.clone(), o),
        Op::FillRect(1.5, 0.25, wf - 2.75, hf - 0.5, src.clone(), o),
    ];
    if !quick {
        v.push(Op::Fill(PathSpec::poly(&[(0., 0.), (wf, 0.5), (0.25, hf)]), src.clone(), Opts { aa: false, ..o }));
        v.push(Op::FillRect(0., 0., wf, hf, src.clone(), o));
        v.push(Op::Stroke(PathSpec::new(vec![POp::M(1., 1.), POp::L(wf - 1., hf - 1.5)]), StyleSpec { width: 1.5, cap: 1, join: 1, miter: 4., dash: vec![], offset: 0. }, src.clone(), o));
    }
    v
}

/// scenes on long strips (len x 2 or 2 x len): draws at the far end, a full-length sliver fill
/// and a full-length mask with non-periodic coverage, in the clip / layer contexts
pub fn wide_scenes(mode: BlendMode, tall: bool, len: i32) -> Vec<Scene> {
    let mut out = Vec::new();
            let lf = len as f32;
            let (w, h) = if tall { (2, len) } else { (len, 2) };
            let t = |x: f32, y: f32| if tall { (y, x) } else { (x, y) };
            let ti = |x: i32, y: i32| if tall { (y, x) } else { (x, y) };
            let mut hctx = contexts(w, h, true);
            if len > 300 {
                hctx.truncate(3);
            }
            let (sx, sy) = t(50. - lf, 0.);
            let srcs = [
                SrcSpec::Solid(0x80402010),
                SrcSpec::Solid(0xff204080),
                SrcSpec::Image { w: 5, h: 3, data: image_of(5, 3, &VALS12, 1), repeat: true, bilinear: false, xf: [1., 0., 0., 1., sx, sy] },
                SrcSpec::Image { w: 2, h: 2, data: vec![0x80002040; 4], repeat: false, bilinear: true, xf: [0.7, 0.2, -0.3, 1.1, 0.35, -0.6] },
                SrcSpec::Linear { stops: vec![Stop { pos: 0.0, color: 0x80ff8040 }, Stop { pos: 1.0, color: 0x80ff8040 }], spread: Spr::Reflect, p: [0., 0., 5., 3.] },
            ];
            for alpha in [1.0f32, 0.5] {
                let o = Opts { mode, alpha, aa: true };
                for src in &srcs {
                    let (mx, my) = ti(len - 46, 0);
                    let (mw, mh) = ti(5, 2);
                    let (ix, iy) = t(lf - 45., 0.);
                    let (iw, ih) = ti(4, 2);
                    let (rx, ry) = t(lf - 49.5, 0.25);
                    let (rw, rh) = t(48.75, 1.5);
                    let (fw, fh) = ti(len, 1);
                    // coverage bytes with period 251 (no divisor in common with any power of two)
                    let long_mask: Vec<u8> = (0..len).map(|k| [0u8, 255, 128, 1, 254, 64][((k % 251) % 6) as usize]).collect();
                    let probes = vec![
                        Op::Fill(PathSpec::poly(&[t(lf - 60., 0.), t(lf, 0.5), t(lf - 48.75, 2.)]), src.clone(), o),
                        Op::Fill(PathSpec::poly(&[t(-5., 1.), t(lf + 10., -1.), t(lf + 10., 3.)]), src.clone(), Opts { aa: false, ..o }),
                        Op::Fill(PathSpec::poly(&[t(-5., 1.), t(lf + 10., 0.25), t(lf + 10., 1.75)]), src.clone(), o),
                        Op::FillRect(rx, ry, rw, rh, src.clone(), o),
                        Op::Mask(mx, my, mw, mh, vec![255, 128, 1, 0, 64, 255, 200, 7, 99, 254], src.clone()),
                        Op::Mask(0, 0, fw, fh, long_mask, src.clone()),
                        Op::DrawImageAt(ix, iy, iw, ih, image_of(iw, ih, &VALS12, 3), o),
                    ];
                    for probe in probes {
                        for (_cn, pre, suf) in hctx.iter() {
                            let mut ops = pre.clone();
                            ops.push(probe.clone());
                            ops.extend(suf.iter().cloned());
                            let scene = Scene { w, h, dst: dst_cols(w, h, &VALS12, 3), ops };
                            out.push(scene);
                        }
                    }
                }
            }
    out
}

fn run_one(run: &Run, shard: usize, l: &mut Local, scene: &Scene) {
    l.states += scene.ops.len() as u64 + 1;
    match run_scene("C03", scene, owns, &classify) {
        Ok(st) => account(l, &st),
        Err(v) => {
            l.traces += 1;
            l.evals += 1;
            run.report(shard, v)
        }
    }
}

impl Check for C03 {
    fn id(&self) -> &'static str {
        "C03"
    }
    fn title(&self) -> &'static str {
        "Each pixel is composited by the blend mode's formula weighted by coverage"
    }

    fn run(&self, run: &Run) {
        let deep = !run.tier.quick();
        let q = false;
        run.rule("scenes = destination pattern x clip/layer context x one drawing call (route, blend mode, source, global alpha); every call of every scene is a transition checked pixel by pixel against M-PIX on the pixel's own inputs; non-trivial = at least one checked pixel had partial coverage or partial clip coverage");
        run.assume("blend formulas are sw_composite's public per-pixel primitives; where coverage and clip coverage are combined the model admits both 'multiply then weight' and sw_composite's combined primitives (over_in_in / alpha_lerp) for partial weights, and demands exactly blend(src,dst) at full weight and the previous value at zero weight");
        run.assume("shape coverage is the alpha of an opaque-white reference fill of the same shape on a fresh target (validated by C01/C04/C08); clip coverage is read from the clip stack through the verification hook (validated against its model by C05)");
        let (w, h) = (12, 4);
        let vals: &[u32] = if q { &VALS6 } else { &VALS12 };
        let deep_alphas = [0.0, 1.0 / 255.0, 0.1, 0.25, 0.5, 0.75, 0.999, 1.0];
        let alphas: &[f32] = if deep { &deep_alphas } else { &ALPHAS };
        let rots: Vec<usize> = if deep { (0..12).collect() } else { vec![0, 5] };
        let ctxs = contexts(w, h, q);
        let srcs = sources(vals, w, h, q);

        // B: fills / fill_rects / strokes: shard by (mode, source)
        run.bound("draws", format!("{} contexts x {} destination rotations x {} probes x 28 modes x {} alphas x {} sources on {}x{}", ctxs.len(), rots.len(), probes(w, h, &srcs[0], Opts::default(), q).len(), alphas.len(), srcs.len(), w, h));
        run.par(MODES.len() * srcs.len(), |sidx, l| {
            let mode = MODES[sidx / srcs.len()];
            let src = &srcs[sidx % srcs.len()];
            for &alpha in alphas {
                let o = Opts { mode, alpha, aa: true };
                for (pi, probe) in probes(w, h, src, o, q).into_iter().enumerate() {
                    for (ci, (_cn, pre, suf)) in ctxs.iter().enumerate() {
                        for &rot in &rots {
                            let mut ops = pre.clone();
                            ops.push(probe.clone());
                            ops.extend(suf.iter().cloned());
                            let scene = Scene { w, h, dst: dst_cols(w, h, &VALS12, rot), ops };
                            if sidx == 3 * srcs.len() + 2 && pi == 0 && ci == 2 && rot == 0 && alpha == 0.5 {
                                run.sample(scene.to_string());
                            }
                            run_one(run, sidx, l, &scene);
                        }
                    }
                }
            }
        });

        // E: clear(c) in every context
        run.bound("clear", format!("clear(c) for {} colours x {} contexts", VALS12.len(), ctxs.len()));
        run.par(VALS12.len(), |i, l| {
            for (_cn, pre, suf) in ctxs.iter() {
                for rot in 0..3 {
                    let mut ops = pre.clone();
                    ops.push(Op::Clear(VALS12[i]));
                    ops.extend(suf.iter().cloned());
                    let scene = Scene { w, h, dst: dst_cols(w, h, &VALS12, rot), ops };
                    run_one(run, 1000 + i, l, &scene);
                }
            }
        });

        // A: mask(): all 256 coverage bytes x destination values
        let mctx = contexts(16, 16, q);
        run.bound("mask-bytes", format!("16x16 mask holding every byte 0..255 x {} sources x 12 destination rotations x {} contexts", srcs.len(), mctx.len()));
        run.par(srcs.len() * 12, |i, l| {
            let src = &srcs[i / 12];
            let rot = i % 12;
            let data: Vec<u8> = (0..256).map(|b| b as u8).collect();
            for (_cn, pre, suf) in mctx.iter() {
                let mut ops = pre.clone();
                ops.push(Op::Mask(0, 0, 16, 16, data.clone(), src.clone()));
                ops.extend(suf.iter().cloned());
                let scene = Scene { w: 16, h: 16, dst: dst_cols(16, 16, &VALS12, rot), ops };
                if i == 5 && pre.len() == 1 {
                    run.sample(scene.to_string());
                }
                run_one(run, 2000 + i, l, &scene);
            }
        });

        // A': mask() position: every offset in [-3,4]^2, mask sizes 1x1..3x2, on 4x3
        let sizes: [(i32, i32); 6] = [(1, 1), (2, 1), (1, 2), (2, 2), (3, 2), (5, 4)];
        let pctx = contexts(4, 3, true);
        run.bound("mask-offsets", format!("mask at every offset in [-3,4]^2 x {} mask sizes x 3 sources x {} contexts on 4x3", sizes.len(), pctx.len()));
        run.par(64, |i, l| {
            let (mx, my) = (i as i32 % 8 - 3, i as i32 / 8 - 3);
            for (mw, mh) in sizes.iter() {
                let data: Vec<u8> = (0..(mw * mh)).map(|k| [255u8, 128, 1, 64, 0, 200, 255][(k as usize) % 7]).collect();
                for src in [SrcSpec::Solid(0xff204080), SrcSpec::Solid(0x80002040), SrcSpec::Image { w: 3, h: 2, data: image_of(3, 2, &VALS12, 2), repeat: true, bilinear: false, xf: IDENT }] {
                    for (_cn, pre, suf) in pctx.iter() {
                        let mut ops = pre.clone();
                        ops.push(Op::Mask(mx, my, *mw, *mh, data.clone(), src.clone()));
                        ops.extend(suf.iter().cloned());
                        let scene = Scene { w: 4, h: 3, dst: Dst::Distinct, ops };
                        run_one(run, 3000 + i, l, &scene);
                    }
                }
            }
        });

        // F: draw_image_at at integer positions (fast route) in every context and mode
        run.bound("draw_image_at", format!("draw_image_at for 28 modes x {} alphas x 9 integer positions x {} contexts", alphas.len(), ctxs.len()));
        run.par(MODES.len(), |mi, l| {
            let img = image_of(4, 2, &VALS12, 3);
            for &alpha in alphas {
                for (x, y) in [(0., 0.), (2., 1.), (-2., 0.), (9., 3.), (11., -1.), (3., 2.), (-4., -2.), (12., 4.), (5., -1.)] {
                    for (_cn, pre, suf) in ctxs.iter() {
                        let mut ops = pre.clone();
                        ops.push(Op::DrawImageAt(x, y, 4, 2, img.clone(), Opts { mode: MODES[mi], alpha, aa: true }));
                        ops.extend(suf.iter().cloned());
                        let scene = Scene { w, h, dst: dst_cols(w, h, &VALS12, 2), ops };
                        run_one(run, 4000 + mi, l, &scene);
                    }
                }
            }
        });

        // G: pop_layer: layer content with per-pixel values, every blend mode and opacity
        let opac: &[f32] = if q { &[0.0, 0.5, 1.0] } else { &[0.0, 1.0 / 255.0, 0.25, 0.5, 0.999, 1.0] };
        let lctx: Vec<(Vec<Op>, Vec<Op>)> = vec![
            (vec![], vec![]),
            (vec![Op::PushClipRect(1, 1, w, h)], vec![Op::PopClip]),
            (vec![Op::PushClipRect(-2, -1, w + 3, h + 2)], vec![Op::PopClip]),
            (vec![Op::PushClip(PathSpec::poly(&[(0.5, 0.0), (12.0, 0.25), (11.5, 4.0), (1.75, 3.75)]))], vec![Op::PopClip]),
            (vec![Op::PushLayer(0.5, BlendMode::SrcOver)], vec![Op::PopLayer]),
        ];
        run.bound("pop_layer", format!("28 layer blends x {} opacities x {} contexts x {} layer contents x 2 destination rotations", opac.len(), lctx.len(), 3));
        run.par(MODES.len(), |mi, l| {
            for &o in opac {
                for (pre, suf) in lctx.iter() {
                    for content in 0..3 {
                        for rot in [0usize, 7] {
                            let mut ops = pre.clone();
                            ops.push(Op::PushLayer(o, MODES[mi]));
                            match content {
                                0 => ops.push(Op::FillRect(0., 0., w as f32, h as f32, SrcSpec::Image { w: 12, h: 4, data: image_of(12, 4, &VALS12, 0), repeat: false, bilinear: false, xf: IDENT }, Opts { mode: BlendMode::Src, alpha: 1.0, aa: true })),
                                1 => {
                                    ops.push(Op::Fill(PathSpec::poly(&[(0., 0.), (12., 0.5), (0.25, 4.)]), SrcSpec::Solid(0xff204080), Opts::default()));
                                    ops.push(Op::Fill(PathSpec::poly(&[(12., 4.), (0., 3.5), (11.75, 0.)]), SrcSpec::Solid(0x80002040), Opts::default()));
                                }
                                _ => ops.push(Op::Clear(0x80808080)),
                            }
                            ops.push(Op::PopLayer);
                            ops.extend(suf.iter().cloned());
                            let scene = Scene { w, h, dst: dst_cols(w, h, &VALS12, rot), ops };
                            if mi == 23 && o == 0.5 && content == 1 && rot == 0 && pre.is_empty() {
                                run.sample(scene.to_string());
                            }
                            run_one(run, 5000 + mi, l, &scene);
                        }
                    }
                }
            }
        });
        // H: wide and tall surfaces (device coordinates beyond 256: strides, narrow casts in the
        // span / shader / mask paths)
        let hmodes = [BlendMode::SrcOver, BlendMode::Src, BlendMode::Xor, BlendMode::Multiply, BlendMode::DstIn];
        run.bound("wide-tall", format!("300x2, 2x300, 8200x2 and 2x8200 surfaces x {} modes x 2 alphas x 5 sources x 7 probes (fills, fill_rect, mask, draw_image_at at the far end; full-length sliver fill and full-length mask with non-periodic coverage) x all contexts (first 3 for the 8200 strips)", hmodes.len()));
        run.par(hmodes.len() * 4, |i, l| {
            for scene in wide_scenes(hmodes[i / 4], i % 2 == 1, if (i / 2) % 2 == 1 { 8200 } else { 300 }) {
                run_one(run, 6000 + i, l, &scene);
            }
        });
        // J: invertible transforms with a tiny determinant (only a non-invertible transform draws
        // nothing): mask() ignores the transform, fills are given in user units 10^4 times larger
        run.bound("tiny determinants", "scale(1e-4) and scale(1e-3, 1e-5): mask, fill, fractional fill_rect and stroke in the matching user units x 5 modes x 3 sources x first 4 contexts on 12x4".to_string());
        run.par(hmodes.len() * 2, |i, l| {
            let mode = hmodes[i / 2];
            let (kx, ky) = if i % 2 == 0 { (1e4f32, 1e4f32) } else { (1e3, 1e5) };
            let xf: Xf = [1.0 / kx, 0., 0., 1.0 / ky, 0., 0.];
            let tctx: Vec<_> = contexts(w, h, true).into_iter().take(4).collect();
            for src in [SrcSpec::Solid(0x80402010), SrcSpec::Solid(0xff204080), SrcSpec::Linear { stops: vec![Stop { pos: 0.0, color: 0x80ff8040 }, Stop { pos: 1.0, color: 0x80ff8040 }], spread: Spr::Pad, p: [0., 0., 5., 3.] }] {
                let o = Opts { mode, alpha: 1.0, aa: true };
                let probes = vec![
                    Op::Mask(1, 0, 5, 2, vec![255, 128, 1, 0, 64, 255, 200, 7, 99, 254], src.clone()),
                    Op::Fill(PathSpec::poly(&[(0.5 * kx, 0.25 * ky), (11.5 * kx, 0.5 * ky), (6.0 * kx, 3.75 * ky)]), src.clone(), o),
                    Op::FillRect(1.5 * kx, 0.25 * ky, 8.25 * kx, 3.5 * ky, src.clone(), o),
                    Op::Stroke(PathSpec::new(vec![POp::M(1.0 * kx, 1.0 * ky), POp::L(11.0 * kx, 2.5 * ky)]), StyleSpec { width: 1.5 * kx.min(ky), cap: 1, join: 1, miter: 4., dash: vec![], offset: 0. }, src.clone(), o),
                ];
                for probe in probes {
                    for (_cn, pre, suf) in tctx.iter() {
                        let mut ops = pre.clone();
                        ops.push(Op::SetTransform(xf));
                        ops.push(probe.clone());
                        ops.push(Op::SetTransform(IDENT));
                        ops.extend(suf.iter().cloned());
                        let scene = Scene { w, h, dst: dst_cols(w, h, &VALS12, 2), ops };
                        run_one(run, 8000 + i, l, &scene);
                    }
                }
            }
        });
        // I: a mask of more than 65536 bytes on a surface of more than 65536 pixels
        run.bound("large mask", "300x300 mask (coverage with periods 251 / 241 along rows / columns) at (0,0) and (-7,13) x 4 modes x 2 sources x 2 contexts on 300x300".to_string());
        run.par(4, |i, l| {
            let mode = [BlendMode::SrcOver, BlendMode::Src, BlendMode::Xor, BlendMode::DstIn][i];
            let data: Vec<u8> = (0..90000u32).map(|k| [0u8, 255, 128, 1, 254, 64, 200][(((k % 300) % 251 + (k / 300) % 241) % 7) as usize]).collect();
            for src in [SrcSpec::Solid(0x80402010), SrcSpec::Image { w: 5, h: 3, data: image_of(5, 3, &VALS12, 1), repeat: true, bilinear: false, xf: IDENT }] {
                for (mx, my) in [(0, 0), (-7, 13)] {
                    for ctx in 0..2 {
                        let mut ops = Vec::new();
                        if ctx == 1 {
                            ops.push(Op::PushClip(PathSpec::poly(&[(3.5, 1.0), (298.0, 40.25), (250.5, 299.0), (10.25, 200.0)])));
                        }
                        // mask() composites with SrcOver; other modes go through a masked layer
                        if mode == BlendMode::SrcOver {
                            ops.push(Op::Mask(mx, my, 300, 300, data.clone(), src.clone()));
                        } else {
                            ops.push(Op::PushLayer(1.0, mode));
                            ops.push(Op::Mask(mx, my, 300, 300, data.clone(), src.clone()));
                            ops.push(Op::PopLayer);
                        }
                        if ctx == 1 {
                            ops.push(Op::PopClip);
                        }
                        let scene = Scene { w: 300, h: 300, dst: dst_cols(300, 300, &VALS12, 1), ops };
                        run_one(run, 7000 + i, l, &scene);
                    }
                }
            }
        });
        // J: draw_text, the fill-like entry point with its own wiring of coverage, blend mode and
        // global alpha into the compositor (coverage = what the glyph rasteriser produced)
        if font_available() {
            let (tw, th) = (14, 9);
            let texts: [(&str, f32, f32, f32); 3] = [("Lo", 9.0, 0.5, 7.25), ("i", 14.0, 5.0, 8.0), ("W.", 7.0, -2.0, 6.5)];
            let tsrcs = [SrcSpec::Solid(0xff204080), SrcSpec::Solid(0x80402010), SrcSpec::Linear { stops: vec![Stop { pos: 0.0, color: 0xffff0000 }, Stop { pos: 1.0, color: 0x800000ff }], spread: Spr::Pad, p: [0., 0., 14., 0.] }];
            let txs: [Xf; 3] = [IDENT, [1., 0., 0., 1., 0.25, -0.5], [1.25, 0.25, 0., 1., 0., 0.]];
            let tctx = contexts(tw, th, true);
            run.bound("draw_text", format!("draw_text of {} runs (test font: first loadable of {:?}) x 28 modes x {} alphas x {} sources x {} transforms x 2 aa x {} contexts on {}x{}", texts.len(), FONT_FILES, alphas.len(), tsrcs.len(), txs.len(), tctx.len(), tw, th));
            run.par(MODES.len(), |mi, l| {
                let mode = MODES[mi];
                for &alpha in alphas {
                    for aa in [true, false] {
                        for (text, size, x, y) in texts {
                            for src in &tsrcs {
                                for xf in &txs {
                                    for (_cn, pre, suf) in &tctx {
                                        let mut ops = pre.clone();
                                        ops.push(Op::SetTransform(*xf));
                                        ops.push(Op::Text(size, text.to_string(), x, y, src.clone(), Opts { mode, alpha, aa }));
                                        ops.extend(suf.iter().cloned());
                                        let scene = Scene { w: tw, h: th, dst: dst_cols(tw, th, &VALS12, 3), ops };
                                        run_one(run, 8000 + mi, l, &scene);
                                    }
                                }
                            }
                        }
                    }
                }
            });
        } else {
            run.bound("draw_text", format!("not explored: none of the font files {:?} could be loaded", FONT_FILES));
        }
        super::mixed::explore_mixed(run, "C03", owns, if deep { 6 } else { 5 }, false);
    }

    fn replay(&self, case: &str) -> Result<Option<Violation>, String> {
        let scene = parse_scene(case)?;
        if let Err(v) = run_scene("C03", &scene, owns, &classify) {
            return Ok(Some(v));
        }
        return Ok(super::mixed::eval_mixed(&scene, &owns, false).err());
        #[allow(unreachable_code)]
        Ok(run_scene("C03", &scene, owns, &classify).err())
    }
}
