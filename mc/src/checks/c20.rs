//! C20 PathBuilder helpers and Path::transform produce the documented geometry.

use crate::engine::*;
use crate::model::curve::*;
use crate::scene::*;
use raqote::*;

pub struct C20;

fn ops_dbg(ops: &[PathOp]) -> String {
    format!("{:?}", ops)
}

fn beq(a: f32, b: f32) -> bool {
    a.to_bits() == b.to_bits() || (a == 0.0 && b == 0.0)
}

// ---------------------------------------------------------------- rect

/// `prefix`: what the builder holds when rect() is called. 0 nothing; 1 an open subpath elsewhere;
/// 2 an open subpath whose last LineTo ends exactly on the rectangle's first corner; 3 the same
/// with a QuadTo; 4 a lone MoveTo to that corner; 5 a closed subpath that started on that corner
fn eval_rect(x: f32, y: f32, w: f32, h: f32, prefix: u8) -> Result<u64, Violation> {
    let case = format!("kind=rect x={:?} y={:?} w={:?} h={:?} prefix={}", x, y, w, h, prefix);
    let (path, skip) = guard(|| {
        let mut pb = PathBuilder::new();
        let skip = match prefix {
            0 => 0,
            1 => {
                pb.move_to(9., 9.);
                pb.line_to(8., 7.);
                2
            }
            2 => {
                pb.move_to(9., 9.);
                pb.line_to(x, y);
                2
            }
            3 => {
                pb.move_to(9., 9.);
                pb.quad_to(8., 7., x, y);
                2
            }
            4 => {
                pb.move_to(x, y);
                1
            }
            _ => {
                pb.move_to(x, y);
                pb.line_to(8., 7.);
                pb.line_to(9., 9.);
                pb.close();
                4
            }
        };
        pb.rect(x, y, w, h);
        (pb.finish(), skip)
    })
    .map_err(|e| Violation::new("rect/panic", case.clone(), e))?;
    let ops = &path.ops[skip.min(path.ops.len())..];
    let want = [(x, y), (x + w, y), (x + w, y + h), (x, y + h)];
    let ok = ops.len() == 5
        && matches!(ops[0], PathOp::MoveTo(p) if beq(p.x, want[0].0) && beq(p.y, want[0].1))
        && (1..4).all(|i| matches!(ops[i], PathOp::LineTo(p) if beq(p.x, want[i].0) && beq(p.y, want[i].1)))
        && matches!(ops[4], PathOp::Close)
        && path.winding == Winding::NonZero;
    if !ok {
        return Err(Violation::new("rect/ops", case, format!("expected MoveTo{:?} LineTo{:?} LineTo{:?} LineTo{:?} Close (NonZero), got {} ({:?})", want[0], want[1], want[2], want[3], ops_dbg(ops), path.winding)));
    }
    Ok(hash64(&ops_dbg(&path.ops)))
}

// ---------------------------------------------------------------- arc

/// `ctx`: what the builder holds when arc() is called. 0 nothing; 1 a MoveTo elsewhere; 2 a closed
/// subpath that began elsewhere and whose last vertex is exactly the arc's start point (after the
/// Close the current point is the subpath's start, so the leading line is still needed); 3 the
/// same arc, closed, then the arc again
fn eval_arc(cx: f32, cy: f32, r: f32, start: f32, sweep: f32, ctx: u8) -> Result<u64, Violation> {
    let case = format!("kind=arc cx={:?} cy={:?} r={:?} start={:?} sweep={:?} cur={}", cx, cy, r, start, sweep, ctx);
    let (path, skip) = guard(|| {
        let mut pb = PathBuilder::new();
        let mut skip = 0;
        if ctx >= 1 {
            pb.move_to(-7., 3.);
            skip += 1;
        }
        if ctx == 2 {
            let mut probe = PathBuilder::new();
            probe.arc(cx, cy, r, start, sweep);
            if let Some(PathOp::LineTo(p)) = probe.finish().ops.first() {
                pb.line_to(p.x, p.y);
                pb.close();
                skip += 2;
            }
        }
        if ctx == 3 {
            let mut probe = PathBuilder::new();
            probe.arc(cx, cy, r, start, sweep);
            let n = probe.finish().ops.len();
            pb.arc(cx, cy, r, start, sweep);
            pb.close();
            skip += n + 1;
        }
        pb.arc(cx, cy, r, start, sweep);
        (pb.finish(), skip)
    })
    .map_err(|e| Violation::new("arc/panic", case.clone(), e))?;
    if path.ops.len() < skip {
        return Err(Violation::new("arc/ops-missing", case, format!("{} ops, expected at least {}", path.ops.len(), skip)));
    }
    let ops = &path.ops[skip..];
    let bad = |clause: &str, d: String| Err(Violation::new(format!("arc/{}", clause), case.clone(), format!("{}\nops: {}", d, ops_dbg(ops))));
    let (c, rr, s, sw) = ((cx as f64, cy as f64), r as f64, start as f64, sweep as f64);
    // 0.5% of r (the property's tolerance for the curve approximation) plus the f32 rounding of
    // coordinates of this magnitude
    let tol_r = 0.005 * rr + 2e-6 * (c.0.abs() + c.1.abs() + rr);
    // first op: a straight line to the arc's starting point
    let p0 = match ops.first() {
        Some(PathOp::LineTo(p)) => (p.x as f64, p.y as f64),
        other => return bad("leading-line_to", format!("first op must be LineTo(start point), got {:?}", other)),
    };
    let sp = (c.0 + rr * s.cos(), c.1 + rr * s.sin());
    // the starting point is not approximated: it is (x + r cos start, y + r sin start) to the
    // precision of f32 sines (the 0.5% belongs to the curve between its end points)
    if dist(p0, sp) > 4e-6 * (c.0.abs() + c.1.abs() + rr) + 1e-30 {
        return bad("start-point", format!("leading LineTo goes to {:?}, arc start is {:?}", p0, sp));
    }
    let mut cur = p0;
    let mut total = 0.0f64; // accumulated signed angle
    let mut prev_ang = (p0.1 - c.1).atan2(p0.0 - c.0);
    let sign = if sw >= 0.0 { 1.0 } else { -1.0 };
    for (i, op) in ops.iter().enumerate().skip(1) {
        // the property says "a curve": quadratic (what lyon emits today) or cubic segments
        let (q, to) = match op {
            PathOp::QuadTo(a, b) => (Curve::Quad(cur, (a.x as f64, a.y as f64), (b.x as f64, b.y as f64)), (b.x as f64, b.y as f64)),
            PathOp::CubicTo(a, b, c) => (Curve::Cubic(cur, (a.x as f64, a.y as f64), (b.x as f64, b.y as f64), (c.x as f64, c.y as f64)), (c.x as f64, c.y as f64)),
            other => return bad("only-curves-after-line_to", format!("op {} is {:?}", i, other)),
        };
        for k in 1..=32 {
            let p = q.eval(k as f64 / 32.0);
            let d = dist(p, c);
            if (d - rr).abs() > tol_r {
                return bad("radius", format!("point {:?} of quad {} is at distance {:.5} from the centre, r = {}", p, i, d, rr));
            }
            if rr > 0.0 {
                let ang = (p.1 - c.1).atan2(p.0 - c.0);
                let mut da = ang - prev_ang;
                while da > std::f64::consts::PI {
                    da -= 2.0 * std::f64::consts::PI;
                }
                while da < -std::f64::consts::PI {
                    da += 2.0 * std::f64::consts::PI;
                }
                if da * sign < -1e-4 {
                    return bad("direction", format!("angle moves by {:.6} rad at quad {} sample {} although the sweep is {}", da, i, k, sw));
                }
                total += da;
                prev_ang = ang;
            }
        }
        cur = to;
    }
    if rr > 0.0 {
        let want = sw.abs().min(2.0 * std::f64::consts::PI);
        // the angle covered is exact up to the f32 rounding of the angles involved
        // (and of the coordinates: a point at distance r from a centre of magnitude c is only known to
        // the spacing of floats at c, an angle of that over r)
        let slack = 2e-5 + 4e-7 * (s.abs() + sw.abs()) * 8.0 + 1e-6 * (c.0.abs() + c.1.abs() + rr) / rr;
        if (total.abs() - want).abs() > slack {
            return bad("angle-covered", format!("curve covers {:.6} rad, expected {:.6} (|sweep| clamped to one turn)", total.abs(), want));
        }
        // end point
        let ea = if sw.abs() >= 2.0 * std::f64::consts::PI { s } else { s + sw };
        let ep = (c.0 + rr * ea.cos(), c.1 + rr * ea.sin());
        if dist(cur, ep) > 4e-6 * (c.0.abs() + c.1.abs() + rr) + rr * slack + 1e-30 {
            return bad("end-point", format!("curve ends at {:?}, expected {:?}", cur, ep));
        }
        // very small sweeps: "exactly the angles from start to start+sweep" is still resolved by the
        // coordinates where the start point has a coordinate near zero (start angle 0 or pi about the
        // origin): the displacement from the start point to the end point, component by component,
        // to 1% plus four units in the last place of the coordinates involved
        if sw != 0.0 && sw.abs() < 1e-3 {
            let want_d = (rr * ((s + sw).cos() - s.cos()), rr * ((s + sw).sin() - s.sin()));
            let got_d = (cur.0 - p0.0, cur.1 - p0.1);
            // (the angle start + sweep itself is formed in f32: it is only known to the spacing of
            // floats at that angle)
            let ang = rr * (s.abs() + sw.abs()) * 2.4e-7;
            let u = |a: f64, b: f64| 4.0 * (a.abs().max(b.abs()) * 1.2e-7 + 1e-38) + ang;
            let (tx, ty) = (0.01 * want_d.0.abs() + u(p0.0, cur.0), 0.01 * want_d.1.abs() + u(p0.1, cur.1));
            if (got_d.0 - want_d.0).abs() > tx || (got_d.1 - want_d.1).abs() > ty {
                return bad("small-sweep-displacement", format!("from the start point {:?} the curve ends {:?} further, the sweep of {:e} rad asks for {:?} (tolerances {:e}, {:e})", p0, got_d, sw, want_d, tx, ty));
            }
        }
    }
    Ok(hash64(&ops_dbg(&path.ops)))
}

// ---------------------------------------------------------------- transform / finish

const XFS: [Xf; 11] = [
    IDENT,
    [1., 0., 0., 1., 3., -2.],
    [1., 0., 0., 1., 0.5, 0.25],
    [2., 0., 0., 2., 0., 0.],
    [2., 0., 0., 0.5, 0., 0.],
    [0., 1., -1., 0., 0., 0.],
    [0.8660254, 0.5, -0.5, 0.8660254, 0., 0.],
    [1., 0., 0.5, 1., 0., 0.],
    [-1., 0., 0., 1., 4., 0.],
    [0., 0., 0., 1., 0., 0.],
    [0., 0., 0., 0., 0., 0.],
];

fn op_alpha() -> Vec<POp> {
    vec![POp::M(1.5, -2.), POp::M(0., 0.), POp::L(3.25, 4.), POp::L(-1., 0.5), POp::Q(1., 2., 3., 4.5), POp::Q(-2., 0., 0.5, 0.5), POp::C(1., 0., 0., 1., 2.5, 2.5), POp::C(-3., 2., 7., 7., 0.25, -1.), POp::Z]
}

fn eval_transform(ops: &[POp], eo: bool, xf: &Xf) -> Result<u64, Violation> {
    let spec = PathSpec { evenodd: eo, ops: ops.to_vec() };
    let case = format!("kind=transform xf={} path={}", xf.iter().map(|v| format!("{:?}", v)).collect::<Vec<_>>().join(","), spec);
    let t = xf_to(xf);
    let orig = spec.build();
    // finish(): ops in call order, winding as set
    if orig.ops.len() != ops.len() {
        return Err(Violation::new("finish/op-count", case, format!("{} calls produced {} ops", ops.len(), orig.ops.len())));
    }
    let out = guard(|| orig.clone().transform(&t)).map_err(|e| Violation::new("transform/panic", case.clone(), e))?;
    if out.winding != orig.winding || out.ops.len() != orig.ops.len() {
        return Err(Violation::new("transform/structure", case, format!("winding {:?} -> {:?}, {} ops -> {}", orig.winding, out.winding, orig.ops.len(), out.ops.len())));
    }
    // the mapped point, and how large the terms are that add up to each coordinate: the result may
    // differ from this evaluation order by a few ulps of those terms (bit-identity with one
    // particular order of operations is not part of the property)
    let tp = |x: f32, y: f32| {
        let q = t.transform_point(Point::new(x, y));
        let mx = (x * t.m11).abs() + (y * t.m21).abs() + t.m31.abs();
        let my = (x * t.m12).abs() + (y * t.m22).abs() + t.m32.abs();
        (q, mx, my)
    };
    let same = |p: Point, w: (Point, f32, f32)| {
        let ok = |a: f32, b: f32, m: f32| beq(a, b) || (a - b).abs() <= 4.0 * f32::EPSILON * m;
        ok(p.x, w.0.x, w.1) && ok(p.y, w.0.y, w.2)
    };
    for (i, (o, src)) in out.ops.iter().zip(ops.iter()).enumerate() {
        let ok = match (*o, *src) {
            (PathOp::MoveTo(p), POp::M(x, y)) => same(p, tp(x, y)),
            (PathOp::LineTo(p), POp::L(x, y)) => same(p, tp(x, y)),
            (PathOp::QuadTo(a, b), POp::Q(ax, ay, bx, by)) => same(a, tp(ax, ay)) && same(b, tp(bx, by)),
            (PathOp::CubicTo(a, b, c), POp::C(ax, ay, bx, by, cx, cy)) => same(a, tp(ax, ay)) && same(b, tp(bx, by)) && same(c, tp(cx, cy)),
            (PathOp::Close, POp::Z) => true,
            _ => false,
        };
        if !ok {
            return Err(Violation::new("transform/op", case, format!("op {}: input {:?} mapped to {:?}", i, src, o)));
        }
    }
    Ok(hash64(&ops_dbg(&out.ops)))
}

fn pf(m: &std::collections::BTreeMap<String, String>, k: &str) -> Result<f32, String> {
    kv_s(m, k)?.parse::<f32>().map_err(|e| format!("{}: {}", k, e))
}

impl Check for C20 {
    fn id(&self) -> &'static str {
        "C20"
    }
    fn title(&self) -> &'static str {
        "PathBuilder helpers and Path::transform produce the documented geometry"
    }

    fn run(&self, run: &Run) {
        let deep = !run.tier.quick();
        let q = false;
        run.rule("every parameter tuple of the stated grids is passed to PathBuilder::rect / arc and every op string up to the depth bound to Path::transform under 11 transforms; emitted ops are evaluated in f64 against the documented geometry; non-trivial = arcs with r > 0 and sweep != 0, transforms other than the identity");
        // rect
        // (0.1, 0.3, 1e7: sums that are rounded - every corner is still built from the arguments)
        let xs = [-3.0f32, 0., 2.5, 0.1, 0.3];
        let ws = [-2.0f32, 0., 1., 7.5, 100.0, 1e7];
        run.bound("rect", format!("{} rect parameter tuples x 6 builder contexts (empty, open subpath elsewhere, LineTo / QuadTo ending on the first corner, MoveTo to it, closed subpath that started on it)", xs.len() * xs.len() * ws.len() * ws.len()));
        run.seq(|l| {
            for &x in &xs {
                for &y in &xs {
                    for &w in &ws {
                        for &h in &ws {
                            for prefix in 0u8..6 {
                                l.states += 1;
                                l.transitions += 1;
                                l.traces += 1;
                                l.evals += 1;
                                if w != 0. && h != 0. {
                                    l.nontrivial += 1;
                                }
                                match eval_rect(x, y, w, h, prefix) {
                                    Ok(hh) => l.outcome(hh),
                                    Err(v) => run.report(0, v),
                                }
                            }
                        }
                    }
                }
            }
            run.sample("kind=rect x=2.5 y=-3.0 w=7.5 h=-2.0 prefix=0".to_string());
        });
        // arc
        let pi = std::f32::consts::PI;
        let centres = [(0.0f32, 0.0f32), (5., -3.)];
        // radii from far below f32::EPSILON to 1000 (the tiny ones only around the origin, where
        // coordinates of that size are representable)
        let radii: Vec<f32> = if q { vec![0., 1e-10, 1e-7, 0.5, 10., 1000.] } else { vec![0., 1e-20, 1e-10, 1e-7, 1e-3, 0.5, 1., 10., 100., 1000.] };
        let nstart = if deep { 192 } else { 48 };
        let starts: Vec<f32> = (0..nstart).map(|i| -2.5 * pi + (i as f32) * (5.5 * pi / nstart as f32) + if i % 3 == 0 { 0.0 } else { 0.013 * i as f32 }).collect();
        let mut sweeps: Vec<f32> = vec![0.0];
        for s in [1e-3, pi / 4., pi / 2., pi, 1.5 * pi, 2. * pi, 2. * pi + 1e-3, 7., 100., 2. * pi - 5e-4, 2. * pi - 1e-4, 2. * pi - 2e-3] {
            sweeps.push(s);
            sweeps.push(-s);
        }
        if !q {
            for s in [0.1, 1.0, 2.0, 3.0, 4.0, 5.0, 6.0, 6.2, 6.28, 6.3, 10.0, 1e3] {
                sweeps.push(s);
                sweeps.push(-s);
            }
        }
        run.bound("arc", format!("{} centres x {} radii x {} start angles x {} sweeps x 4 builder contexts (empty, MoveTo elsewhere, closed subpath ending on the arc start, the same arc closed before)", centres.len(), radii.len(), starts.len(), sweeps.len()));
        run.par(starts.len(), |si, l| {
            for &(cx, cy) in &centres {
                for &r in &radii {
                    if r > 0. && r < 1e-5 && (cx != 0. || cy != 0.) {
                        continue;
                    }
                    for &sw in &sweeps {
                        for cur in [0u8, 1, 2, 3] {
                            l.states += 1;
                            l.transitions += 1;
                            l.traces += 1;
                            l.evals += 1;
                            if r > 0. && sw != 0. {
                                l.nontrivial += 1;
                            }
                            match eval_arc(cx, cy, r, starts[si], sw, cur) {
                                Ok(h) => l.outcome(h),
                                Err(v) => run.report(si, v),
                            }
                        }
                    }
                }
            }
            if si == 5 {
                run.sample(format!("kind=arc cx=5.0 cy=-3.0 r=10.0 start={:?} sweep={:?} cur=1", starts[si], -1.5 * pi));
            }
        });
        // sweeps far below any angular tolerance, where the coordinates still resolve them
        {
            let tiny: Vec<f32> = vec![9e-7, -9e-7, 5e-7, -5e-7, 1e-7, -1e-7, 2e-6, -2e-6, 1e-5, 1e-9, -1e-12];
            let rads = [1.0f32, 1000.0, 1e6, 1e9];
            run.bound("tiny sweeps", format!("{} sweeps of 1e-12 .. 1e-5 rad x radii {:?} x start angles 0, pi, pi/2 (f32) about the origin x 4 builder contexts", tiny.len(), rads));
            run.seq(|l| {
                for &sw in &tiny {
                    for &r in &rads {
                        for st in [0.0f32, pi, pi / 2.] {
                            for ctx in 0u8..4 {
                                l.states += 1;
                                l.transitions += 1;
                                l.traces += 1;
                                l.evals += 1;
                                l.nontrivial += 1;
                                match eval_arc(0., 0., r, st, sw, ctx) {
                                    Ok(h) => l.outcome(h),
                                    Err(v) => run.report(3, v),
                                }
                            }
                        }
                    }
                }
            });
        }
        // start angles of many turns (exactly representable, with sweeps that keep the sums exact)
        {
            let bigs = [1000.0f32, 4096.0, 65536.0, 100000.0, -32768.0];
            run.bound("start angles of many turns", format!("start angles {:?} x sweeps {{0.5, -0.25, 2, 7}} x radii {{1, 100}} x 2 builder contexts", bigs));
            run.seq(|l| {
                for &st in &bigs {
                    for sw in [0.5f32, -0.25, 2.0, 7.0] {
                        for r in [1.0f32, 100.0] {
                            for ctx in [0u8, 1] {
                                l.states += 1;
                                l.transitions += 1;
                                l.traces += 1;
                                l.evals += 1;
                                l.nontrivial += 1;
                                match eval_arc(5., -3., r, st, sw, ctx) {
                                    Ok(h) => l.outcome(h),
                                    Err(v) => run.report(4, v),
                                }
                            }
                        }
                    }
                }
            });
        }
        // transform + finish
        let alpha = op_alpha();
        let depth = if deep { 6 } else { 4 };
        run.bound("transform", format!("all op strings of length 1..={} over {} ops x 2 winding rules x 11 transforms", depth, alpha.len()));
        run.par(alpha.len(), |a0, l| {
            fn rec(run: &Run, s: usize, l: &mut Local, alpha: &[POp], stack: &mut Vec<usize>, depth: usize) {
                l.states += 1;
                let ops: Vec<POp> = stack.iter().map(|&i| alpha[i]).collect();
                for (ti, xf) in XFS.iter().enumerate() {
                    for eo in [false, true] {
                        l.transitions += 1;
                        l.traces += 1;
                        l.evals += 1;
                        if ti != 0 {
                            l.nontrivial += 1;
                        }
                        match eval_transform(&ops, eo, xf) {
                            Ok(h) => l.outcome(h),
                            Err(v) => run.report(s, v),
                        }
                    }
                }
                if stack.len() >= depth {
                    return;
                }
                for i in 0..alpha.len() {
                    stack.push(i);
                    rec(run, s, l, alpha, stack, depth);
                    stack.pop();
                }
            }
            let mut st = vec![a0];
            rec(run, a0, l, &alpha, &mut st, depth);
        });
        // transforms with extreme coefficients (tiny skews and rotations on huge coordinates): every
        // matrix entry takes part, however small
        let xfs2: Vec<Xf> = vec![
            [1., 0., 5e-7, 1., 0., 0.],
            [1., 5e-7, 0., 1., 0., 0.],
            [0.8660254 * 9e-7, 0.5 * 9e-7, -0.5 * 9e-7, 0.8660254 * 9e-7, 0., 0.],
            [1e-7, 0., 0., 1e-7, 0., 0.],
            [1., 1e-9, 1e-9, 1., 0., 0.],
            [1e6, 3e-7, -3e-7, 1e6, 0., 0.],
            [1., 1e-6, -1e-6, 1., 1e-7, -1e-7],
            [2., 0., 9e-7, 0.5, 3., 4.],
            // one entry away from the identity
            [1., 0., 0., 1., 0., 3.5],
            [1., 0., 0., 1., -2.25, 0.],
            [1., 0., 0., 1.5, 0., 0.],
            [-1., 0., 0., 1., 0., 0.],
            [1., 0., 0., 1., 0., 1e-30],
        ];
        let scales = [1.0f32, 4e6, 1e-6];
        run.bound("transform with extreme coefficients", format!("all op strings of length 1..=2 over {} ops with coordinates x {:?} x {} transforms with entries down to 1e-9", alpha.len(), scales, xfs2.len()));
        run.par(alpha.len(), |a0, l| {
            for a1 in 0..=alpha.len() {
                for &k in &scales {
                    let sc = |o: POp| -> POp {
                        match o {
                            POp::M(x, y) => POp::M(x * k, y * k),
                            POp::L(x, y) => POp::L(x * k, y * k),
                            POp::Q(a, b, c, d) => POp::Q(a * k, b * k, c * k, d * k),
                            POp::C(a, b, c, d, e, f) => POp::C(a * k, b * k, c * k, d * k, e * k, f * k),
                            o => o,
                        }
                    };
                    let mut ops = vec![sc(alpha[a0])];
                    if a1 < alpha.len() {
                        ops.push(sc(alpha[a1]));
                    }
                    for xf in &xfs2 {
                        l.states += 1;
                        l.transitions += 1;
                        l.traces += 1;
                        l.evals += 1;
                        l.nontrivial += 1;
                        match eval_transform(&ops, false, xf) {
                            Ok(h) => l.outcome(h),
                            Err(v) => run.report(500 + a0, v),
                        }
                    }
                }
            }
        });
        run.sample(format!("kind=transform xf=0.8660254,0.5,-0.5,0.8660254,0.0,0.0 path={}", PathSpec { evenodd: true, ops: vec![alpha[0], alpha[4], alpha[8]] }));
    }

    fn replay(&self, case: &str) -> Result<Option<Violation>, String> {
        let m = kv(case);
        match kv_s(&m, "kind")? {
            "rect" => Ok(eval_rect(pf(&m, "x")?, pf(&m, "y")?, pf(&m, "w")?, pf(&m, "h")?, kv_i(&m, "prefix")? as u8).err()),
            "arc" => Ok(eval_arc(pf(&m, "cx")?, pf(&m, "cy")?, pf(&m, "r")?, pf(&m, "start")?, pf(&m, "sweep")?, kv_i(&m, "cur")? as u8).err()),
            "transform" => {
                let xv: Vec<f32> = kv_s(&m, "xf")?.split(',').map(|t| t.parse::<f32>().map_err(|e| e.to_string())).collect::<Result<_, _>>()?;
                let mut xf = IDENT;
                xf.copy_from_slice(&xv);
                let p = parse_path(kv_s(&m, "path")?)?;
                Ok(eval_transform(&p.ops, p.evenodd, &xf).err())
            }
            o => Err(format!("bad kind {}", o)),
        }
    }
}
