//! Shared pieces of the scene-based checks: the checked scene runner and value alphabets.

use crate::engine::*;
use crate::model::step::*;
use crate::scene::*;

/// 12 valid premultiplied values: a in {0, 1, 0x40, 0x80, 0xfe, 0xff}, c = a, c = 0, c = a/2, distinct channels
pub const VALS12: [u32; 12] = [
    0x00000000, 0xffffffff, 0xff000000, 0xff204080, 0x80808080, 0x80002040, 0x40400020, 0x01010001, 0xfe00fe7f, 0xfefefefe, 0xffff0000, 0x7f3f007f,
];

/// reduced set for quick tiers
pub const VALS6: [u32; 6] = [0x00000000, 0xffffffff, 0xff204080, 0x80002040, 0x01010001, 0xfe00fe7f];

pub const ALPHAS: [f32; 6] = [0.0, 1.0 / 255.0, 0.25, 0.5, 0.999, 1.0];
pub const ALPHAS_Q: [f32; 4] = [0.0, 0.25, 0.5, 1.0];

pub fn unpremul(c: u32) -> u32 {
    let a = c >> 24;
    if a == 0 {
        return 0;
    }
    let f = |v: u32| (((v & 0xff) * 255 + a / 2) / a).min(255);
    (a << 24) | (f(c >> 16) << 16) | (f(c >> 8) << 8) | f(c)
}

#[derive(Default, Clone, Copy)]
pub struct SceneStats {
    pub steps: u64,
    pub checked: u64,
    pub undecided: u64,
    pub partial: u64,
    /// a violation of a kind this check does not own stopped the scene early
    pub foreign: bool,
    pub hash: u64,
}

/// Execute a scene step by step on a fresh target, checking every transition with the step
/// oracle. A violation for which `owns` is true is returned; any other violation stops the
/// scene (later states would be compared against a wrong "before") and is flagged as foreign.
pub fn run_scene<F: Fn(&StepViolation) -> bool>(prop: &str, scene: &Scene, owns: F, classify: &dyn Fn(&Scene, usize, &StepViolation) -> Option<&'static str>) -> Result<SceneStats, Violation> {
    let mut st = SceneStats::default();
    let mut dt = match guard(|| scene.target()) {
        Ok(d) => d,
        Err(p) => return Err(Violation::new("target/panic", scene.to_string(), format!("creating the target panicked: {}", p))),
    };
    let mut last = None;
    for (i, op) in scene.ops.iter().enumerate() {
        st.steps += 1;
        match exec_checked(&mut dt, op, None) {
            Ok((after, s)) => {
                st.checked += s.checked;
                st.undecided += s.undecided;
                st.partial += s.partial;
                last = Some(after);
            }
            Err(v) => {
                // the first violation in scan order, or else the first one of another category
                // of the same step that this check owns
                let v = if owns(&v) { v } else { take_others().into_iter().find(|o| owns(o)).unwrap_or(v) };
                if owns(&v) {
                    let fid = classify(scene, i, &v);
                    return Err(Violation::new(format!("{}/{}", prop_kind(&v.kind), v.clause), scene.to_string(), format!("step {} ({}): {}\n{}", i, op.kind(), v.clause, v.detail)).finding(fid));
                } else {
                    if std::env::var("VERIF_DEBUG_FOREIGN").is_ok() {
                        eprintln!("FOREIGN {} step {} {:?} {} :: {} :: {}", prop, i, v.kind, v.clause, v.detail.lines().next().unwrap_or(""), scene);
                    }
                    st.foreign = true;
                    // a violation that belongs to another property ends the scene only when it was a
                    // panic: what follows from it for this property is still to be seen
                    if v.kind == Kind::Panic {
                        return Ok(st);
                    }
                }
            }
        }
    }
    let _ = prop;
    if let Some(a) = last {
        st.hash = hash64(&(a.base, a.layers.len()));
    }
    Ok(st)
}

pub fn prop_kind(k: &Kind) -> &'static str {
    match k {
        Kind::OutsideChanged => "outside-changed",
        Kind::WrongValue => "wrong-value",
        Kind::WrongBuffer => "wrong-buffer",
        Kind::StateChanged => "state-changed",
        Kind::Panic => "panic",
        Kind::NotIdle => "rasterizer-not-idle",
    }
}

/// Subject panics inside sw-composite's non-separable blend modes (Hue, Saturation, Color,
/// Luminosity overflow in `lum()` with overflow checks on) are a dependency defect recorded
/// under C07; other checks treat those cases as "reference undefined".
pub fn is_nonsep_overflow(v: &StepViolation) -> bool {
    v.kind == Kind::Panic && is_dependency_panic(&v.detail)
}

/// a panic raised inside sw-composite (arithmetic overflow in `lum()`/`div255`, or its own
/// `debug_assert!(c <= a)` in pack_argb32 - both only reachable through the non-separable modes)
pub fn is_dependency_panic(msg: &str) -> bool {
    msg.contains("sw-composite")
}

pub fn account(l: &mut Local, st: &SceneStats) {
    l.transitions += st.steps;
    l.traces += 1;
    l.evals += 1;
    l.count("pixels_checked", st.checked);
    l.count("pixels_undecided", st.undecided);
    if st.foreign {
        l.count("scenes_stopped_by_foreign_violation", 1);
    }
    if st.partial > 0 {
        l.nontrivial += 1;
    }
    l.outcome(st.hash);
}

/// final surface of a scene executed without step checks (guarded)
pub fn render(scene: &Scene) -> Result<Vec<u32>, String> {
    guard(|| {
        let mut dt = scene.target();
        for op in &scene.ops {
            exec(&mut dt, op);
        }
        dt.get_data().to_vec()
    })
}

pub fn hexs(v: &[u32]) -> String {
    v.iter().map(|p| format!("{:08x}", p)).collect::<Vec<_>>().join(" ")
}

/// Differential oracle: two scenes that the property says are equivalent must leave
/// bit-identical surfaces. Case text: "<scene A> || <scene B>".
pub fn diff_scenes(sig: &str, a: &Scene, b: &Scene) -> Result<(u64, bool), Violation> {
    diff_scenes_tol(sig, a, b, 0)
}

/// largest per-channel difference of two pixels
pub fn chan_diff(p: u32, q: u32) -> u32 {
    (0..4).map(|k| (((p >> (8 * k)) & 0xff) as i32 - ((q >> (8 * k)) & 0xff) as i32).unsigned_abs()).max().unwrap_or(0)
}

/// as diff_scenes, but two pixels count as equal when no channel differs by more than `tol`
/// (tol = 17 is one of the sixteen coverage cells of a pixel: used where the property does not
/// promise bit-identical results, e.g. stroke under T vs fill of the transformed outline)
pub fn diff_scenes_tol(sig: &str, a: &Scene, b: &Scene, tol: u32) -> Result<(u64, bool), Violation> {
    let case = format!("{} || {}", a, b);
    let ra = render(a);
    let rb = render(b);
    match (ra, rb) {
        (Ok(pa), Ok(pb)) => {
            if pa.len() != pb.len() || (0..pa.len()).any(|i| chan_diff(pa[i], pb[i]) > tol) {
                let i = (0..pa.len().min(pb.len())).find(|&i| chan_diff(pa[i], pb[i]) > tol).unwrap_or(0);
                Err(Violation::new(format!("{}/pixels-differ", sig), case, format!("pixel index {} ({},{}): A {:#010x} vs B {:#010x}\nA: {}\nB: {}", i, i as i32 % a.w.max(1), i as i32 / a.w.max(1), pa.get(i).copied().unwrap_or(0), pb.get(i).copied().unwrap_or(0), hexs(&pa), hexs(&pb))))
            } else {
                let changed = pa != a.dst.pixels(a.w, a.h);
                Ok((hash64(&pa), changed))
            }
        }
        (Err(p), Ok(_)) | (Ok(_), Err(p)) => {
            Err(Violation::new(format!("{}/one-route-panicked", sig), case, format!("only one of the two routes panicked: {}", p)))
        }
        (Err(p1), Err(_)) => {
            if is_dependency_panic(&p1) {
                // both routes hit the dependency's non-separable overflow (recorded under C07)
                Ok((0, false))
            } else {
                Err(Violation::new(format!("{}/both-routes-panicked", sig), case, format!("both routes panicked: {}", p1)))
            }
        }
    }
}

pub fn parse_scene_pair(case: &str) -> Result<(Scene, Scene), String> {
    let mut it = case.split("||");
    let a = parse_scene(it.next().ok_or("missing scene A")?.trim())?;
    let b = parse_scene(it.next().ok_or("missing scene B")?.trim())?;
    Ok((a, b))
}

/// The device rectangle a draw at position `at` of `ops` can reach: the intersection of the clip
/// rectangles open at that point and of the bounds of the layers open at that point (a layer
/// keeps the clip bounds it was pushed under, also after that clip is popped), within the surface.
pub fn reach_rect(ops: &[Op], at: usize, w: i32, h: i32) -> [i32; 4] {
    let inter = |a: [i32; 4], b: [i32; 4]| [a[0].max(b[0]), a[1].max(b[1]), a[2].min(b[2]), a[3].min(b[3])];
    let mut clips: Vec<[i32; 4]> = Vec::new();
    let mut layers: Vec<[i32; 4]> = Vec::new();
    let surface = [0, 0, w, h];
    for op in &ops[..at] {
        match op {
            Op::PushClipRect(x0, y0, x1, y1) => {
                let cur = clips.last().copied().unwrap_or(surface);
                clips.push(inter(cur, [*x0, *y0, *x1, *y1]));
            }
            Op::PushClip(_) => {
                let cur = clips.last().copied().unwrap_or(surface);
                clips.push(cur);
            }
            Op::PopClip => {
                clips.pop();
            }
            Op::PushLayer(..) => {
                let cur = clips.last().copied().unwrap_or(surface);
                let lb = layers.last().copied().unwrap_or(surface);
                layers.push(inter(inter(cur, surface), lb));
            }
            Op::PopLayer => {
                layers.pop();
            }
            _ => {}
        }
    }
    let mut r = clips.last().copied().unwrap_or(surface);
    if let Some(l) = layers.last() {
        r = inter(r, *l);
    }
    inter(r, surface)
}
