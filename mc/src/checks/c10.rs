//! C10 A drawing call's effect is independent of earlier calls.
//!
//! Explicit-state exploration of call histories on one long-lived DrawTarget A. For every
//! transition s --op--> s' a fresh target B is built from the *visible* state of s (pixels,
//! re-established transform / clip stack / open layers), op is applied to both and all buffers
//! must be identical; the rasteriser must be idle after every call. Unmerged to a depth bound,
//! then breadth-first with states merged on a canonical key.

use crate::engine::*;
use crate::model::step::{snap, Snap};
use crate::scene::*;
use raqote::*;
use std::collections::HashSet;

pub struct C10;

const RED: u32 = 0xffff0000;
const GRN: u32 = 0xff00ff00;
const HALF: u32 = 0x80000080;

fn fill(ops: Vec<POp>, c: u32) -> Op {
    Op::Fill(PathSpec::new(ops), SrcSpec::Solid(c), Opts::default())
}

pub fn alphabet(w: i32, h: i32) -> Vec<Op> {
    let (wf, hf) = (w as f32, h as f32);
    let tri = |y0: f32, y1: f32| vec![POp::M(0.5, y0), POp::L(wf - 0.25, y0 + 0.25), POp::L(wf * 0.5, y1), POp::Z];
    vec![
        // fills of very different vertical extents
        fill(tri(0.0, 1.0), RED),
        fill(tri(hf - 1.0, hf), GRN),
        fill(tri(0.25, hf - 0.25), HALF),
        fill(tri(-3.0, 1.5), GRN),
        fill(tri(hf - 1.5, hf + 3.0), RED),
        // wholly off-surface on each side
        fill(tri(-5.0, -2.0), RED),
        fill(tri(hf + 2.0, hf + 5.0), RED),
        fill(vec![POp::M(-5., 0.5), POp::L(-2., 1.0), POp::L(-4., hf)], RED),
        fill(vec![POp::M(wf + 2., 0.5), POp::L(wf + 5., 1.0), POp::L(wf + 3., hf)], RED),
        // horizontal-only, empty, degenerate
        fill(vec![POp::M(0.5, 1.5), POp::L(wf - 0.5, 1.5)], RED),
        fill(vec![], RED),
        fill(vec![POp::M(wf, hf), POp::L(wf, hf), POp::Z], GRN),
        // path without a leading MoveTo, path ending without Close
        fill(vec![POp::L(0.25, 0.5), POp::L(wf - 0.5, 1.25), POp::L(1.0, hf - 0.5)], GRN),
        fill(vec![POp::M(0.5, 0.5), POp::L(wf - 1.0, 0.75), POp::L(wf - 0.5, hf - 0.25)], HALF),
        // paths that begin with Close (then continue without MoveTo)
        fill(vec![POp::Z, POp::L(0.75, 0.25), POp::L(wf - 0.25, 1.5), POp::L(1.5, hf - 0.25)], RED),
        fill(vec![POp::Z, POp::Q(wf, 0.5, wf - 1.0, hf - 0.5), POp::L(0.25, hf - 0.75)], HALF),
        // curves, one starting without MoveTo
        fill(vec![POp::M(0.25, 0.25), POp::Q(wf + 1.0, 0.5, wf * 0.5, hf - 0.25), POp::Z], RED),
        fill(vec![POp::Q(wf, 0.0, wf - 0.5, hf - 0.5), POp::L(0.5, hf - 1.0)], GRN),
        // clips
        Op::PushClip(PathSpec::new(tri(0.25, hf - 0.5))),
        Op::PushClip(PathSpec::new(tri(-6.0, -3.0))),
        Op::PushClip(PathSpec::new(vec![POp::L(1.0, 0.0), POp::L(wf, 1.0), POp::L(1.0, hf)])),
        Op::PushClip(PathSpec::new(vec![POp::Z, POp::L(0.5, 0.5), POp::L(wf, 1.5), POp::L(0.5, hf)])),
        Op::PushClipRect(1, 1, w, h - 1),
        // an inverted (empty) clip rectangle: everything pushed or drawn under it is a no-op
        Op::PushClipRect(w - 1, h - 1, 1, 1),
        Op::PopClip,
        // strokes
        // a fill that is invisible because of its options (global alpha 0), not because of its shape
        Op::Fill(PathSpec::new(tri(0.25, hf - 0.25)), SrcSpec::Solid(RED), Opts { mode: BlendMode::SrcOver, alpha: 0.0, aa: true }),
        // a draw without antialiasing that adds no edge (whatever mode it leaves behind shows in the
        // next clip push)
        Op::Fill(PathSpec::new(tri(-5.0, -2.0)), SrcSpec::Solid(RED), Opts { mode: BlendMode::SrcOver, alpha: 1.0, aa: false }),
        Op::Stroke(PathSpec::new(tri(0.5, hf - 0.5)), StyleSpec { width: 0.0, cap: 0, join: 0, miter: 4., dash: vec![], offset: 0. }, SrcSpec::Solid(RED), Opts::default()),
        Op::Stroke(PathSpec::new(vec![POp::L(0.5, 0.5), POp::L(wf - 0.5, hf - 0.5)]), StyleSpec { width: 1.0, cap: 1, join: 1, miter: 4., dash: vec![1.0, 0.5], offset: 0.25 }, SrcSpec::Solid(GRN), Opts::default()),
        // a curved stroke (its flattening depends on the scale of the transform in force) and a
        // transform of another scale: the same call twice in one history under different transforms
        Op::Stroke(PathSpec::new(vec![POp::M(0.5, 0.5), POp::Q(wf * 2.0, 0.0, wf - 0.5, hf - 0.5), POp::A(wf * 0.5, hf * 0.5, 1.5, 0.0, 5.0)]), StyleSpec { width: 0.75, cap: 1, join: 1, miter: 4., dash: vec![], offset: 0. }, SrcSpec::Solid(HALF), Opts::default()),
        Op::SetTransform([0.125, 0., 0., 0.125, 1.0, 0.5]),
        // transforms
        Op::SetTransform([0., 0., 0., 1., 0., 0.]),
        Op::SetTransform(IDENT),
        Op::SetTransform([1., 0., 0., 1., 0.5, 0.25]),
        // clear, fast-path fill_rect, layers
        Op::Clear(0xff0000ff),
        Op::FillRect(1., 0., 2., 2., SrcSpec::Solid(GRN), Opts::default()),
        Op::PushLayer(0.5, BlendMode::SrcOver),
        // a layer whose opacity rounds to zero (its pop composites nothing)
        Op::PushLayer(0.001, BlendMode::SrcOver),
        // a layer composited with Src (an untouched layer still erases what is under it) and a draw
        // that reaches the compositor without changing a pixel
        Op::PushLayer(1.0, BlendMode::Src),
        Op::FillRect(0., 0., wf, hf, SrcSpec::Solid(0), Opts::default()),
        Op::PopLayer,
        // a surface-to-surface copy (it does not go through the compositor)
        Op::Surface(SurfKind::Copy, 2, 2, [0, 0, 2, 2], [1, 1]),
        // sources positioned through the current transform (anything cached from it shows)
        Op::Fill(PathSpec::new(tri(0.25, hf - 0.25)), SrcSpec::Linear { stops: vec![Stop { pos: 0.0, color: 0xffff0000 }, Stop { pos: 1.0, color: 0xff0000ff }], spread: Spr::Pad, p: [0.5, 0.5, wf - 0.5, hf - 0.5] }, Opts::default()),
        Op::FillRect(0.5, 0.25, wf - 1.0, hf - 0.5, SrcSpec::Image { w: 2, h: 2, data: vec![0xffff0000, 0xff00ff00, 0xff0000ff, 0x80404040], repeat: true, bilinear: false, xf: IDENT }, Opts::default()),
    ]
}

/// bookkeeping derived from a history: which pushes are still open and under which transform
#[derive(Clone)]
enum Open {
    Clip(Op, Xf),
    Layer(usize, Xf),
}

struct Track {
    open: Vec<Open>,
    xf: Xf,
}

fn track(hist: &[Op]) -> Track {
    let mut t = Track { open: Vec::new(), xf: IDENT };
    for (i, op) in hist.iter().enumerate() {
        match op {
            Op::SetTransform(x) => t.xf = *x,
            Op::PushClip(_) | Op::PushClipRect(..) => t.open.push(Open::Clip(op.clone(), t.xf)),
            Op::PushLayer(..) => t.open.push(Open::Layer(i, t.xf)),
            Op::PopClip | Op::PopLayer => {
                t.open.pop();
            }
            _ => {}
        }
    }
    t
}

fn enabled(t: &Track, op: &Op, max_open: usize) -> bool {
    match op {
        Op::PopClip => matches!(t.open.last(), Some(Open::Clip(..))),
        Op::PopLayer => matches!(t.open.last(), Some(Open::Layer(..))),
        Op::PushClip(_) | Op::PushClipRect(..) | Op::PushLayer(..) => t.open.len() < max_open,
        _ => true,
    }
}

/// the pixels the long-lived target starts with: transparent, or the distinct pattern (every
/// history is then one that follows earlier drawing)
static BASE_DISTINCT: std::sync::atomic::AtomicBool = std::sync::atomic::AtomicBool::new(false);

/// the long-lived target is made by `from_backing` (the fresh one always by `from_vec`)
static BASE_BACKING: std::sync::atomic::AtomicBool = std::sync::atomic::AtomicBool::new(false);

fn base_dst() -> Dst {
    let inner = if BASE_DISTINCT.load(std::sync::atomic::Ordering::SeqCst) { Dst::Distinct } else { Dst::Zero };
    if BASE_BACKING.load(std::sync::atomic::Ordering::SeqCst) {
        Dst::Backing(Box::new(inner))
    } else {
        inner
    }
}

fn hist_str(w: i32, h: i32, hist: &[Op]) -> String {
    Scene { w, h, dst: base_dst(), ops: hist.to_vec() }.to_string()
}

fn state_key(s: &Snap, cursor: (Option<Point>, Option<Point>)) -> u64 {
    let c = |p: Option<Point>| p.map(|p| (p.x.to_bits(), p.y.to_bits()));
    let layers: Vec<_> = s.layers.iter().map(|l| (l.rect, l.px.clone(), l.opacity.to_bits(), l.blend as u8)).collect();
    let clips: Vec<_> = s.clips.iter().map(|c| (c.rect, c.mask.clone())).collect();
    let xf: Vec<u32> = s.xf.iter().map(|v| v.to_bits()).collect();
    hash64(&(&s.base, layers, clips, xf, s.idle, c(cursor.0), c(cursor.1)))
}

/// Execute `hist` on a fresh long-lived target, checking the last transition differentially.
/// Returns the key of the reached state.
fn check_last(w: i32, h: i32, hist: &[Op]) -> Result<u64, Violation> {
    let n = hist.len();
    let case = hist_str(w, h, hist);
    // short histories run on two fresh threads: the long-lived target's thread first works through
    // every call of the alphabet on another target (so that whatever the library keeps outside a
    // DrawTarget - statics, thread-locals - has been used), the fresh target's thread has never run
    // a call of the library. Both are functions of the history alone, so a violation replays.
    let fresh_thread = n <= 2 || (n == 3 && matches!(hist[n - 1], Op::PopLayer));
    let base = base_dst();
    let run_a = || {
        if fresh_thread {
            let mut s = DrawTarget::new(w, h);
            for op in alphabet(w, h) {
                if matches!(op, Op::PopClip | Op::PopLayer) {
                    continue;
                }
                exec(&mut s, &op);
                match op {
                    Op::PushClip(_) | Op::PushClipRect(..) => exec(&mut s, &Op::PopClip),
                    Op::PushLayer(..) => {
                        exec(&mut s, &Op::Clear(0xff00ff00));
                        exec(&mut s, &Op::PopLayer)
                    }
                    _ => {}
                }
            }
        }
        let mut a = Scene { w, h, dst: base.clone(), ops: vec![] }.target();
        for op in &hist[..n - 1] {
            exec(&mut a, op);
        }
        let before = snap(&a);
        exec(&mut a, &hist[n - 1]);
        let after = snap(&a);
        let cur = a.verif_path_cursor();
        (before, after, cur.0.map(|p| (p.x, p.y)), cur.1.map(|p| (p.x, p.y)))
    };
    let r = if fresh_thread { std::thread::scope(|sc| sc.spawn(|| guard(run_a)).join().unwrap_or_else(|_| Err("the thread died".to_string()))) } else { guard(run_a) };
    let r = r.map(|(b, a, c0, c1)| (b, a, (c0.map(|p| Point::new(p.0, p.1)), c1.map(|p| Point::new(p.0, p.1)))));
    let (before, after, cursor) = match r {
        Ok(v) => v,
        Err(p) => return Err(Violation::new(format!("{}/panic", hist[n - 1].kind()), case, format!("long-lived target panicked: {}", p))),
    };
    if !after.idle {
        return Err(Violation::new(format!("{}/rasterizer-not-idle", hist[n - 1].kind()), case, "after the call the rasteriser still holds edges or bounds".to_string()));
    }
    // fresh target B with the same visible state
    let t = track(&hist[..n - 1]);
    let build_b = || {
        let mut b = DrawTarget::from_vec(w, h, before.base.clone());
        let mut first_layer: Option<(usize, Xf)> = None;
        for o in &t.open {
            match o {
                Open::Clip(op, xf) => {
                    b.set_transform(&xf_to(xf));
                    exec(&mut b, op);
                }
                Open::Layer(i, xf) => {
                    first_layer = Some((*i, *xf));
                    break;
                }
            }
        }
        match first_layer {
            None => b.set_transform(&xf_to(&t.xf)),
            Some((i, xf)) => {
                b.set_transform(&xf_to(&xf));
                for op in &hist[i..n - 1] {
                    exec(&mut b, op);
                }
            }
        }
        let b_before = snap(&b);
        exec(&mut b, &hist[n - 1]);
        (b_before, snap(&b))
    };
    // short histories: the fresh target lives on a thread of its own that has never run a call of
    // the library (anything the library keeps outside the DrawTarget - statics, thread-locals - is
    // pristine there, while the long-lived target's thread has run thousands of calls before)
    let rb = if fresh_thread { std::thread::scope(|sc| sc.spawn(|| guard(build_b)).join().unwrap_or_else(|_| Err("the fresh thread died".to_string()))) } else { guard(build_b) };
    let (b_before, b_after) = match rb {
        Ok(v) => v,
        Err(p) => return Err(Violation::new(format!("{}/panic-on-fresh-target-only", hist[n - 1].kind()), case, format!("fresh target panicked: {}", p))),
    };
    if b_before != before {
        // the visible state could not be re-established: not a verdict about the last call
        // before the last call, the reused target's visible state (pixels, transform, clip stack,
        // layers) is not the state its history establishes on a fresh target: an earlier call
        // left a residue that the per-call comparison could not see (both sides made it)
        let what = if b_before.xf != before.xf { format!("transform is {:?}, the history establishes {:?}", before.xf, b_before.xf) } else if b_before.clips != before.clips { "clip stacks differ".to_string() } else if b_before.layers != before.layers { "layer buffers differ".to_string() } else { "buffers differ".to_string() };
        return Err(Violation::new("state/visible-state-is-not-what-the-history-establishes", case, format!("before the last call: {}", what)));
    }
    if b_after != after {
        let what = if b_after.base != after.base {
            let i = (0..after.base.len()).find(|&i| after.base[i] != b_after.base[i]).unwrap();
            format!("surface pixel ({},{}): reused target {:#010x}, fresh target {:#010x}", i as i32 % w, i as i32 / w, after.base[i], b_after.base[i])
        } else if b_after.layers != after.layers {
            "layer buffers differ".to_string()
        } else if b_after.clips != after.clips {
            "clip stacks differ".to_string()
        } else {
            "transform differs".to_string()
        };
        return Err(Violation::new(format!("{}/differs-from-fresh-target", hist[n - 1].kind()), case, format!("last call gives different results on the reused and on a fresh target holding the same visible state: {}\nreused: {}\nfresh:  {}", what, super::common::hexs(&after.base), super::common::hexs(&b_after.base))));
    }
    // a second fresh target, when a layer is open: the layers are not re-established by replaying
    // what was drawn into them but by pushing them and copying their pixels in (another route to the
    // same visible state: whatever a layer remembers beyond its pixels differs between the routes)
    if t.open.iter().any(|o| matches!(o, Open::Layer(..))) {
        let r2 = guard(|| {
            let mut b = DrawTarget::from_vec(w, h, before.base.clone());
            let (mut li, mut has_path) = (0, false);
            for o in &t.open {
                match o {
                    Open::Clip(op, xf) => {
                        b.set_transform(&xf_to(xf));
                        exec(&mut b, op);
                        has_path |= matches!(op, Op::PushClip(_));
                    }
                    Open::Layer(i, xf) => {
                        b.set_transform(&xf_to(xf));
                        exec(&mut b, &hist[*i]);
                        let lay = &before.layers[li];
                        li += 1;
                        if lay.px.iter().any(|p| *p != 0) {
                            if has_path {
                                // a clip path in force would weight the copy
                                return None;
                            }
                            let (x0, y0, lw, lh) = (lay.rect[0], lay.rect[1], lay.rect[2] - lay.rect[0], lay.rect[3] - lay.rect[1]);
                            b.set_transform(&Transform::identity());
                            let img = Image { width: lw, height: lh, data: &lay.px[..] };
                            b.fill_rect(x0 as f32, y0 as f32, lw as f32, lh as f32, &Source::Image(img, ExtendMode::Pad, FilterMode::Nearest, Transform::translation(-x0 as f32, -y0 as f32)), &DrawOptions { blend_mode: BlendMode::Src, alpha: 1.0, antialias: AntialiasMode::Gray });
                        }
                    }
                }
            }
            b.set_transform(&xf_to(&t.xf));
            if snap(&b) != before {
                return None;
            }
            exec(&mut b, &hist[n - 1]);
            Some(snap(&b))
        });
        if let Ok(Some(b2)) = r2 {
            if b2 != after {
                let what = if b2.base != after.base {
                    let i = (0..after.base.len()).find(|&i| after.base[i] != b2.base[i]).unwrap();
                    format!("surface pixel ({},{}): reused target {:#010x}, fresh target {:#010x}", i as i32 % w, i as i32 / w, after.base[i], b2.base[i])
                } else if b2.layers != after.layers {
                    "layer buffers differ".to_string()
                } else {
                    "clip stack or transform differ".to_string()
                };
                return Err(Violation::new(format!("{}/differs-from-fresh-target-with-copied-layers", hist[n - 1].kind()), case, format!("last call gives different results on the reused target and on a fresh target whose open layers were pushed and filled with the same pixels (same visible state): {}\nreused: {}\nfresh:  {}", what, super::common::hexs(&after.base), super::common::hexs(&b2.base))));
            }
        }
    }
    // the key also holds the transform the history established (the one a fresh target is given):
    // two histories that reach the same buffers but with a different expected transform must not be
    // merged, or a transform lost by an earlier call would be attributed to a history that never set it
    let expect_xf: Vec<u32> = track(hist).xf.iter().map(|v| v.to_bits()).collect();
    Ok(hash64(&(state_key(&after, cursor), expect_xf)))
}

/// "A DrawTarget can be reused indefinitely": repeating a call (a push together with its pop) on
/// one target must not make the heap grow. The allocator counts the live bytes of this thread.
/// Ok(growth in bytes) or the violation.
fn growth_case(w: i32, h: i32, xf: &Xf, op: &Op) -> Result<isize, Violation> {
    let case = format!("growth | {}", Scene { w, h, dst: Dst::Zero, ops: vec![Op::SetTransform(*xf), op.clone()] });
    let r = guard(|| {
        let mut dt = DrawTarget::new(w, h);
        dt.set_transform(&xf_to(xf));
        let once = |dt: &mut DrawTarget| {
            exec(dt, op);
            match op {
                Op::PushClip(_) | Op::PushClipRect(..) => exec(dt, &Op::PopClip),
                Op::PushLayer(..) => exec(dt, &Op::PopLayer),
                _ => {}
            }
        };
        for _ in 0..64 {
            once(&mut dt);
        }
        let a = crate::live_bytes();
        for _ in 0..256 {
            once(&mut dt);
        }
        let b = crate::live_bytes();
        drop(dt);
        b - a
    });
    match r {
        Ok(g) if g <= 4096 => Ok(g),
        Ok(g) => Err(Violation::new(format!("{}/reused-target-grows", op.kind()), case, format!("256 repetitions of the call on one target left {} more live heap bytes than before them (after 64 warm-up repetitions): something accumulates", g))),
        Err(p) => Err(Violation::new(format!("{}/panic", op.kind()), case, p)),
    }
}

/// "the same call twice": histories a, b, (what they left open is popped), [c], x [, draw] where x
/// repeats a or b (with the very same arguments) after an optional push or transform change c; a
/// call that remembers anything about its previous arguments beyond the visible state differs
/// from the fresh target here. Merging cannot reach these (after the pops the visible state is the
/// initial one again), so they are run unmerged.
fn same_call_twice(run: &Run, w: i32, h: i32) {
    let alpha = alphabet(w, h);
    let na = alpha.len();
    let between: Vec<Option<Op>> = std::iter::once(None).chain(alpha.iter().filter(|o| matches!(o, Op::PushClip(_) | Op::PushClipRect(..) | Op::PushLayer(..) | Op::SetTransform(_))).cloned().map(Some)).collect();
    let probe = Op::Fill(PathSpec::new(vec![POp::M(-1.0, -1.0), POp::L(w as f32 + 1.0, -0.5), POp::L(w as f32 + 1.0, h as f32 + 1.0), POp::L(-1.0, h as f32 + 0.5), POp::Z]), SrcSpec::Solid(HALF), Opts::default());
    run.bound("the same call twice", format!("histories a, b, closing pops, [one of {} pushes / transforms], a or b again [and a surface-covering fill after a push] over the {}-call alphabet, from the distinct pattern; the last two calls are compared with a fresh target", between.len() - 1, na));
    BASE_DISTINCT.store(true, std::sync::atomic::Ordering::SeqCst);
    run.par(na * na, |s, l| {
        let (a, b) = (&alpha[s / na], &alpha[s % na]);
        let t0 = track(&[]);
        if !enabled(&t0, a, 2) {
            return;
        }
        let mut hist = vec![a.clone()];
        if !enabled(&track(&hist), b, 2) {
            return;
        }
        hist.push(b.clone());
        // pop what is open, innermost first
        let mut open = track(&hist).open;
        while let Some(o) = open.pop() {
            hist.push(match o {
                Open::Clip(..) => Op::PopClip,
                Open::Layer(..) => Op::PopLayer,
            });
        }
        for c in &between {
            for x in [a, b] {
                if matches!(x, Op::PopClip | Op::PopLayer) {
                    continue;
                }
                let mut h2 = hist.clone();
                if let Some(c) = c {
                    h2.push(c.clone());
                }
                h2.push(x.clone());
                let mut checks = vec![h2.len()];
                if matches!(x, Op::PushClip(_) | Op::PushClipRect(..) | Op::PushLayer(..) | Op::SetTransform(_)) {
                    h2.push(probe.clone());
                    checks.push(h2.len());
                }
                for n in checks {
                    l.states += 1;
                    l.transitions += 1;
                    l.traces += 1;
                    l.evals += 1;
                    match check_last(w, h, &h2[..n]) {
                        Ok(k) => {
                            l.outcome(k);
                            l.nontrivial += 1;
                        }
                        Err(v) => {
                            run.report(700_000 + s, v);
                            break;
                        }
                    }
                }
            }
        }
    });
    BASE_DISTINCT.store(false, std::sync::atomic::Ordering::SeqCst);
}

fn no_growth(run: &Run, w: i32, h: i32) {
    let alpha = alphabet(w, h);
    run.bound("no growth under repetition", format!("each of the {} alphabet calls (pushes with their pop) x 3 transforms: 64 warm-up repetitions, then 256 more on the same target; live heap bytes of the thread must not grow by more than 4 KiB", alpha.len()));
    let xfs: [Xf; 3] = [IDENT, [1., 0., 0., 1., 0.5, 0.25], [1., 0., 0., 0., 0., 0.]];
    run.par(alpha.len() * xfs.len(), |s, l| {
        let op = &alpha[s / xfs.len()];
        if matches!(op, Op::PopClip | Op::PopLayer | Op::SetTransform(_)) {
            return;
        }
        l.states += 1;
        l.transitions += 320;
        l.traces += 1;
        l.evals += 1;
        match growth_case(w, h, &xfs[s % xfs.len()], op) {
            Ok(g) => {
                l.outcome(hash64(&(s, g.max(0) / 4096)));
                l.nontrivial += 1;
            }
            Err(v) => run.report(900_000 + s, v),
        }
    });
}

fn explore(run: &Run, w: i32, h: i32, distinct: bool, unmerged_depth: usize, merged_depth: usize) {
    BASE_DISTINCT.store(distinct, std::sync::atomic::Ordering::SeqCst);
    let alpha = alphabet(w, h);
    let na = alpha.len();
    run.bound(&format!("histories {}x{} from {}{}", w, h, if distinct { "the distinct pattern" } else { "a transparent surface" }, if BASE_BACKING.load(std::sync::atomic::Ordering::SeqCst) { " (from_backing target)" } else { "" }), format!("alphabet of {} calls; all well-nested histories (at most 2 open pushes) of length <= {} without merging, then breadth-first to length {} merging states on (pixels of every buffer, transform, the transform the history established, clip stack, layer stack, rasteriser-idle flag, hidden path cursor)", na, unmerged_depth, merged_depth));
    // unmerged DFS, sharded by the first two ops
    run.par(na * na, |s, l| {
        fn rec(run: &Run, s: usize, l: &mut Local, w: i32, h: i32, alpha: &[Op], hist: &mut Vec<Op>, depth: usize) {
            l.states += 1;
            l.transitions += 1;
            l.traces += 1;
            l.evals += 1;
            match check_last(w, h, hist) {
                Ok(k) => l.outcome(k),
                Err(v) => {
                    run.report(s, v);
                    return; // later transitions would start from an already wrong state
                }
            }
            if hist.iter().filter(|o| o.is_draw()).count() >= 2 {
                l.nontrivial += 1;
            }
            if hist.len() >= depth || run.expired() {
                return;
            }
            let t = track(hist);
            for op in alpha {
                if !enabled(&t, op, 2) {
                    continue;
                }
                hist.push(op.clone());
                rec(run, s, l, w, h, alpha, hist, depth);
                hist.pop();
            }
        }
        let (i0, i1) = (s / na, s % na);
        let t0 = track(&[]);
        if !enabled(&t0, &alpha[i0], 2) {
            return;
        }
        let mut hist = vec![alpha[i0].clone()];
        // the length-1 history itself (accounted once, by the shard with i1 == 0)
        let r0 = check_last(w, h, &hist);
        if i1 == 0 {
            l.states += 1;
            l.transitions += 1;
            l.traces += 1;
            l.evals += 1;
            match &r0 {
                Ok(k) => l.outcome(*k),
                Err(v) => run.report(s, v.clone()),
            }
        }
        if r0.is_err() {
            return;
        }
        if unmerged_depth < 2 {
            return;
        }
        let t1 = track(&hist);
        if !enabled(&t1, &alpha[i1], 2) {
            return;
        }
        hist.push(alpha[i1].clone());
        if s == 5 * na + 12 {
            run.sample(hist_str(w, h, &hist));
        }
        rec(run, s, l, w, h, &alpha, &mut hist, unmerged_depth);
    });

    // merged BFS from the states at depth `unmerged_depth`... start again from the root so that the
    // visited set is complete; levels <= unmerged_depth are cheap
    if merged_depth <= unmerged_depth {
        return;
    }
    let mut visited: HashSet<u64> = HashSet::new();
    let mut frontier: Vec<Vec<u8>> = vec![vec![]];
    let mut level = 0;
    while level < merged_depth && !frontier.is_empty() && !run.expired() && run.violations_so_far() == 0 {
        let results: std::sync::Mutex<Vec<(u64, Vec<u8>)>> = std::sync::Mutex::new(Vec::new());
        let fr = &frontier;
        run.par(fr.len(), |i, l| {
            let hist_idx = &fr[i];
            let hist: Vec<Op> = hist_idx.iter().map(|&k| alpha[k as usize].clone()).collect();
            let t = track(&hist);
            let mut out = Vec::new();
            for (k, op) in alpha.iter().enumerate() {
                if !enabled(&t, op, 2) {
                    continue;
                }
                let mut h2 = hist.clone();
                h2.push(op.clone());
                l.transitions += 1;
                // transitions at levels already covered by the unmerged pass are only needed for their keys
                match check_last(w, h, &h2) {
                    Ok(key) => {
                        let mut hi = hist_idx.clone();
                        hi.push(k as u8);
                        out.push((key, hi));
                    }
                    Err(v) => run.report(100_000 + i, v),
                }
            }
            l.count("merged_bfs_transitions", out.len() as u64);
            results.lock().unwrap().extend(out);
        });
        let mut res = results.into_inner().unwrap();
        // deterministic choice of the representative history per state: smallest index string
        res.sort();
        let mut next = Vec::new();
        for (key, hi) in res {
            if visited.insert(key) {
                next.push(hi);
            }
        }
        level += 1;
        run.seq(|l| {
            l.states += next.len() as u64;
            l.traces += next.len() as u64;
            l.count("merged_bfs_distinct_states", next.len() as u64);
        });
        run.bound(&format!("merged level {} ({}x{}{}{})", level, w, h, if distinct { ", distinct" } else { "" }, if BASE_BACKING.load(std::sync::atomic::Ordering::SeqCst) { ", from_backing" } else { "" }), format!("{} distinct states", next.len()));
        frontier = next;
    }
}

impl Check for C10 {
    fn id(&self) -> &'static str {
        "C10"
    }
    fn title(&self) -> &'static str {
        "A drawing call's effect is independent of earlier calls"
    }

    fn run(&self, run: &Run) {
        let q = run.tier.quick();
        run.rule("histories over a 44-call alphabet (fills of very different vertical extents, off-surface and degenerate paths, paths without MoveTo / without Close, curves, clip pushes of on/off-surface paths, clip rect, pops, zero-width and dashed strokes, singular / identity / fractional transforms, clear, fast-path fill_rect, a transparent fill_rect, layers (one composited with Src), a surface copy) are explored exhaustively; every transition is compared with the same call on a fresh target holding the same visible state (open layers re-established by replaying their draws, and a second time by pushing them and copying their pixels in; for histories of length <= 2, and pops of length 3, the fresh target lives on a fresh thread); non-trivial = history contains at least two drawing calls");
        run.assume("merging: two histories with equal (all buffers, transform, clip stack, layer stack, rasteriser idle flag, hidden path cursor) differ at most in the rasteriser's arena address and cur_y, both re-initialised before use; keys are 64-bit hashes");
        no_growth(run, 4, 4);
        same_call_twice(run, 4, 4);
        if q {
            explore(run, 4, 4, false, 3, 4);
            explore(run, 4, 4, true, 3, 3);
            // the long-lived target made by from_backing, the fresh one by from_vec: whatever a
            // constructor sets up beyond the visible state differs between the two
            BASE_BACKING.store(true, std::sync::atomic::Ordering::SeqCst);
            explore(run, 4, 4, true, 2, 3);
            BASE_BACKING.store(false, std::sync::atomic::Ordering::SeqCst);
        } else {
            BASE_BACKING.store(true, std::sync::atomic::Ordering::SeqCst);
            explore(run, 4, 4, true, 3, 4);
            BASE_BACKING.store(false, std::sync::atomic::Ordering::SeqCst);
            explore(run, 4, 4, false, 4, 6);
            explore(run, 4, 4, true, 4, 5);
            explore(run, 3, 6, false, 3, 5);
        }
        BASE_DISTINCT.store(false, std::sync::atomic::Ordering::SeqCst);
    }

    fn replay(&self, case: &str) -> Result<Option<Violation>, String> {
        if let Some(rest) = case.strip_prefix("growth | ") {
            let s = parse_scene(rest)?;
            return match (s.ops.first(), s.ops.get(1)) {
                (Some(Op::SetTransform(xf)), Some(op)) => Ok(growth_case(s.w, s.h, xf, op).err()),
                _ => Err("growth case needs set_transform + one call".into()),
            };
        }
        let s = parse_scene(case)?;
        if s.ops.is_empty() {
            return Ok(None);
        }
        let (inner, backing) = match &s.dst {
            Dst::Backing(d) => ((**d).clone(), true),
            d => (d.clone(), false),
        };
        BASE_DISTINCT.store(inner == Dst::Distinct, std::sync::atomic::Ordering::SeqCst);
        BASE_BACKING.store(backing, std::sync::atomic::Ordering::SeqCst);
        // report the first transition of the history that fails
        for n in 1..=s.ops.len() {
            if let Err(v) = check_last(s.w, s.h, &s.ops[..n]) {
                return Ok(Some(v));
            }
        }
        Ok(None)
    }
}
