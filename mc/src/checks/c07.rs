//! C07 No panic, abort or hang for any in-range input or call sequence.
//!
//! Deviation-bounded exploration: every public call has a nominal argument vector and, per
//! parameter, a boundary alphabet taken from the property text; all vectors with at most d
//! deviations from nominal are executed (d iterated 0,1,2[,3]); plus all call sequences up to
//! a length bound over an alphabet of nominal and single-deviation calls. Cases run in child
//! processes (panics are caught there; aborts, allocation failures and hangs are detected by
//! the parent's watchdog and attributed to the announced case).

use crate::engine::isolate::*;
use crate::engine::*;
use crate::scene::*;
use raqote::BlendMode;
use std::time::Duration;

pub struct C07;

const LIMIT: f32 = 4000.0;

// ------------------------------------------------------------------ alphabets

fn surfaces() -> Vec<(i32, i32)> {
    vec![(3, 2), (0, 0), (0, 3), (3, 0), (1, 1), (17, 3), (2, 9)]
}

fn transforms() -> Vec<Xf> {
    vec![
        IDENT,
        [1., 0., 0., 1., 0.5, 0.25],
        [1., 0., 0., 1., -3., 2.],
        [2., 0., 0., 2., 0., 0.],
        [2., 0., 0., 0.5, 0., 0.],
        [0., 1., -1., 0., 3., 0.],
        [0.8660254, 0.5, -0.5, 0.8660254, 0., 0.],
        [1., 0., 0.5, 1., 0., 0.],
        [-1., 0., 0., 1., 3., 0.],
        [0., 0., 0., 1., 0., 0.],
        [0., 0., 0., 0., 0., 0.],
        [1e-3, 0., 0., 1e-3, 1., 1.],
        [1000., 0., 0., 1000., 0., 0.],
        [1., 0., 0., 1., 3990., -3990.],
        [1e-30, 0., 0., 1e-30, 0., 0.],
        // one axis stretched enormously while the determinant stays moderate
        [1e8, 0., 0., 1., 0., 0.],
        [1., 0., 0., 1e8, 0., 0.],
        [3e7, 0., 0., 1e-3, 0., 0.],
        // a magnification of 1e10 (determinant 1e20)
        [1e10, 0., 0., 1e10, 0., 0.],
        // magnifications whose determinant overflows f32 (9e38; as a rotation x scale the two
        // products are +inf and -inf)
        [3e19, 0., 0., 3e19, 0., 0.],
        [2e19, 2e19, -2e19, 2e19, 2., 0.],
    ]
}

fn paths() -> Vec<PathSpec> {
    use POp::*;
    let p = |ops: Vec<POp>| PathSpec::new(ops);
    let far = 3999.75;
    let pi = std::f32::consts::PI;
    vec![
        p(vec![M(0.5, 0.25), L(2.75, 0.5), L(1., 1.75), Z]),
        p(vec![]),
        p(vec![M(1., 1.)]),
        p(vec![Z]),
        p(vec![M(0.5, 0.5), L(2.5, 1.5)]),
        p(vec![L(0.5, 0.5), L(2.5, 0.75), L(1., 1.75)]),
        p(vec![M(1., 1.), L(1., 1.)]),
        p(vec![M(1., 1.), L(1., 1.), L(1., 1.), Z]),
        p(vec![M(0., 1.), L(3., 1.)]),
        p(vec![M(1., 0.), L(1., 2.)]),
        PathSpec::rect(0., 0., 3., 2.),
        PathSpec::rect(-2., -2., 9., 9.),
        PathSpec::rect(-5., 0., 2., 2.),
        PathSpec::rect(4., 0., 2., 2.),
        PathSpec::rect(0., -5., 2., 2.),
        PathSpec::rect(0., 3., 2., 2.),
        PathSpec::rect(1., 1., 0., 0.),
        PathSpec::rect(2., 2., -1., -1.),
        p(vec![M(-far, -far), L(far, -far + 1.), L(1., far), Z]),
        p(vec![M(-LIMIT, 0.), L(LIMIT, 1.), L(0., LIMIT), Z]),
        p(vec![M(far, far), L(far, far), L(-far, far)]),
        p(vec![M(0., -far), L(1., far)]),
        p(vec![M(1e-30, 1e-30), L(2., 1e-30), L(1e-30, 1.5), Z]),
        p(vec![M(-0.0, -0.0), L(3., -0.0), L(-0.0, 2.), Z]),
        p(vec![M(3., 2.), L(3.5, 2.), L(3., 2.5), Z]),
        p(vec![M(0.25, 0.25), Q(3.5, 0., 1.5, 1.75), Z]),
        p(vec![M(0.25, 0.25), C(3.5, 0., -1., 2., 2.5, 1.75), Z]),
        p(vec![M(1., 1.), C(1., 1., 1., 1., 1., 1.), Q(1., 1., 1., 1.)]),
        p(vec![M(0., 0.), C(4., 2., -1., 2., 3., 0.)]),
        p(vec![M(0.5, 0.5), Q(0.5, 0.5, 2.5, 1.5), Q(2.5, 1.5, 2.5, 1.5)]),
        p(vec![Q(2., 0., 2.5, 1.5), L(0.5, 1.)]),
        p(vec![C(2., 0., 3., 3., 0.5, 1.5)]),
        p(vec![M(0.5, 0.5), L(2., 0.5), Z, Q(3., 2., 0.5, 1.75)]),
        p(vec![A(1.5, 1., 1., 0., pi)]),
        p(vec![M(0., 0.), A(1.5, 1., 0., 1., 2.)]),
        p(vec![A(1.5, 1., 0.75, -7., 100.)]),
        p(vec![A(1.5, 1., 1000., 3.1, 0.01)]),
        p(vec![A(1.5, 1., 1., 0., 0.), A(1.5, 1., 1., 1., -1e-3)]),
        p(vec![M(0., 0.), L(3., 0.), L(0., 2.), M(3., 2.), L(0., 2.), L(3., 0.), Z, M(1., 1.)]),
        p(vec![M(1.5, 0.), L(2.5, 2.), L(0., 0.75), L(3., 0.75), L(0.5, 2.), Z]),
        p(vec![M(0., -far), Q(far, 0., 0., far), Q(-far, 0., 0., -far)]),
        p(vec![M(0.5, 0.5), Q(1.5, 0.5000001, 2.5, 0.5)]),
        p(vec![M(0.5, 0.5), C(0.5, 1.5, 0.5, 1.5, 0.5, 0.5), Z]),
        // boundary values of the quad-chopping guards (valid_unit_divide / is_not_monotonic):
        // barely non-monotonic quads whose chop ratio rounds to exactly 1, underflows, or has a zero numerator
        p(vec![M(0.5, 1.0), Q(1.5, 0.0, 2.5, 1e-8)]),
        p(vec![M(0.5, -100.0), Q(1.5, 0.0, 2.5, -1e-6), Z]),
        p(vec![M(0.0, 1.0), Q(1.0, 0.0, 2.0, f32::MIN_POSITIVE), Z]),
        p(vec![M(0.0, 0.0), Q(1.0, -1e-30, 2.0, 1.0), Z]),
        p(vec![M(0.0, 1.0), Q(1.0, 1.0, 2.0, 0.0), L(0.0, 0.0)]),
        p(vec![M(0.0, 1000.0), Q(1.0, 0.5, 3.0, 0.50001), L(0.0, 0.0)]),
        // edges ending exactly on the top edge of the surface / starting exactly on its bottom edge
        PathSpec::rect(0., -2., 3., 2.),
        PathSpec::rect(0., 2., 3., 2.),
        PathSpec::rect(0., -0.25, 3., 0.5),
        PathSpec::rect(-0.25, 1.75, 3.5, 0.5),
        // many overlapping contours: winding numbers and edge counts beyond 8-bit ranges
        p((0..130).flat_map(|_| vec![M(0.25, 0.25), L(2.75, 0.25), L(2.75, 1.75), L(0.25, 1.75), Z]).collect()),
        p(std::iter::once(M(0.5, 1.0)).chain((0..260).map(|i| if i % 2 == 0 { L(2.5, 1.0 + (i as f32) * 1e-3) } else { L(0.5, 1.0 + (i as f32) * 1e-3) })).collect()),
        p(vec![A(0., 0., 300., 0., 2.0 * pi)]),
        // hairpins: near-reversals whose uncut miter would lie far outside the working range
        p(vec![M(10., 10.), L(265., 10.), L(10., 11.)]),
        p(vec![M(0., 0.), L(2000., 0.), L(0., 0.1), Z]),
        // segments of subnormal length (1/len overflows), with both components non-zero
        p(vec![M(0., 0.), L(1e-40, 1e-40)]),
        p(vec![M(0., 0.), L(1e-40, 1e-40), L(2.5, 1.0)]),
        p(vec![M(1., 1.), L(1.0 + 1e-7, 1.0), L(1e-41, 2e-41), Z]),
        // curves in user units of 1e-8 along one axis (for the one-axis stretches of transforms())
        p(vec![M(0., 0.), Q(1e-8, 1.0, 2e-8, 0.5), L(1e-8, 1.5)]),
        p(vec![M(0., 0.), C(1.0, 1e-8, 2.0, 0.0, 0.5, 2e-8), Z]),
        p(vec![M(0., 0.), Q(3e-8, 900., 6e-8, 100.)]),
        // a curve in user units of 1e-10 (for the 1e10 magnification)
        p(vec![M(0., 0.), Q(1e-10, 2e-10, 3e-10, 0.5e-10), C(2e-10, 1e-10, 1e-10, 2e-10, 0., 1e-10)]),
        // and in units of 1e-19 (for the 3e19 magnifications)
        p(vec![M(3e-19, 2e-19), Q(1e-18, 3e-19, 3e-19, 6e-19), C(2e-19, 1e-19, 1e-19, 2e-19, 0., 1e-19)]),
    ]
}

fn stops2() -> Vec<Stop> {
    vec![Stop { pos: 0.0, color: 0xffff0000 }, Stop { pos: 1.0, color: 0x800000ff }]
}

fn sources() -> Vec<SrcSpec> {
    let img32: Vec<u32> = vec![0xff102030, 0x80402000, 0x00000000, 0xffffffff, 0x01010101, 0xfe7f00fe];
    let g = |s: Vec<Stop>| s;
    vec![
        SrcSpec::Solid(0xffffffff),
        SrcSpec::Solid(0x00000000),
        SrcSpec::Solid(0x80402010),
        SrcSpec::Image { w: 1, h: 1, data: vec![0xff204080], repeat: false, bilinear: true, xf: IDENT },
        SrcSpec::Image { w: 3, h: 2, data: img32.clone(), repeat: false, bilinear: false, xf: IDENT },
        SrcSpec::Image { w: 3, h: 2, data: img32.clone(), repeat: true, bilinear: true, xf: [0.5, 0.25, -0.25, 0.5, 0.3, 0.7] },
        SrcSpec::Image { w: 3, h: 2, data: img32.clone(), repeat: true, bilinear: false, xf: [1., 0., 0., 1., -7., 5.] },
        SrcSpec::Image { w: 3, h: 2, data: img32.clone(), repeat: false, bilinear: true, xf: [0., 0., 0., 0., 0., 0.] },
        SrcSpec::Image { w: 3, h: 2, data: img32.clone(), repeat: true, bilinear: true, xf: [1000., 0., 0., 1000., 3000., -3000.] },
        SrcSpec::Image { w: 2, h: 3, data: img32.clone(), repeat: true, bilinear: false, xf: [-1., 0., 0., -1., 0.5, 0.5] },
        SrcSpec::Linear { stops: stops2(), spread: Spr::Pad, p: [0., 0., 3., 2.] },
        SrcSpec::Linear { stops: stops2(), spread: Spr::Repeat, p: [1., 1., 1., 1.] },
        SrcSpec::Linear { stops: g(vec![Stop { pos: 0.5, color: 0xff00ff00 }]), spread: Spr::Reflect, p: [0., 0., 0.5, 0.] },
        SrcSpec::Linear { stops: g(vec![Stop { pos: 0.5, color: 0xff00ff00 }, Stop { pos: 0.5, color: 0xffff0000 }, Stop { pos: 0.5, color: 0xff0000ff }]), spread: Spr::Pad, p: [0., 0., 3., 0.] },
        SrcSpec::Linear { stops: g(vec![Stop { pos: -1.0, color: 0xff00ff00 }, Stop { pos: 2.0, color: 0x40ff0000 }]), spread: Spr::Repeat, p: [0., 2., 3., 0.] },
        SrcSpec::Linear { stops: g(vec![Stop { pos: 0.0, color: 0xff00ff00 }, Stop { pos: 1e-7, color: 0x40ff0000 }, Stop { pos: 0.9999999, color: 0xffffffff }, Stop { pos: 1.0, color: 0 }]), spread: Spr::Reflect, p: [-3000., 0., 3000., 1.] },
        SrcSpec::Radial { stops: stops2(), spread: Spr::Pad, p: [1.5, 1., 1.] },
        SrcSpec::Radial { stops: stops2(), spread: Spr::Repeat, p: [1.5, 1., f32::MIN_POSITIVE] },
        SrcSpec::Radial { stops: stops2(), spread: Spr::Reflect, p: [1.5, 1., 1e-3] },
        SrcSpec::Radial { stops: stops2(), spread: Spr::Pad, p: [-3000., 3000., 1e4] },
        SrcSpec::TwoCircle { stops: stops2(), spread: Spr::Pad, p: [1.5, 1., 0.5, 1.5, 1., 2.] },
        SrcSpec::TwoCircle { stops: stops2(), spread: Spr::Repeat, p: [0., 0., 1., 3., 2., 1.] },
        SrcSpec::TwoCircle { stops: stops2(), spread: Spr::Reflect, p: [1.5, 1., 1., 1.5, 1., 1.] },
        SrcSpec::TwoCircle { stops: stops2(), spread: Spr::Pad, p: [1.5, 1., 2., 1.75, 1., 0.5] },
        SrcSpec::Sweep { stops: stops2(), spread: Spr::Pad, p: [1.5, 1., 0., 360.] },
        SrcSpec::Sweep { stops: stops2(), spread: Spr::Repeat, p: [1.5, 1., 90., 90.] },
        SrcSpec::Sweep { stops: stops2(), spread: Spr::Reflect, p: [1.5, 1., 270., -90.] },
        SrcSpec::LinearRaw { stops: stops2(), spread: Spr::Pad, xf: [0., 0., 0., 0., 0., 0.] },
        SrcSpec::RadialRaw { stops: stops2(), spread: Spr::Pad, xf: [1e4, 0., 0., 1e4, 0., 0.] },
    ]
}

fn alphas() -> Vec<f32> {
    vec![1.0, f32::NAN, f32::NEG_INFINITY, -1.0, 0.0, 0.5, 1.0 + 1e-6, 2.0, 256.0, f32::INFINITY]
}

/// clip / layer contexts as (prefix, suffix)
fn contexts() -> Vec<(Vec<Op>, Vec<Op>)> {
    let big = 1 << 20;
    let tri = PathSpec::poly(&[(0.25, 0.0), (3.0, 0.5), (0.5, 2.0)]);
    let mut v: Vec<(Vec<Op>, Vec<Op>)> = vec![(vec![], vec![])];
    for r in [(1, 0, 3, 2), (0, 0, 0, 0), (2, 2, 1, 0), (-5, -5, -2, -2), (-3, -3, 9, 9), (-big, -big, big, big), (big, big, -big, -big)] {
        v.push((vec![Op::PushClipRect(r.0, r.1, r.2, r.3)], vec![Op::PopClip]));
    }
    v.push((vec![Op::PushClipRect(0, 0, 1, 2), Op::PushClipRect(2, 0, 3, 2)], vec![Op::PopClip, Op::PopClip]));
    v.push((vec![Op::PushClip(tri.clone())], vec![Op::PopClip]));
    v.push((vec![Op::PushClip(PathSpec::rect(-9., -9., 2., 2.))], vec![Op::PopClip]));
    v.push((vec![Op::PushClip(PathSpec::new(vec![]))], vec![Op::PopClip]));
    v.push((vec![Op::PushClip(tri.clone()), Op::PushClipRect(1, 0, 3, 2)], vec![Op::PopClip, Op::PopClip]));
    for o in [1.0f32, 0.5, 0.0, f32::NAN, -1.0, 2.0, f32::INFINITY, f32::NEG_INFINITY] {
        v.push((vec![Op::PushLayer(o, BlendMode::SrcOver)], vec![Op::PopLayer]));
    }
    v.push((vec![Op::PushLayer(0.5, BlendMode::Multiply)], vec![Op::PopLayer]));
    v.push((vec![Op::PushClipRect(0, 0, 1, 2), Op::PushClipRect(2, 0, 3, 2), Op::PushLayer(0.5, BlendMode::SrcOver)], vec![Op::PopLayer, Op::PopClip, Op::PopClip]));
    v.push((vec![Op::PushClipRect(-3, -3, 9, 9), Op::PushLayer(1.0, BlendMode::Src), Op::PushClip(tri.clone()), Op::PushLayer(0.25, BlendMode::Xor)], vec![Op::PopLayer, Op::PopClip, Op::PopLayer, Op::PopClip]));
    v.push((vec![Op::PushClipRect(2, 2, 1, 0), Op::PushLayer(1.0, BlendMode::SrcOver)], vec![Op::PopLayer, Op::PopClip]));
    v.push((vec![Op::PushClipRect(-big, -big, big, big), Op::PushLayer(0.5, BlendMode::SrcOver)], vec![Op::PopLayer, Op::PopClip]));
    v.push((vec![Op::PushClip(tri), Op::PushLayer(1.0, BlendMode::SrcOver)], vec![Op::PopLayer, Op::PopClip]));
    // a clip path that starts above the surface and ends below it (with the degenerate surfaces: a
    // path straddling rows that do not exist)
    v.push((vec![Op::PushClip(PathSpec::poly(&[(1., -3.), (6., 4.), (-2., 5.)]))], vec![Op::PopClip]));
    // a pop without a push is harmless for clips
    v.push((vec![Op::PopClip], vec![]));
    v
}

fn widths() -> Vec<f32> {
    vec![1.0, f32::NAN, f32::NEG_INFINITY, -1.0, -f32::MIN_POSITIVE, 0.0, f32::MIN_POSITIVE, 1e-3, 100.0, 128.0, 650.0]
}

fn dashes() -> Vec<Vec<f32>> {
    vec![
        vec![],
        vec![0.],
        vec![0., 0.],
        vec![1.],
        vec![1., 1.],
        vec![0., 1.],
        vec![1., 0.],
        vec![-1.],
        vec![5., -10.],
        vec![f32::NAN],
        vec![1., f32::NAN],
        vec![f32::MAX, f32::MAX],
        vec![f32::INFINITY],
        vec![0.05, 0.05],
        vec![0.5, 0.25, 0.125],
        // odd-length arrays whose sum is finite but whose doubled period overflows
        vec![f32::MAX],
        vec![3e38],
        vec![1e38, 1e38, 1e38],
        vec![1e38, 1e38, 1e38, 1e38],
        // entries whose sum rounds differently forwards and backwards
        vec![0.1, 0.2, 4.0, 1.3],
        vec![0.016, 0.056, 0.142],
        vec![0.7, 0.1, 0.1, 0.1, 0.1, 0.3],
    ]
}

/// stands for "minus the float just below the period of the dash array in use" (the period as the
/// f32 sum, doubled for an odd number of entries)
const OFFSET_JUST_INSIDE_MINUS_PERIOD: f32 = -77777.25;
const OFFSET_MINUS_PERIOD: f32 = -77777.5;

fn resolve_offset(off: f32, dash: &[f32]) -> f32 {
    if off != OFFSET_JUST_INSIDE_MINUS_PERIOD && off != OFFSET_MINUS_PERIOD {
        return off;
    }
    let mut total: f32 = dash.iter().sum();
    if dash.len() % 2 == 1 {
        total *= 2.0;
    }
    if !(total > 0.0) || !total.is_finite() {
        return -0.5;
    }
    if off == OFFSET_MINUS_PERIOD {
        -total
    } else {
        -f32::from_bits(total.to_bits() - 1)
    }
}

fn offsets() -> Vec<f32> {
    vec![0.0, 0.5, -0.5, 1e9, -1e9, f32::MAX, f32::INFINITY, f32::NEG_INFINITY, f32::NAN, OFFSET_JUST_INSIDE_MINUS_PERIOD, OFFSET_MINUS_PERIOD, -0.0]
}

fn miters() -> Vec<f32> {
    vec![10.0, 0.0, 1.0, 1e3]
}

fn coords(w: f32) -> Vec<f32> {
    vec![0.0, -0.0, 0.25, -0.25, 1.0, -1.0, w, w + 0.5, 3999.75, -3999.75, LIMIT, -LIMIT, 1e-30]
}

// ------------------------------------------------------------------ domain

fn path_points(p: &PathSpec) -> Vec<(f32, f32)> {
    let mut v = Vec::new();
    for o in &p.ops {
        match *o {
            POp::M(x, y) | POp::L(x, y) => v.push((x, y)),
            POp::Q(a, b, c, d) => {
                v.push((a, b));
                v.push((c, d));
            }
            POp::C(a, b, c, d, e, f) => {
                v.push((a, b));
                v.push((c, d));
                v.push((e, f));
            }
            POp::A(x, y, r, _, _) => {
                v.push((x - r, y - r));
                v.push((x + r, y + r));
            }
            POp::Z => {}
        }
    }
    v
}

/// device-space extent of a path under a transform, grown by `outset` user units
fn within_limit(p: &PathSpec, xf: &Xf, outset: f32) -> bool {
    let t = xf_to(xf);
    let scale = (xf[0].abs() + xf[2].abs()).max(xf[1].abs() + xf[3].abs());
    for (x, y) in path_points(p) {
        let q = t.transform_point(raqote::Point::new(x, y));
        let o = outset * scale;
        if !(q.x.abs() + o <= LIMIT && q.y.abs() + o <= LIMIT) {
            return false;
        }
    }
    true
}

fn path_length_bound(p: &PathSpec) -> f32 {
    // sum of control polygon lengths (upper bound of the arc length)
    let pts = path_points(p);
    let mut l = 0.0;
    for w in pts.windows(2) {
        l += ((w[1].0 - w[0].0).powi(2) + (w[1].1 - w[0].1).powi(2)).sqrt();
    }
    for o in &p.ops {
        if let POp::A(_, _, r, _, sw) = *o {
            l += r * sw.abs().min(7.0);
        }
    }
    l * 2.0 + 1.0
}

fn stroke_in_domain(p: &PathSpec, st: &StyleSpec, xf: &Xf) -> bool {
    let w = if st.width.is_finite() { st.width.max(0.0) } else { 0.0 };
    let outset = 0.5 * w * st.miter.max(std::f32::consts::SQRT_2);
    if !within_limit(p, xf, outset) {
        return false;
    }
    // fewer than 10^5 dashes (only when the array is accepted: all non-negative, positive finite sum)
    if !st.dash.is_empty() && st.dash.iter().all(|d| *d >= 0.0) {
        let mut total: f32 = st.dash.iter().sum();
        if st.dash.len() % 2 == 1 {
            total *= 2.0;
        }
        if total > 0.0 && total.is_finite() {
            let per_period = st.dash.len().max(2) as f32;
            let n = path_length_bound(p) / total * per_period * (p.ops.len() as f32 + 1.0);
            if !(n < 5e4) {
                return false;
            }
        }
    }
    true
}

/// dash arrays are "either all non-negative or rejected as a whole": arrays with a negative
/// entry whose sum is still positive are caller errors outside the domain
fn dash_in_domain(d: &[f32]) -> bool {
    let mut total: f32 = d.iter().sum();
    if d.len() % 2 == 1 {
        total *= 2.0;
    }
    if total > 0.0 && d.iter().any(|x| *x < 0.0) {
        return false;
    }
    true
}

// ------------------------------------------------------------------ deviation-bounded spaces

/// all choice vectors over `dims` with at most `d` non-zero entries
fn choice_vectors(dims: &[usize], d: usize) -> Vec<Vec<usize>> {
    let mut out = Vec::new();
    fn rec(dims: &[usize], d: usize, pos: usize, cur: &mut Vec<usize>, used: usize, out: &mut Vec<Vec<usize>>) {
        if pos == dims.len() {
            out.push(cur.clone());
            return;
        }
        cur.push(0);
        rec(dims, d, pos + 1, cur, used, out);
        cur.pop();
        if used < d {
            for k in 1..dims[pos] {
                cur.push(k);
                rec(dims, d, pos + 1, cur, used + 1, out);
                cur.pop();
            }
        }
    }
    rec(dims, d, 0, &mut Vec::new(), 0, &mut out);
    out
}

fn wrap(surface: (i32, i32), xf: &Xf, ctx: &(Vec<Op>, Vec<Op>), call: Op) -> Scene {
    let mut ops = ctx.0.clone();
    if *xf != IDENT {
        ops.push(Op::SetTransform(*xf));
    }
    ops.push(call);
    ops.extend(ctx.1.iter().cloned());
    Scene { w: surface.0, h: surface.1, dst: Dst::Distinct, ops }
}

pub const GROUPS: [&str; 9] = ["fill", "stroke", "fill_rect", "mask", "draw_image", "surface", "query", "clear", "sequences"];

/// collects the cases with index in [lo, hi) while counting all of them
pub struct Sink {
    lo: usize,
    hi: usize,
    pub n: usize,
    pub out: Vec<Scene>,
}

impl Sink {
    fn new(lo: usize, hi: usize) -> Sink {
        Sink { lo, hi, n: 0, out: Vec::new() }
    }
    /// is the next case wanted? (callers skip building the scene otherwise, but must call `skip`)
    fn wants(&self) -> bool {
        self.n >= self.lo && self.n < self.hi
    }
    fn push(&mut self, s: Scene) {
        if self.wants() {
            self.out.push(s);
        }
        self.n += 1;
    }
    fn push_lazy<F: FnOnce() -> Scene>(&mut self, f: F) {
        if self.wants() {
            self.out.push(f());
        }
        self.n += 1;
    }
    #[allow(dead_code)]
    fn skip(&mut self) {
        self.n += 1;
    }
}

/// the scenes with index in [lo, hi) of one group for a deviation bound d (sequences: length
/// bound), and the total number of in-domain cases of the group
pub fn gen_group(group: &str, d: usize, lo: usize, hi: usize) -> (Vec<Scene>, usize) {
    let mut sink = Sink::new(lo, hi);
    gen_group_into(group, d, &mut sink);
    (sink.out, sink.n)
}

fn gen_group_into(group: &str, d: usize, out: &mut Sink) {
    let sf = surfaces();
    let xfs = transforms();
    let ps = paths();
    let srcs = sources();
    let als = alphas();
    let ctxs = contexts();
    match group {
        "fill" => {
            // params: surface, transform, path, winding, source, mode, alpha, aa, context
            let dims = [sf.len(), xfs.len(), ps.len(), 2, srcs.len(), 28, als.len(), 2, ctxs.len()];
            for c in choice_vectors(&dims, d) {
                let mut p = ps[c[2]].clone();
                p.evenodd = c[3] == 1;
                if !within_limit(&p, &xfs[c[1]], 0.0) {
                    continue;
                }
                let mode = if c[5] == 0 { BlendMode::SrcOver } else { MODES.iter().copied().filter(|m| *m != BlendMode::SrcOver).nth(c[5] - 1).unwrap() };
                let call = Op::Fill(p, srcs[c[4]].clone(), Opts { mode, alpha: als[c[6]], aa: c[7] == 0 });
                out.push_lazy(|| wrap(sf[c[0]], &xfs[c[1]], &ctxs[c[8]], call));
            }
        }
        "stroke" => {
            let (ws, ds, os, ms) = (widths(), dashes(), offsets(), miters());
            // params: surface, transform, path, width, cap, join, miter, dash, offset, source, alpha, context
            let dims = [sf.len(), xfs.len(), ps.len(), ws.len(), 3, 3, ms.len(), ds.len(), os.len(), 4, als.len(), ctxs.len()];
            for c in choice_vectors(&dims, d) {
                let p = ps[c[2]].clone();
                // a dash offset only matters with a dash array: nominal dash for offset deviations
                let dash = if c[7] == 0 && c[8] != 0 { vec![1.0, 0.5] } else { ds[c[7]].clone() };
                if !dash_in_domain(&dash) {
                    continue;
                }
                // the huge miter limit is paired with a small width (outset budget)
                let width = if c[6] == 3 && c[3] == 0 { 1e-3 } else { ws[c[3]] };
                let offset = resolve_offset(os[c[8]], &dash);
                let st = StyleSpec { width, cap: c[4] as u8, join: c[5] as u8, miter: ms[c[6]], dash, offset };
                if !stroke_in_domain(&p, &st, &xfs[c[1]]) {
                    continue;
                }
                let src = [0usize, 2, 5, 10][c[9]];
                let call = Op::Stroke(p, st, srcs[src].clone(), Opts { mode: BlendMode::SrcOver, alpha: als[c[10]], aa: true });
                out.push_lazy(|| wrap(sf[c[0]], &xfs[c[1]], &ctxs[c[11]], call));
            }
        }
        "fill_rect" => {
            let cs = coords(3.0);
            let sizes: Vec<f32> = vec![2.0, 0.0, -0.0, -1.0, 0.5, 1e-30, 3999.75, -3999.75, 7999.5];
            // params: surface, transform, x, y, w, h, source, mode, alpha, context
            let dims = [sf.len(), xfs.len(), cs.len(), cs.len(), sizes.len(), sizes.len(), srcs.len(), 28, als.len(), ctxs.len()];
            for c in choice_vectors(&dims, d) {
                let (x, y, w, h) = (if c[2] == 0 { 0.5 } else { cs[c[2]] }, if c[3] == 0 { 0.25 } else { cs[c[3]] }, sizes[c[4]], sizes[c[5]]);
                if !within_limit(&PathSpec::rect(x, y, w, h), &xfs[c[1]], 0.0) {
                    continue;
                }
                let mode = if c[7] == 0 { BlendMode::SrcOver } else { MODES.iter().copied().filter(|m| *m != BlendMode::SrcOver).nth(c[7] - 1).unwrap() };
                let call = Op::FillRect(x, y, w, h, srcs[c[6]].clone(), Opts { mode, alpha: als[c[8]], aa: true });
                out.push_lazy(|| wrap(sf[c[0]], &xfs[c[1]], &ctxs[c[9]], call));
            }
        }
        "mask" => {
            let big = 1 << 20;
            let pos: Vec<i32> = vec![0, 1, -1, 2, 3, -3, 17, big, -big];
            let sizes: Vec<(i32, i32)> = vec![(2, 2), (1, 1), (3, 2), (1, 5), (40, 1)];
            let dims = [sf.len(), xfs.len(), pos.len(), pos.len(), sizes.len(), srcs.len(), ctxs.len()];
            for c in choice_vectors(&dims, d) {
                let (mw, mh) = sizes[c[4]];
                let data: Vec<u8> = (0..mw * mh).map(|i| [255u8, 0, 128, 1][(i % 4) as usize]).collect();
                let call = Op::Mask(pos[c[2]], pos[c[3]], mw, mh, data, srcs[c[5]].clone());
                out.push_lazy(|| wrap(sf[c[0]], &xfs[c[1]], &ctxs[c[6]], call));
            }
        }
        "draw_image" => {
            let cs = coords(3.0);
            let img32: Vec<u32> = vec![0xff102030, 0x80402000, 0x00000000, 0xffffffff, 0x01010101, 0xfe7f00fe];
            let imgs: Vec<(i32, i32)> = vec![(3, 2), (1, 1), (2, 3), (6, 1)];
            let sizes: Vec<f32> = vec![f32::NAN, 0.0, -1.0, 0.5, 1e-3, 3999.0, 6.0];
            // params: surface, transform, x, y, image, size-w (0 = draw_image_at), size-h, mode, alpha, context
            let dims = [sf.len(), xfs.len(), cs.len(), cs.len(), imgs.len(), sizes.len(), sizes.len(), 28, als.len(), ctxs.len()];
            for c in choice_vectors(&dims, d) {
                let (iw, ih) = imgs[c[4]];
                let (x, y) = (if c[2] == 0 { 1.0 } else { cs[c[2]] }, if c[3] == 0 { 0.0 } else { cs[c[3]] });
                let mode = if c[7] == 0 { BlendMode::SrcOver } else { MODES.iter().copied().filter(|m| *m != BlendMode::SrcOver).nth(c[7] - 1).unwrap() };
                let o = Opts { mode, alpha: als[c[8]], aa: true };
                let data: Vec<u32> = img32.iter().cycle().take((iw * ih) as usize).copied().collect();
                let call = if c[5] == 0 && c[6] == 0 {
                    if !within_limit(&PathSpec::rect(x, y, iw as f32, ih as f32), &xfs[c[1]], 0.0) {
                        continue;
                    }
                    Op::DrawImageAt(x, y, iw, ih, data, o)
                } else {
                    let sw = if c[5] == 0 { iw as f32 } else { sizes[c[5]] };
                    let sh = if c[6] == 0 { ih as f32 } else { sizes[c[6]] };
                    if sw.is_nan() || sh.is_nan() {
                        continue;
                    }
                    if !within_limit(&PathSpec::rect(x, y, sw, sh), &xfs[c[1]], 0.0) {
                        continue;
                    }
                    Op::DrawImageSize(sw, sh, x, y, iw, ih, data, o)
                };
                out.push_lazy(|| wrap(sf[c[0]], &xfs[c[1]], &ctxs[c[9]], call));
            }
        }
        "surface" => {
            let big = 1 << 20;
            let rects: Vec<[i32; 4]> = vec![[0, 0, 2, 2], [0, 0, 3, 2], [-1, -1, 2, 1], [2, 1, 5, 4], [4, 4, 6, 6], [1, 1, 1, 1], [2, 2, 0, 0], [-big, -big, big, big], [big, 0, big + 2, 2], [0, 0, 0, 0], [-5, -5, -1, -1], [0, 0, i32::MAX, i32::MAX], [i32::MIN, i32::MIN, i32::MAX, i32::MAX], [i32::MAX - 1, 0, i32::MAX, 2], [i32::MIN, 0, i32::MIN + 2, 2], [1, 1, i32::MIN, i32::MIN]];
            let pts: Vec<[i32; 2]> = vec![[0, 0], [1, 1], [-1, -1], [-2, 1], [2, 1], [3, 2], [5, 5], [big, big], [-big, -big], [0, -big], [i32::MAX, 0], [1, i32::MAX], [i32::MIN, i32::MIN], [i32::MAX, i32::MAX], [-1, i32::MIN]];
            let ssz: Vec<(i32, i32)> = vec![(3, 2), (0, 0), (1, 1), (5, 4)];
            let mut kinds: Vec<SurfKind> = vec![SurfKind::Copy];
            for m in MODES.iter() {
                kinds.push(SurfKind::Blend(*m));
            }
            for a in alphas() {
                kinds.push(SurfKind::Alpha(a));
            }
            let dims = [sf.len(), rects.len(), pts.len(), ssz.len(), kinds.len(), ctxs.len()];
            for c in choice_vectors(&dims, d) {
                let call = Op::Surface(kinds[c[4]], ssz[c[3]].0, ssz[c[3]].1, rects[c[1]], pts[c[2]]);
                out.push_lazy(|| wrap(sf[c[0]], &IDENT, &ctxs[c[5]], call));
            }
        }
        "query" => {
            let tols: Vec<f32> = vec![0.1, 0.01, 1.0, 100.0, 1e-9, f32::MIN_POSITIVE, 1e-45, f32::MAX, f32::INFINITY];
            let cs = coords(3.0);
            let dims = [ps.len(), tols.len(), cs.len(), cs.len(), xfs.len()];
            for c in choice_vectors(&dims, d.max(2)) {
                let call = Op::Query(ps[c[0]].clone(), tols[c[1]], cs[c[2]], cs[c[3]]);
                out.push_lazy(|| wrap((3, 2), &xfs[c[4]], &(vec![], vec![]), call));
            }
        }
        "clear" => {
            let cols: Vec<u32> = vec![0xffffffff, 0, 0x80402010, 0x10100800];
            let dims = [sf.len(), xfs.len(), cols.len(), ctxs.len()];
            for c in choice_vectors(&dims, d.max(2)) {
                out.push_lazy(|| wrap(sf[c[0]], &xfs[c[1]], &ctxs[c[3]], Op::Clear(cols[c[2]])));
            }
        }
        "sequences" => {
            sequences(d, out);
        }
        _ => {}
    }
}

/// alphabet of nominal and single-deviation calls for the sequence exploration
fn seq_alphabet() -> Vec<Op> {
    let ps = paths();
    let srcs = sources();
    let so = Opts::default();
    let tri = ps[0].clone();
    let style = |w: f32, dash: Vec<f32>, off: f32| StyleSpec { width: w, cap: 1, join: 1, miter: 4., dash, offset: off };
    vec![
        Op::Fill(tri.clone(), srcs[0].clone(), so),
        Op::Fill(tri.clone(), srcs[2].clone(), Opts { mode: BlendMode::Xor, alpha: 0.5, aa: false }),
        Op::Fill(ps[1].clone(), srcs[0].clone(), so),
        Op::Fill(ps[5].clone(), srcs[10].clone(), so),
        Op::Fill(ps[18].clone(), srcs[0].clone(), so),
        Op::Fill(ps[26].clone(), srcs[5].clone(), so),
        Op::Fill(ps[12].clone(), srcs[0].clone(), so),
        // wholly outside, resting on the top / bottom border to within a quarter pixel: what such a
        // call leaves behind in the rasteriser only shows in the calls that follow
        Op::Fill(PathSpec::rect(0.5, -3., 1.5, 3.125), srcs[0].clone(), so),
        Op::Fill(PathSpec::poly(&[(0.25, 1.875), (2.5, 2.0), (1.0, 6.0)]), srcs[0].clone(), so),
        // without antialiasing, running far past the right edge on the lowest row it touches
        Op::Fill(PathSpec::rect(0.5, 0.5, 60.0, 1.25), srcs[0].clone(), Opts { mode: BlendMode::SrcOver, alpha: 1.0, aa: false }),
        Op::FillRect(0., 0., 2., 1., srcs[0].clone(), Opts { mode: BlendMode::Src, alpha: 1.0, aa: true }),
        Op::FillRect(0.5, 0.5, 1.5, 1.0, srcs[16].clone(), so),
        Op::FillRect(-5., -5., 20., 20., srcs[2].clone(), Opts { mode: BlendMode::Multiply, alpha: 2.0, aa: true }),
        Op::Stroke(tri.clone(), style(1.0, vec![], 0.), srcs[0].clone(), so),
        Op::Stroke(tri.clone(), style(0.5, vec![0.5, 0.25], -1e9), srcs[0].clone(), so),
        Op::Stroke(ps[25].clone(), style(f32::NAN, vec![], 0.), srcs[0].clone(), so),
        Op::Stroke(ps[4].clone(), style(2.0, vec![0., 0.], 0.), srcs[0].clone(), so),
        Op::Clear(0x80402010),
        Op::Mask(1, 0, 2, 2, vec![255, 128, 0, 1], srcs[0].clone()),
        Op::Mask(-1, -1, 3, 2, vec![255, 128, 0, 1, 9, 200], srcs[4].clone()),
        Op::DrawImageAt(1., 0., 2, 2, vec![0xff102030, 0x80402000, 0, 0xffffffff], so),
        Op::DrawImageSize(2.5, 0.5, 0.25, 0.5, 2, 2, vec![0xff102030, 0x80402000, 0, 0xffffffff], so),
        Op::PushClipRect(1, 0, 3, 2),
        Op::PushClipRect(0, 0, 1, 2),
        Op::PushClipRect(2, 2, 1, 0),
        // a clip rectangle reaching beyond the surface on every side (clip paths pushed under it)
        Op::PushClipRect(-3, -3, 9, 9),
        Op::PushClip(tri.clone()),
        Op::PushClip(PathSpec::rect(-9., -9., 2., 2.)),
        Op::PopClip,
        Op::PushLayer(0.5, BlendMode::SrcOver),
        Op::PushLayer(f32::NAN, BlendMode::Multiply),
        Op::PushLayer(1.0, BlendMode::Src),
        Op::PopLayer,
        Op::SetTransform([0., 0., 0., 1., 0., 0.]),
        Op::SetTransform(IDENT),
        Op::SetTransform([2., 0., 0.5, 2., 0.5, 0.25]),
        Op::Surface(SurfKind::Copy, 3, 2, [0, 0, 3, 2], [-1, 1]),
        Op::Surface(SurfKind::Alpha(0.5), 2, 2, [-1, -1, 4, 4], [1, 0]),
        Op::Query(ps[26].clone(), 0.1, 1.0, 1.0),
    ]
}

fn sequences(len: usize, out: &mut Sink) {
    let alpha = seq_alphabet();
    // the clip stack and the layer stack are independent: a clip pushed before a layer may be
    // popped while the layer is open ("pops match pushes" holds per stack); `nc` / `nl` count
    // the open clips / layers, what is still open at the end is popped (layers first)
    fn rec(alpha: &[Op], seq: &mut Vec<usize>, nc: usize, nl: usize, len: usize, out: &mut Sink) {
        if !seq.is_empty() {
            out.push_lazy(|| {
                let mut ops: Vec<Op> = seq.iter().map(|&i| alpha[i].clone()).collect();
                for _ in 0..nl {
                    ops.push(Op::PopLayer);
                }
                for _ in 0..nc {
                    ops.push(Op::PopClip);
                }
                Scene { w: 3, h: 2, dst: Dst::Distinct, ops }
            });
        }
        if seq.len() >= len {
            return;
        }
        for (oi, op) in alpha.iter().enumerate() {
            let (mut c, mut l) = (nc, nl);
            match op {
                Op::PopLayer => {
                    if nl == 0 {
                        continue;
                    }
                    l -= 1;
                }
                Op::PopClip => {
                    // popping an empty clip stack is harmless, but only tried with no layer open
                    if nc == 0 && nl > 0 {
                        continue;
                    }
                    c = c.saturating_sub(1);
                }
                Op::PushLayer(..) => l += 1,
                Op::PushClip(_) | Op::PushClipRect(..) => c += 1,
                _ => {}
            }
            seq.push(oi);
            rec(alpha, seq, c, l, len, out);
            seq.pop();
        }
    }
    rec(&alpha, &mut Vec::new(), 0, 0, len, out);
}

// ------------------------------------------------------------------ execution

/// run one scene in-process: every op guarded; Err((clause, message))
fn run_case(scene: &Scene) -> Result<u64, (String, String)> {
    let mut dt = guard(|| scene.target()).map_err(|p| ("target".to_string(), p))?;
    for (i, op) in scene.ops.iter().enumerate() {
        if let Err(p) = guard(|| exec(&mut dt, op)) {
            return Err((format!("panic/{}", op.kind()), format!("step {} ({}): {}", i, op.kind(), p)));
        }
    }
    Ok(hash64(&dt.get_data().to_vec()))
}

pub fn child_main(args: &[String]) -> i32 {
    // args: <group> <bound> <end> <start>
    let group = &args[0];
    let d: usize = args[1].parse().unwrap_or(0);
    let end: usize = args[2].parse().unwrap_or(usize::MAX);
    let start: usize = args[3].parse().unwrap_or(0);
    let (scenes, total) = gen_group(group, d, start, end);
    let end = end.min(total);
    let mut an = Announcer::new();
    let mut transitions = 0u64;
    let mut nontrivial = 0u64;
    let mut seen = std::collections::HashSet::new();
    for i in start..end {
        let s = &scenes[i - start];
        an.line(&format!("c {}", i));
        transitions += s.ops.len() as u64;
        let t0 = std::time::Instant::now();
        let rc = run_case(s);
        if std::env::var("VERIF_C07_SLOW_MS").ok().and_then(|v| v.parse::<u128>().ok()).map_or(false, |ms| t0.elapsed().as_millis() >= ms) {
            eprintln!("SLOW {} ms: {}", t0.elapsed().as_millis(), s);
        }
        match rc {
            Ok(h) => {
                nontrivial += 1;
                if seen.len() < 20_000 {
                    seen.insert(h);
                }
            }
            Err((clause, msg)) => {
                if clause.starts_with("panic") || clause == "target" {
                    an.line(&format!("p {} {}|{}", i, clause, msg.replace('\n', " ")));
                } else {
                    an.line(&format!("v {} {}|{}", i, clause, msg.replace('\n', " ")));
                }
            }
        }
    }
    for h in seen {
        an.line(&format!("o {:x}", h));
    }
    an.line(&format!("d {} {} {}", end.saturating_sub(start), transitions, nontrivial));
    0
}

/// single scene in a child with watchdog (used by replay): "ok" | "violation clause|msg"
pub fn one_main(args: &[String]) -> i32 {
    let txt = std::fs::read_to_string(&args[0]).unwrap_or_default();
    let scene = match parse_scene(txt.trim()) {
        Ok(s) => s,
        Err(e) => {
            println!("e {}", e);
            return 2;
        }
    };
    println!("c 0");
    match run_case(&scene) {
        Ok(_) => println!("d 1 {} 1", scene.ops.len()),
        Err((c, m)) => {
            println!("p 0 {}|{}", c, m.replace('\n', " "));
            println!("d 1 {} 0", scene.ops.len());
        }
    }
    0
}

fn classify(scene: &Scene, msg: &str) -> Option<&'static str> {
    let nonsep = scene.ops.iter().any(|o| match o {
        Op::Fill(_, _, o) | Op::FillRect(_, _, _, _, _, o) | Op::Stroke(_, _, _, o) | Op::DrawImageAt(_, _, _, _, _, o) | Op::DrawImageSize(_, _, _, _, _, _, _, o) => is_nonseparable(o.mode),
        Op::PushLayer(_, b) => is_nonseparable(*b),
        Op::Surface(SurfKind::Blend(m), ..) => is_nonseparable(*m),
        _ => false,
    });
    if nonsep && msg.contains("sw-composite") {
        // div255() called from lum() with a negative sum cast to u32, or arithmetic in blend.rs
        if msg.contains("overflow") && (msg.contains("src/lib.rs:889") || msg.contains("src/lib.rs:890") || msg.contains("src/blend.rs")) {
            return Some("sw_composite_nonseparable_overflow");
        }
        if msg.contains("assertion failed") && msg.contains("<= a") {
            return Some("sw_composite_nonseparable_debug_assert");
        }
    }
    None
}

fn event_violation(scene: &Scene, ev: &ChildEvent) -> Violation {
    match ev {
        ChildEvent::Panic(_, m) => {
            let (clause, msg) = m.split_once('|').unwrap_or(("panic", m));
            // signature: call kind + panic site (message without the step number)
            let site = msg.rsplit(" @ ").next().unwrap_or("");
            Violation::new(format!("{} @ {}", clause, site), scene.to_string(), msg.to_string()).finding(classify(scene, msg))
        }
        ChildEvent::Complaint(_, c, m) => Violation::new(c.clone(), scene.to_string(), m.clone()),
        ChildEvent::Hang(_) => Violation::new("hang", scene.to_string(), "the call sequence did not return within the per-case horizon; the child process was killed".to_string()),
        ChildEvent::Died(_, s) => Violation::new("abort", scene.to_string(), format!("the child process died while running this case (abort / allocation failure / signal): {}", s)),
    }
}

fn horizon() -> Duration {
    Duration::from_millis(std::env::var("VERIF_C07_HORIZON_MS").ok().and_then(|s| s.parse().ok()).unwrap_or(60_000))
}

impl Check for C07 {
    fn id(&self) -> &'static str {
        "C07"
    }
    fn title(&self) -> &'static str {
        "No panic, abort or hang for any in-range input or call sequence"
    }

    fn run(&self, run: &Run) {
        let q = run.tier.quick();
        run.rule("per call: all argument vectors with at most d deviations from the nominal vector over per-parameter boundary alphabets (d iterated; see bounds_completed), filtered to the property's stated domain; plus all call sequences up to the length bound over a 39-call alphabet of nominal and single-deviation calls (pushes auto-closed); each case runs on a fresh target in a child process with overflow checks and debug assertions on; oracle: no unwind, no abort, no allocation failure, returns within the horizon; non-trivial = case ran to completion");
        run.assume("domain filters: device-space geometry within +-4000 px incl. stroke outset, fewer than 5*10^4 dashes by an upper-bound estimate, dash arrays with a negative entry but positive sum excluded (caller error)");
        let d = if q { 3 } else { 4 };
        let seq_len = if q { 4 } else { 5 };
        // work items: (group, bound); the fill/stroke groups dominate, all run concurrently in children
        let mut items: Vec<(String, usize)> = Vec::new();
        for g in GROUPS.iter() {
            if *g == "sequences" {
                items.push((g.to_string(), seq_len));
            } else {
                // bound iterated: the d = 0 and d = 1 spaces are subsets of d; run the largest only,
                // cases are generated in order of increasing number of deviations
                items.push((g.to_string(), d));
            }
        }
        let hz = horizon();
        // generate every group once in the parent (for sizes and for attributing failures),
        // then run chunks of each group in child processes
        let chunk = 25_000usize;
        let totals: Vec<usize> = items.iter().map(|(g, b)| gen_group(g, *b, 0, 0).1).collect();
        let mut work: Vec<(usize, usize, usize)> = Vec::new();
        for (gi, &n) in totals.iter().enumerate() {
            run.bound(&format!("{} (bound {})", items[gi].0, items[gi].1), format!("{} in-domain cases", n));
            let mut s = 0;
            while s < n {
                work.push((gi, s, (s + chunk).min(n)));
                s += chunk;
            }
            if let Some(s) = gen_group(&items[gi].0, items[gi].1, n / 3, n / 3 + 1).0.pop() {
                run.sample(s.to_string());
            }
        }
        let stalls = std::sync::atomic::AtomicUsize::new(0);
        run.par(work.len(), |wi, l| {
            let (gi, s0, s1) = work[wi];
            let (g, bound) = &items[gi];
            l.states += (s1 - s0) as u64;
            if stalls.load(std::sync::atomic::Ordering::Relaxed) >= 8 {
                l.count("chunks_not_run_after_repeated_stalls", 1);
                run.machinery_note_incomplete();
                return;
            }
            let res = run_group(&["c07-child".to_string(), g.clone(), bound.to_string(), s1.to_string()], hz, 8 * 1024 * 1024, s0, 2);
            let nstall = res.events.iter().filter(|e| matches!(e, ChildEvent::Hang(_) | ChildEvent::Died(..))).count();
            stalls.fetch_add(nstall, std::sync::atomic::Ordering::Relaxed);
            if res.aborted_after.is_some() {
                l.count("chunks_abandoned_after_two_stalls", 1);
                run.machinery_note_incomplete();
            }
            l.traces += res.cases;
            l.evals += res.cases;
            l.transitions += res.transitions;
            l.nontrivial += res.nontrivial;
            for h in &res.outcomes {
                l.outcome(*h);
            }
            for e in &res.errors {
                run.machinery_error(format!("group {} [{}, {}): {}", g, s0, s1, e));
            }
            if res.cases != (s1 - s0) as u64 && res.errors.is_empty() && res.aborted_after.is_none() {
                run.machinery_error(format!("group {} [{}, {}): children reported {} cases", g, s0, s1, res.cases));
            }
            if !res.events.is_empty() {
                // regenerate this chunk's scenes once to attribute the events
                let scenes = gen_group(g, *bound, s0, s1).0;
                for ev in &res.events {
                    let idx = match ev {
                        ChildEvent::Panic(i, _) | ChildEvent::Complaint(i, _, _) | ChildEvent::Hang(i) | ChildEvent::Died(i, _) => *i,
                    };
                    if let Some(s) = scenes.get(idx.wrapping_sub(s0)) {
                        run.report(gi * 100_000_000 + idx, event_violation(s, ev));
                    }
                }
            }
        });
    }

    fn replay(&self, case: &str) -> Result<Option<Violation>, String> {
        let scene = parse_scene(case)?;
        // run in a child so that aborts and hangs can be observed
        let dir = std::env::var("VERIF_ROOT").map(std::path::PathBuf::from).unwrap_or_else(|_| std::path::PathBuf::from("/verif")).join("target").join("tmp");
        let _ = std::fs::create_dir_all(&dir);
        let path = dir.join(format!("c07-replay-{}-{}.scene", std::process::id(), hash64(&case.to_string())));
        std::fs::write(&path, case).map_err(|e| e.to_string())?;
        let res = run_group(&["c07-one".to_string(), path.to_string_lossy().to_string()], horizon(), 8 * 1024 * 1024, 0, 1);
        let _ = std::fs::remove_file(&path);
        if let Some(e) = res.errors.first() {
            return Err(e.clone());
        }
        Ok(res.events.first().map(|ev| event_violation(&scene, ev)))
    }
}
