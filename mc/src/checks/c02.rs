//! C02 Drawing never changes pixels outside shape, clip and surface.
//!
//! One drawing call on a prepared target (clip context x layer context x transform), every
//! blend mode, every source kind; the step oracle's "outside" clauses decide: pixels with zero
//! shape coverage, outside a pushed clip rectangle, with zero coverage in a pushed clip path,
//! or in a buffer that is not the drawing destination, must be bit-identical afterwards.

use super::c03::{dst_cols, image_of};
use super::common::*;
use crate::engine::*;
use crate::model::step::*;
use crate::scene::*;
use raqote::BlendMode;

pub struct C02;

fn owns(v: &StepViolation) -> bool {
    match v.kind {
        Kind::OutsideChanged => true,
        Kind::Panic => !is_nonsep_overflow(v),
        // a call other than set_transform that changes the transform makes every later draw
        // land outside the shape the caller described
        Kind::StateChanged => v.clause.ends_with("leaves-transform"),
        _ => false,
    }
}

fn classify(_s: &Scene, _i: usize, _v: &StepViolation) -> Option<&'static str> {
    None
}

fn ramp() -> Vec<Stop> {
    vec![Stop { pos: 0.0, color: 0xffff0000 }, Stop { pos: 0.5, color: 0x8000ff00 }, Stop { pos: 1.0, color: 0xff0000ff }]
}

fn sources(quick: bool) -> Vec<SrcSpec> {
    let mut v = vec![
        SrcSpec::Solid(0xffffffff),
        SrcSpec::Solid(0x80002040),
        SrcSpec::Solid(0x00000000),
        SrcSpec::Image { w: 3, h: 2, data: image_of(3, 2, &VALS12, 1), repeat: false, bilinear: false, xf: IDENT },
        SrcSpec::Image { w: 3, h: 2, data: image_of(3, 2, &VALS12, 1), repeat: true, bilinear: true, xf: [0.5, 0.2, -0.2, 0.5, 0.3, 0.1] },
        SrcSpec::Linear { stops: ramp(), spread: Spr::Pad, p: [0., 0., 4., 3.] },
        SrcSpec::Radial { stops: ramp(), spread: Spr::Repeat, p: [2., 2., 3.] },
    ];
    if !quick {
        v.push(SrcSpec::Solid(0x01010101));
        v.push(SrcSpec::Image { w: 1, h: 1, data: vec![0xff102030], repeat: false, bilinear: true, xf: [1., 0., 0., 1., 0.5, 0.5] });
        v.push(SrcSpec::Image { w: 2, h: 2, data: image_of(2, 2, &VALS12, 5), repeat: true, bilinear: false, xf: [1., 0., 0., 1., -1., 2.] });
        v.push(SrcSpec::TwoCircle { stops: ramp(), spread: Spr::Reflect, p: [2., 2., 0.5, 2.5, 2., 3.] });
        v.push(SrcSpec::Sweep { stops: ramp(), spread: Spr::Pad, p: [2., 2., 0., 360.] });
    }
    v
}

/// clip context x layer context
fn contexts(w: i32, h: i32, quick: bool) -> Vec<(Vec<Op>, Vec<Op>)> {
    let (wf, hf) = (w as f32, h as f32);
    let tri = PathSpec::poly(&[(0.5, 0.25), (wf - 0.25, 1.0), (1.0, hf - 0.5)]);
    let clips: Vec<Vec<Op>> = if quick {
        vec![vec![], vec![Op::PushClipRect(1, 1, w - 1, h - 1)], vec![Op::PushClip(tri.clone())]]
    } else {
        vec![
            vec![],
            vec![Op::PushClipRect(1, 1, w - 1, h - 1)],
            vec![Op::PushClipRect(0, 0, 1, h), Op::PushClipRect(2, 0, w, h)],
            vec![Op::PushClip(tri.clone())],
            vec![Op::PushClipRect(1, 0, w, h - 1), Op::PushClip(tri.clone())],
            vec![Op::PushClip(tri.clone()), Op::PushClipRect(1, 0, w, h - 1)],
        ]
    };
    let layers: Vec<Vec<Op>> = if quick {
        vec![vec![], vec![Op::PushClipRect(1, 0, w, h), Op::PushLayer(0.5, BlendMode::SrcOver)]]
    } else {
        vec![vec![], vec![Op::PushClipRect(1, 0, w, h), Op::PushLayer(0.5, BlendMode::SrcOver)], vec![Op::PushLayer(1.0, BlendMode::Multiply), Op::PushClipRect(0, 1, w - 1, h), Op::PushLayer(0.75, BlendMode::Xor)]]
    };
    let mut out = Vec::new();
    // an outer clip popped while the layer pushed under it is still open (the two stacks are independent)
    out.push((vec![Op::PushClipRect(1, 1, w - 1, h), Op::PushLayer(0.5, BlendMode::SrcOver), Op::PopClip], vec![Op::PopLayer]));
    out.push((vec![Op::PushClipRect(1, 0, w, h - 1), Op::PushLayer(1.0, BlendMode::SrcOver), Op::PopClip, Op::PushClip(tri.clone())], vec![Op::PopLayer, Op::PopClip]));
    for c in &clips {
        for l in &layers {
            // two orders: clip context outside the layers, and inside them
            for inside in [false, true] {
                if inside && (c.is_empty() || l.is_empty()) {
                    continue;
                }
                let pre: Vec<Op> = if inside { l.iter().chain(c.iter()).cloned().collect() } else { c.iter().chain(l.iter()).cloned().collect() };
                let mut suf = Vec::new();
                for op in pre.iter().rev() {
                    match op {
                        Op::PushLayer(..) => suf.push(Op::PopLayer),
                        _ => suf.push(Op::PopClip),
                    }
                }
                out.push((pre, suf));
            }
        }
    }
    out
}

fn probes(w: i32, h: i32, src: &SrcSpec, o: Opts) -> Vec<Op> {
    let (wf, hf) = (w as f32, h as f32);
    let style = |width: f32, cap: u8, join: u8| StyleSpec { width, cap, join, miter: 4., dash: vec![], offset: 0. };
    let mut v = vec![
        // rect strictly inside
        Op::Fill(PathSpec::rect(1., 1., 2., 1.), src.clone(), o),
        // integer rect touching the left edge, narrower than the surface (fast path when possible)
        Op::FillRect(0., 1., 2., 2., src.clone(), o),
        Op::FillRect(1., 1., 1., 1., src.clone(), o),
        // fractional rect
        Op::FillRect(0.5, 0.75, 2.25, 1.5, src.clone(), o),
        // triangle: bounding box contains uncovered pixels
        Op::Fill(PathSpec::poly(&[(0., 0.), (wf, hf - 0.5), (0.25, hf)]), src.clone(), o),
        // sliver
        Op::Fill(PathSpec::poly(&[(0.25, 0.25), (wf - 0.25, hf - 0.5), (wf - 0.5, hf - 0.25)]), src.clone(), o),
        // partly off every side
        Op::Fill(PathSpec::poly(&[(-1.5, 1.5), (1.5, -1.5), (wf + 1.5, hf - 1.5), (wf - 1.5, hf + 1.5)]), src.clone(), o),
        // wholly off-surface
        Op::FillRect(-3., -3., 2., 2., src.clone(), o),
        Op::FillRect(wf + 1., 1., 2., 2., src.clone(), o),
        // empty path
        Op::Fill(PathSpec::new(vec![]), src.clone(), o),
        // even-odd ring (hole in the middle)
        Op::Fill(PathSpec { evenodd: true, ops: [PathSpec::rect(0.5, 0.5, wf - 1., hf - 1.).ops, PathSpec::rect(1.5, 1.5, wf - 3., hf - 3.).ops].concat() }, src.clone(), o),
        // strokes
        Op::Stroke(PathSpec::new(vec![POp::M(1., 1.), POp::L(wf - 1., hf - 1.)]), style(1., 0, 0), src.clone(), o),
        Op::Stroke(PathSpec::new(vec![POp::M(0.5, hf - 1.), POp::L(wf * 0.5, 0.5), POp::L(wf - 0.5, hf - 1.), POp::Z]), style(0.75, 1, 1), src.clone(), o),
    ];
    // a text run partly off the surface (glyph coverage = the alpha an opaque-white draw leaves)
    if font_available() {
        v.push(Op::Text(5.0, "o.".to_string(), -1.0, hf - 0.75, src.clone(), o));
    }
    v
}

fn run_one(run: &Run, shard: usize, l: &mut Local, scene: &Scene) {
    l.states += scene.ops.len() as u64 + 1;
    match run_scene("C02", scene, owns, &classify) {
        Ok(st) => {
            account(l, &st);
        }
        Err(v) => {
            l.traces += 1;
            l.evals += 1;
            run.report(shard, v)
        }
    }
}

/// polygons on the quarter-pixel grid judged by the exact 4x4 model (M-RAST) instead of a reference
/// fill: a pixel with no covered cell keeps its value. `scene` = [fill(path, solid, opts)].
fn eval_exact(scene: &Scene) -> Result<u64, Violation> {
    use crate::model::rast::{self, QOp, Rule};
    let case = format!("exact | {}", scene);
    let (path, o) = match scene.ops.first() {
        Some(Op::Fill(p, _, o)) => (p, o),
        _ => return Err(Violation::new("harness/no-fill", case, String::new())),
    };
    let q = |v: f32| (v * 4.0).round() as i32;
    let qops: Vec<QOp> = path
        .ops
        .iter()
        .filter_map(|op| match *op {
            POp::M(x, y) => Some(QOp::M(q(x), q(y))),
            POp::L(x, y) => Some(QOp::L(q(x), q(y))),
            POp::Z => Some(QOp::Z),
            _ => None,
        })
        .collect();
    let (w, h) = (scene.w, scene.h);
    let cov = rast::coverage(&rast::edges_from_ops(&qops), w as usize, h as usize, if path.evenodd { Rule::EvenOdd } else { Rule::NonZero });
    let got = render(scene).map_err(|p| Violation::new("fill/panic", case.clone(), p))?;
    let before = scene.dst.pixels(w, h);
    for i in 0..got.len() {
        if cov.kmax[i] == 0 && got[i] != before[i] {
            return Err(Violation::new("exact/outside-changed/fill-zero-model-coverage", case, format!("pixel ({},{}) has no covered cell in the exact 4x4 model but changed {:#010x} -> {:#010x}; mode {:?}, aa {}", i as i32 % w, i as i32 / w, before[i], got[i], o.mode, o.aa)));
        }
    }
    Ok(hash64(&got))
}

impl Check for C02 {
    fn id(&self) -> &'static str {
        "C02"
    }
    fn title(&self) -> &'static str {
        "Drawing never changes pixels outside shape, clip and surface"
    }

    fn run(&self, run: &Run) {
        let deep = !run.tier.quick();
        let q = false;
        run.rule("scenes = surface x destination pattern x transform x clip/layer context x one drawing call (shape, blend mode, source kind, alpha, aa) followed by the pops; every transition is checked: pixels with zero reference coverage, outside a clip rectangle, with zero clip-path coverage, or in a buffer other than the destination must be bit-identical; non-trivial = the scene had partially covered pixels");
        run.assume("zero shape coverage is decided by an opaque-white reference fill of the same shape on a fresh target (under-approximated: only pixels whose reference alpha is exactly 0)");
        let surfaces: Vec<(i32, i32)> = if deep { vec![(4, 4), (6, 5), (8, 7), (3, 9)] } else { vec![(4, 4), (6, 5)] };
        let mut xfs: Vec<Xf> = vec![IDENT, [1., 0., 0., 1., 0.5, 0.25], [2., 0., 0., 2., 0., 0.]];
        if deep {
            xfs.push([0.8660254, 0.5, -0.5, 0.8660254, 1., -1.]);
            xfs.push([1., 0., 0.5, 1., -1., 0.]);
        }
        let srcs = sources(q);
        let alphas: &[f32] = if q { &[0.0, 0.5, 1.0] } else { &[0.0, 0.25, 0.5, 1.0] };
        for (w, h) in surfaces {
            let ctxs = contexts(w, h, q);
            let nprobe = probes(w, h, &srcs[0], Opts::default()).len();
            run.bound(&format!("draws {}x{}", w, h), format!("{} transforms x {} contexts x 2 destinations x 28 modes x {} sources x {} alphas x 2 aa x {} shapes", xfs.len(), ctxs.len(), srcs.len(), alphas.len(), nprobe));
            run.par(MODES.len() * srcs.len(), |sidx, l| {
                let mode = MODES[sidx / srcs.len()];
                let src = &srcs[sidx % srcs.len()];
                for &alpha in alphas {
                    for aa in [true, false] {
                        let o = Opts { mode, alpha, aa };
                        for (pi, probe) in probes(w, h, src, o).into_iter().enumerate() {
                            for (ci, (pre, suf)) in ctxs.iter().enumerate() {
                                for (ti, xf) in xfs.iter().enumerate() {
                                    for dst in [Dst::White, Dst::Distinct] {
                                        let mut ops = Vec::with_capacity(pre.len() + suf.len() + 2);
                                        ops.extend(pre.iter().cloned());
                                        if ti != 0 {
                                            ops.push(Op::SetTransform(*xf));
                                        }
                                        ops.push(probe.clone());
                                        ops.extend(suf.iter().cloned());
                                        let scene = Scene { w, h, dst, ops };
                                        if sidx == 2 * srcs.len() + 1 && pi == 4 && ci == 1 && ti == 1 && alpha == 0.5 && aa {
                                            run.sample(scene.to_string());
                                        }
                                        run_one(run, sidx, l, &scene);
                                    }
                                }
                            }
                        }
                    }
                    if run.expired() {
                        return;
                    }
                }
            });

            // clear, mask, draw_image_*: modes/alpha where applicable
            run.bound(&format!("clear/mask/image {}x{}", w, h), format!("clear x 3 colours, mask x 5 placements x {} sources, draw_image_at / with_size x 28 modes x {} alphas x 6 placements; x {} contexts x {} transforms x 2 destinations", srcs.len(), alphas.len(), ctxs.len(), xfs.len()));
            run.par(ctxs.len(), |ci, l| {
                let (pre, suf) = &ctxs[ci];
                let img = image_of(3, 2, &VALS12, 3);
                let mut calls: Vec<Op> = vec![Op::Clear(0xffffffff), Op::Clear(0x80002040), Op::Clear(0)];
                for (mx, my, mw, mh) in [(0, 0, 2, 2), (1, 1, 2, 1), (-1, -1, 3, 3), (w - 1, h - 1, 2, 2), (w + 1, 0, 2, 2)] {
                    let data: Vec<u8> = (0..mw * mh).map(|k| [255u8, 0, 128, 1, 0, 200][(k as usize) % 6]).collect();
                    for s in &srcs {
                        calls.push(Op::Mask(mx, my, mw, mh, data.clone(), s.clone()));
                    }
                }
                for &mode in MODES.iter() {
                    for &alpha in alphas {
                        let o = Opts { mode, alpha, aa: true };
                        for (x, y) in [(0., 0.), (1., 1.), (-1., 2.), (1.5, 0.25), (w as f32 - 1., h as f32 - 1.), (w as f32 + 2., 0.)] {
                            calls.push(Op::DrawImageAt(x, y, 3, 2, img.clone(), o));
                        }
                        calls.push(Op::DrawImageSize(2., 3., 1., 0., 3, 2, img.clone(), o));
                        calls.push(Op::DrawImageSize(1.5, 1., 0.25, 1.5, 3, 2, img.clone(), o));
                    }
                }
                for call in &calls {
                    for (ti, xf) in xfs.iter().enumerate() {
                        for dst in [Dst::White, Dst::Distinct] {
                            let mut ops: Vec<Op> = pre.clone();
                            if ti != 0 {
                                ops.push(Op::SetTransform(*xf));
                            }
                            ops.push(call.clone());
                            ops.extend(suf.iter().cloned());
                            let scene = Scene { w, h, dst, ops };
                            run_one(run, 10_000 + ci, l, &scene);
                        }
                    }
                }
            });
        }
        let _ = dst_cols;
        // draws that follow calls which must change nothing (state carried from earlier calls:
        // a transform lost, a clip or layer left behind, edges left in the rasteriser)
        {
            let (w, h) = (6, 5);
            let (wf, hf) = (w as f32, h as f32);
            let tri = PathSpec::poly(&[(0.5, 0.25), (wf - 0.25, 1.0), (1.0, hf - 0.5)]);
            let noops: Vec<Vec<Op>> = vec![
                vec![Op::PushClipRect(5, 4, 1, 1), Op::PushLayer(1.0, BlendMode::SrcOver), Op::PopLayer, Op::PopClip],
                vec![Op::PushClipRect(0, 0, 2, h), Op::PushClipRect(3, 0, w, h), Op::PushLayer(0.5, BlendMode::Src), Op::Fill(tri.clone(), SrcSpec::Solid(0xff204080), Opts::default()), Op::PopLayer, Op::PopClip, Op::PopClip],
                vec![Op::PushLayer(0.5, BlendMode::SrcOver), Op::PopLayer],
                vec![Op::PushClipRect(5, 4, 1, 1), Op::Fill(tri.clone(), SrcSpec::Solid(0xff204080), Opts::default()), Op::Clear(0xffffffff), Op::PushClip(tri.clone()), Op::PopClip, Op::PopClip],
                vec![Op::PushClip(PathSpec::rect(-9., -9., 3., 3.)), Op::PushLayer(1.0, BlendMode::SrcOver), Op::Clear(0x80002040), Op::PopLayer, Op::PopClip],
                // a clip path pushed under an empty clip (nothing needs rasterising there), everything popped again
                vec![Op::PushClipRect(5, 4, 1, 1), Op::PushClip(tri.clone()), Op::PopClip, Op::PopClip],
                vec![Op::PushClipRect(0, 0, 2, h), Op::PushClipRect(3, 0, w, h), Op::PushClip(PathSpec::rect(1.0, 1.0, 3.0, 3.0)), Op::PopClip, Op::PopClip, Op::PopClip],
                vec![Op::PushClipRect(5, 4, 1, 1), Op::PushLayer(1.0, BlendMode::SrcOver), Op::PushClip(tri.clone()), Op::PopClip, Op::PopLayer, Op::PopClip],
                vec![Op::Stroke(tri.clone(), StyleSpec { width: 0.0, cap: 0, join: 0, miter: 4., dash: vec![], offset: 0. }, SrcSpec::Solid(0xffffffff), Opts::default()), Op::Fill(PathSpec::rect(-5., -5., 2., 2.), SrcSpec::Solid(0xffffffff), Opts::default())],
            ];
            let txs: Vec<Xf> = vec![[1., 0., 0., 1., 2., 1.], [0.5, 0., 0., 0.5, 1.5, 0.25], [0.8660254, 0.5, -0.5, 0.8660254, 2., -1.]];
            let srcs2 = [SrcSpec::Solid(0x80002040), SrcSpec::Linear { stops: ramp(), spread: Spr::Pad, p: [0., 0., 4., 3.] }];
            run.bound("draws after no-op calls", format!("{} transforms x {} blocks of calls that must change nothing (layers under empty clips, empty layers, draws and clear under an empty clip, off-surface clip paths, clip paths pushed under an empty clip, zero-width strokes) x 13-14 shapes x 2 modes x 2 sources on {}x{}", txs.len(), noops.len(), w, h));
            run.par(noops.len() * txs.len(), |i, l| {
                let block = &noops[i / txs.len()];
                let xf = txs[i % txs.len()];
                for mode in [BlendMode::SrcOver, BlendMode::Src] {
                    for src in &srcs2 {
                        for probe in probes(w, h, src, Opts { mode, alpha: 1.0, aa: true }) {
                            let mut ops = vec![Op::SetTransform(xf)];
                            ops.extend(block.iter().cloned());
                            ops.push(probe);
                            let scene = Scene { w, h, dst: Dst::Distinct, ops };
                            run_one(run, 30_000 + i, l, &scene);
                        }
                    }
                }
            });
        }
        // rectangles and images under transforms that put the corners of the rectangle on whole
        // pixels (where a shortcut for pixel-aligned rectangles could be taken) without keeping
        // it a rectangle: shears, a rotation combined with a scale; and flips / quarter turns
        {
            let (w, h) = (9, 6);
            let txs: Vec<Xf> = vec![
                [1., 0., 1., 1., 0., 0.],
                [1., 0., -1., 1., 4., 0.],
                [1., 0.5, 0., 1., 0., 0.],
                [1., 1., -1., 1., 4., 0.],
                [2., 0., 1., 1., 0., 1.],
                [-1., 0., 0., 1., 8., 0.],
                [0., 1., -1., 0., 6., 0.],
                [1., 0., 0., 1., 2., 1.],
                [2., 0., 0., 3., 1., 0.],
            ];
            let img = image_of(2, 2, &VALS12, 3);
            let srcs3 = [SrcSpec::Solid(0xff204080), SrcSpec::Solid(0x80002040), SrcSpec::Linear { stops: ramp(), spread: Spr::Pad, p: [0., 0., 4., 3.] }, SrcSpec::Image { w: 2, h: 2, data: img.clone(), repeat: true, bilinear: false, xf: IDENT }];
            let modes3 = [BlendMode::SrcOver, BlendMode::Src, BlendMode::Clear, BlendMode::DstIn, BlendMode::Xor];
            run.bound("pixel-aligned corners under non-rectangular transforms", format!("{} transforms (4 shears, rotation x scale, flip, quarter turn, integer translation, integer scale) x (5 integer fill_rect x {} sources + draw_image_at x 3 + draw_image_with_size_at x 2) x {} modes x 2 alphas x 2 contexts (none, layer) x 2 destinations on {}x{}", txs.len(), srcs3.len(), modes3.len(), w, h));
            run.par(txs.len() * modes3.len(), |i, l| {
                let xf = txs[i / modes3.len()];
                let mode = modes3[i % modes3.len()];
                for alpha in [1.0f32, 0.5] {
                    let o = Opts { mode, alpha, aa: true };
                    let mut calls: Vec<Op> = Vec::new();
                    for (x, y, rw, rh) in [(0., 0., 4., 4.), (0., 0., 2., 2.), (1., 0., 2., 2.), (2., 2., 2., 1.), (0., 0., 4., 2.)] {
                        for s in &srcs3 {
                            calls.push(Op::FillRect(x, y, rw, rh, s.clone(), o));
                        }
                    }
                    for (x, y) in [(0., 0.), (2., 0.), (0., 2.)] {
                        calls.push(Op::DrawImageAt(x, y, 2, 2, img.clone(), o));
                    }
                    calls.push(Op::DrawImageSize(4., 2., 0., 0., 2, 2, img.clone(), o));
                    calls.push(Op::DrawImageSize(2., 4., 2., 0., 2, 2, img.clone(), o));
                    for call in calls {
                        for layer in [false, true] {
                            for dst in [Dst::White, Dst::Distinct] {
                                let mut ops = Vec::new();
                                if layer {
                                    ops.push(Op::PushLayer(0.75, BlendMode::SrcOver));
                                }
                                ops.push(Op::SetTransform(xf));
                                ops.push(call.clone());
                                if layer {
                                    ops.push(Op::PopLayer);
                                }
                                run_one(run, 40_000 + i, l, &Scene { w, h, dst, ops });
                            }
                        }
                    }
                }
            });
        }
        // curves under strong minification (user units of 64 ... 1024 pixels): the outline is the true
        // curve's (f64), not what the library's own conversion of the curve makes of it
        {
            let ks = [64.0f32, 1024.0, 8192.0, 65536.0];
            let cmodes = [BlendMode::SrcOver, BlendMode::Src, BlendMode::Clear];
            run.bound("curves under minification (true outline)", format!("a cubic closed by its chord, a quad lens, two S-shaped cubics and a circle of four cubics in user units of {:?} pixels under the inverse scale: fill x {} modes x 2 aa, stroke (round joins, width 3 px) x {} modes, on a 48x48 distinct-pattern surface; pixels outside the true outline / stroke region keep their value", ks, cmodes.len(), cmodes.len()));
            run.par(ks.len() * cmodes.len(), |s, l| {
                let k = ks[s / cmodes.len()];
                let mode = cmodes[s % cmodes.len()];
                let xf: Xf = [1.0 / k, 0., 0., 1.0 / k, 0., 0.];
                let sc = |v: f32| v * k;
                let r = 0.5522848f32 * 18.0;
                let shapes: Vec<PathSpec> = vec![
                    PathSpec::new(vec![POp::M(sc(4.), sc(40.)), POp::C(sc(10.), sc(-20.), sc(38.), sc(-20.), sc(44.), sc(40.)), POp::Z]),
                    PathSpec::new(vec![POp::M(sc(5.), sc(24.)), POp::Q(sc(24.), sc(-10.), sc(43.), sc(24.)), POp::Q(sc(24.), sc(58.), sc(5.), sc(24.)), POp::Z]),
                    // an S-shaped cubic closed by its chord (far from any single quadratic)
                    PathSpec::new(vec![POp::M(sc(4.), sc(24.)), POp::C(sc(44.), sc(-40.), sc(4.), sc(88.), sc(44.), sc(24.)), POp::Z]),
                    PathSpec::new(vec![POp::M(sc(6.), sc(6.)), POp::C(sc(70.), sc(10.), sc(-22.), sc(40.), sc(42.), sc(44.)), POp::L(sc(6.), sc(44.)), POp::Z]),
                    PathSpec::new(vec![POp::M(sc(42.), sc(24.)), POp::C(sc(42.), sc(24. + r), sc(24. + r), sc(42.), sc(24.), sc(42.)), POp::C(sc(24. - r), sc(42.), sc(6.), sc(24. + r), sc(6.), sc(24.)), POp::C(sc(6.), sc(24. - r), sc(24. - r), sc(6.), sc(24.), sc(6.)), POp::C(sc(24. + r), sc(6.), sc(42.), sc(24. - r), sc(42.), sc(24.)), POp::Z]),
                ];
                for shape in &shapes {
                    for aa in [true, false] {
                        let scene = Scene { w: 48, h: 48, dst: Dst::Distinct, ops: vec![Op::SetTransform(xf), Op::Fill(shape.clone(), SrcSpec::Solid(0xff204080), Opts { mode, alpha: 1.0, aa })] };
                        l.states += 2;
                        l.transitions += 2;
                        l.traces += 1;
                        l.evals += 1;
                        match super::c08::curved_fill_leaves_the_outside_alone(&scene) {
                            Ok((h, n)) => {
                                l.outcome(h);
                                if n > 0 {
                                    l.nontrivial += 1;
                                }
                            }
                            Err(v) => run.report(52_000 + s, v),
                        }
                    }
                    let st = StyleSpec { width: 3.0 * k, cap: 1, join: 1, miter: 4., dash: vec![], offset: 0. };
                    let scene = Scene { w: 48, h: 48, dst: Dst::Distinct, ops: vec![Op::SetTransform(xf), Op::Stroke(shape.clone(), st, SrcSpec::Solid(0xff204080), Opts { mode, alpha: 1.0, aa: true })] };
                    l.states += 2;
                    l.transitions += 2;
                    l.traces += 1;
                    l.evals += 1;
                    match super::c04::curved_stroke_leaves_the_outside_alone(&scene) {
                        Ok(Some(h)) => {
                            l.outcome(h);
                            l.nontrivial += 1;
                        }
                        Ok(None) => l.count("curved_strokes_left_undecided", 1),
                        Err(v) => run.report(52_500 + s, v),
                    }
                }
            });
        }
        // dashed strokes: the shape is the dashes of the arc-length model (not of the library's own
        // dasher): what lies in the gaps keeps its value, whatever the mode
        {
            let arrays: Vec<(Vec<f32>, f32)> = vec![(vec![8., 4., 6.], -3.), (vec![5.], -2.), (vec![5.], 2.), (vec![7., 5.], -4.), (vec![7., 5.], 0.), (vec![3., 6., 4.], 0.), (vec![3., 6., 4.], -16.), (vec![9.], -27.)];
            let dmodes = [BlendMode::SrcOver, BlendMode::Clear, BlendMode::Src, BlendMode::DstIn];
            run.bound("dashed strokes (arc-length model)", format!("{} (dash array, offset) pairs (odd and even lengths, negative offsets) x 3 polylines x {} modes x 2 widths on a white 40x40 surface: pixels more than 0.75 px outside every dash of the model keep their value", arrays.len(), dmodes.len()));
            run.par(arrays.len() * dmodes.len(), |s, l| {
                let (arr, off) = &arrays[s / dmodes.len()];
                let mode = dmodes[s % dmodes.len()];
                for pts in [vec![(5.3f32, 6.1f32), (33.9, 7.4), (18.8, 34.6)], vec![(4.9, 33.8), (34.2, 18.6)], vec![(6.8, 19.9), (20.1, 21.3), (33.1, 32.7), (19.7, 5.2)]] {
                    for (wd, cap) in [(2.0f32, 0u8), (5.0, 1)] {
                        for closed in [false, true] {
                            let mut ops: Vec<POp> = pts.iter().enumerate().map(|(i, p)| if i == 0 { POp::M(p.0, p.1) } else { POp::L(p.0, p.1) }).collect();
                            if closed {
                                ops.push(POp::Z);
                            }
                            let st = StyleSpec { width: wd, cap, join: 1, miter: 4., dash: arr.clone(), offset: *off };
                            let scene = Scene { w: 40, h: 40, dst: Dst::White, ops: vec![Op::Stroke(PathSpec::new(ops), st, SrcSpec::Solid(0x80002040), Opts { mode, alpha: 1.0, aa: true })] };
                            l.states += 2;
                            l.transitions += 1;
                            l.traces += 1;
                            l.evals += 1;
                            match super::c09::dashes_leave_the_rest_alone(&scene) {
                                Ok(Some(h)) => {
                                    l.outcome(h);
                                    l.nontrivial += 1;
                                }
                                Ok(None) => l.count("dashed_cases_left_undecided_by_the_model", 1),
                                Err(v) => run.report(51_000 + s, v),
                            }
                        }
                    }
                }
            });
        }
        // vertices thousands of pixels beyond the surface (8191 .. 32767 and more), next to shapes that
        // lie on the surface: judged by the exact model, not by a reference fill
        {
            let fars = [8191, 8192, 9000, 16384, 30000, -8192, -20000];
            let fmodes = [BlendMode::SrcOver, BlendMode::Clear, BlendMode::Src];
            run.bound("far vertices (exact model)", format!("a quadrilateral with one vertex at x or y = {:?} plus a rectangle further along the same rows / columns x {} modes x 2 aa x 2 rules on 48x48, zero coverage decided by the exact 4x4 model", fars, fmodes.len()));
            run.par(fars.len() * 2, |s, l| {
                let far = fars[s / 2] as f32;
                let vertical = s % 2 == 0;
                let t = |x: f32, y: f32| if vertical { (x, y) } else { (y, x) };
                let pts = [t(5.0, 5.0), t(15.0, 5.0), t(15.0, far), t(5.0, 30.0)];
                let r0 = t(30.0, 10.0);
                let r1 = t(36.0, 22.0);
                let mut ops: Vec<POp> = pts.iter().enumerate().map(|(i, p)| if i == 0 { POp::M(p.0, p.1) } else { POp::L(p.0, p.1) }).collect();
                ops.push(POp::Z);
                ops.extend([POp::M(r0.0, r0.1), POp::L(r1.0, r0.1), POp::L(r1.0, r1.1), POp::L(r0.0, r1.1), POp::Z]);
                for mode in fmodes {
                    for aa in [true, false] {
                        for eo in [false, true] {
                            let scene = Scene { w: 48, h: 48, dst: Dst::Distinct, ops: vec![Op::Fill(PathSpec { evenodd: eo, ops: ops.clone() }, SrcSpec::Solid(0xff204080), Opts { mode, alpha: 1.0, aa })] };
                            l.states += 2;
                            l.transitions += 1;
                            l.traces += 1;
                            l.evals += 1;
                            match eval_exact(&scene) {
                                Ok(h) => {
                                    l.outcome(h);
                                    l.nontrivial += 1;
                                }
                                Err(v) => run.report(50_000 + s, v),
                            }
                        }
                    }
                }
            });
        }
        // several contours in one path, judged by the exact model (a reference fill through the same
        // antialias mode shares the library's idea of the winding rule and of the winding carried in
        // from beyond the left border): same-sense nested rings (winding 2 in the hole), a contour
        // wholly left / right / above the surface next to one on it, rings across each border
        {
            let r = |x: f32, y: f32, w: f32, h: f32, cw: bool| -> Vec<POp> {
                if cw { vec![POp::M(x, y), POp::L(x + w, y), POp::L(x + w, y + h), POp::L(x, y + h), POp::Z] } else { vec![POp::M(x, y), POp::L(x, y + h), POp::L(x + w, y + h), POp::L(x + w, y), POp::Z] }
            };
            let mut shapes: Vec<Vec<POp>> = Vec::new();
            for cw2 in [true, false] {
                // nested rings, same and opposite sense
                shapes.push([r(2.5, 2.25, 19., 18.5, true), r(7.25, 6.5, 9.5, 9.75, cw2)].concat());
                // a contour wholly beyond one border and a contour on the surface, on the same rows / columns
                shapes.push([r(-30., 5., 20., 12., true), r(10., 5.5, 8., 10., cw2)].concat());
                shapes.push([r(-30., 5., 20., 12., true), r(-50.5, 3., 12., 16., cw2), r(10., 5.5, 8., 10., true)].concat());
                shapes.push([r(40., 5., 20., 12., true), r(10., 5.5, 8., 10., cw2)].concat());
                shapes.push([r(5., -30., 12., 20., true), r(5.5, 10., 10., 8., cw2)].concat());
                // rings across the left, the top and the right border
                shapes.push([r(-9., 4., 18., 16., true), r(-4.75, 8.25, 9.5, 7.5, cw2)].concat());
                shapes.push([r(4., -9., 16., 18., true), r(8.25, -4.75, 7.5, 9.5, cw2)].concat());
                shapes.push([r(15., 4., 18., 16., true), r(19.25, 8.25, 9.5, 7.5, cw2)].concat());
            }
            let fmodes = [BlendMode::SrcOver, BlendMode::Clear, BlendMode::Src, BlendMode::DstIn];
            run.bound("several contours (exact model)", format!("{} paths of two or three rectangles (nested same / opposite sense, one wholly beyond a border, rings across a border) x {} modes x 2 aa x 2 rules on 24x24, zero coverage decided by the exact 4x4 model", shapes.len(), fmodes.len()));
            run.par(shapes.len(), |s, l| {
                for mode in fmodes {
                    for aa in [true, false] {
                        for eo in [false, true] {
                            let scene = Scene { w: 24, h: 24, dst: Dst::Distinct, ops: vec![Op::Fill(PathSpec { evenodd: eo, ops: shapes[s].clone() }, SrcSpec::Solid(0xff204080), Opts { mode, alpha: 1.0, aa })] };
                            l.states += 2;
                            l.transitions += 1;
                            l.traces += 1;
                            l.evals += 1;
                            match eval_exact(&scene) {
                                Ok(h) => {
                                    l.outcome(h);
                                    l.nontrivial += 1;
                                }
                                Err(v) => run.report(50_500 + s, v),
                            }
                        }
                    }
                }
            });
        }
        // long strips (spans and masks beyond 256 / 1024 / 2048 / 8192 pixels)
        let hmodes = [BlendMode::SrcOver, BlendMode::Src, BlendMode::Clear, BlendMode::DstIn];
        run.bound("wide-tall", format!("the long-strip scenes shared with C03 (300x2, 2x300, 8200x2, 2x8200; far-end draws, full-length sliver fill, full-length mask) x {} modes", hmodes.len()));
        run.par(hmodes.len() * 4, |i, l| {
            for scene in super::c03::wide_scenes(hmodes[i / 4], i % 2 == 1, if (i / 2) % 2 == 1 { 8200 } else { 300 }) {
                run_one(run, 20_000 + i, l, &scene);
            }
        });
        super::mixed::explore_mixed(run, "C02", owns, if deep { 5 } else { 4 }, false);
    }

    fn replay(&self, case: &str) -> Result<Option<Violation>, String> {
        if let Some(rest) = case.strip_prefix("curved | ") {
            let sc = parse_scene(rest)?;
            return Ok(if sc.ops.iter().any(|o| matches!(o, Op::Stroke(..))) { super::c04::curved_stroke_leaves_the_outside_alone(&sc).err() } else { super::c08::curved_fill_leaves_the_outside_alone(&sc).err() });
        }
        if let Some(rest) = case.strip_prefix("dashed | ") {
            return Ok(super::c09::dashes_leave_the_rest_alone(&parse_scene(rest)?).err());
        }
        if let Some(rest) = case.strip_prefix("exact | ") {
            return Ok(eval_exact(&parse_scene(rest)?).err());
        }
        let scene = parse_scene(case)?;
        if let Err(v) = run_scene("C02", &scene, owns, &classify) {
            return Ok(Some(v));
        }
        Ok(super::mixed::eval_mixed(&scene, &owns, false).err())
    }
}
