//! C08 Curved paths fill their true interior (quads, cubics, arcs, any transform).
//!
//! Paths with off-grid control points are filled (and used as clip paths); every pixel whose
//! centre is farther than 1 + sqrt(1/2) px from an f64 fine flattening of the transformed
//! outline must be fully painted when the winding rule holds at its centre and untouched
//! otherwise.

use crate::engine::*;
use crate::model::curve::*;
use crate::model::img::{mat_apply, xf64};
use crate::scene::*;
use raqote::*;

pub struct C08;

const SEGS: usize = 96;

/// closed device-space polylines of the path under the fill semantics, and the extra margin
/// owed to arcs (PathBuilder::arc is only within 0.5% of r of the true circle)
pub fn outline(p: &PathSpec, xf: &Xf) -> (Vec<Vec<P2>>, f64) {
    let m = xf64(xf);
    let tp = |x: f64, y: f64| mat_apply(&m, x, y);
    let scale = (m[0] * m[0] + m[1] * m[1]).sqrt().max((m[2] * m[2] + m[3] * m[3]).sqrt());
    let mut polys: Vec<Vec<P2>> = Vec::new();
    let mut cur: Vec<P2> = Vec::new(); // device-space points of the open subpath
    let mut cursor: Option<P2> = None; // user space
    let mut start: Option<P2> = None;
    let mut extra = 0.0f64;
    fn flush(polys: &mut Vec<Vec<P2>>, cur: &mut Vec<P2>) {
        if cur.len() >= 2 {
            polys.push(std::mem::take(cur));
        } else {
            cur.clear();
        }
    }
    let line_to = |cur: &mut Vec<P2>, cursor: &mut Option<P2>, start: &mut Option<P2>, x: f64, y: f64| {
        if cursor.is_none() {
            *start = Some((x, y));
        }
        cur.push(tp(x, y));
        *cursor = Some((x, y));
    };
    for op in &p.ops {
        match *op {
            POp::M(x, y) => {
                flush(&mut polys, &mut cur);
                cursor = Some((x as f64, y as f64));
                start = cursor;
                cur.push(tp(x as f64, y as f64));
            }
            POp::L(x, y) => line_to(&mut cur, &mut cursor, &mut start, x as f64, y as f64),
            POp::Q(cx, cy, x, y) => {
                let c = (cx as f64, cy as f64);
                let s = match cursor {
                    Some(s) => s,
                    None => {
                        start = Some(c);
                        cur.push(tp(c.0, c.1));
                        c
                    }
                };
                let q = Curve::Quad(s, c, (x as f64, y as f64));
                // enough segments to keep the polyline within 0.005 device px of the curve
                let a2 = ((s.0 - 2.0 * c.0 + x as f64).powi(2) + (s.1 - 2.0 * c.1 + y as f64).powi(2)).sqrt() * scale;
                let n = SEGS.max((a2 / 0.04).sqrt().ceil() as usize);
                for pt in q.sample(n).into_iter().skip(1) {
                    cur.push(tp(pt.0, pt.1));
                }
                cursor = Some((x as f64, y as f64));
            }
            POp::C(ax, ay, bx, by, x, y) => {
                let a = (ax as f64, ay as f64);
                let s = match cursor {
                    Some(s) => s,
                    None => {
                        start = Some(a);
                        cur.push(tp(a.0, a.1));
                        a
                    }
                };
                let q = Curve::Cubic(s, a, (bx as f64, by as f64), (x as f64, y as f64));
                let b = (bx as f64, by as f64);
                let e = (x as f64, y as f64);
                let d1 = ((s.0 - 2.0 * a.0 + b.0).powi(2) + (s.1 - 2.0 * a.1 + b.1).powi(2)).sqrt();
                let d2 = ((a.0 - 2.0 * b.0 + e.0).powi(2) + (a.1 - 2.0 * b.1 + e.1).powi(2)).sqrt();
                let n = SEGS.max((3.0 * d1.max(d2) * scale / 0.04).sqrt().ceil() as usize);
                for pt in q.sample(n).into_iter().skip(1) {
                    cur.push(tp(pt.0, pt.1));
                }
                cursor = Some((x as f64, y as f64));
            }
            POp::A(cx, cy, r, st, sw) => {
                let (cx, cy, r, st) = (cx as f64, cy as f64, r as f64, st as f64);
                let sw = (sw as f64).max(-2.0 * std::f64::consts::PI).min(2.0 * std::f64::consts::PI);
                extra = extra.max(0.005 * r * scale + 1e-3);
                // straight line to the arc's start, then the true circular arc
                line_to(&mut cur, &mut cursor, &mut start, cx + r * st.cos(), cy + r * st.sin());
                for i in 1..=SEGS * 2 {
                    let a = st + sw * i as f64 / (SEGS * 2) as f64;
                    cur.push(tp(cx + r * a.cos(), cy + r * a.sin()));
                }
                let e = st + sw;
                cursor = Some((cx + r * e.cos(), cy + r * e.sin()));
            }
            POp::Z => {
                flush(&mut polys, &mut cur);
                cursor = start;
                if let Some(s) = start {
                    cur.push(tp(s.0, s.1));
                }
            }
        }
    }
    flush(&mut polys, &mut cur);
    (polys, extra)
}

#[derive(Clone)]
struct Case {
    w: i32,
    path: PathSpec,
    xf: Xf,
    clip: bool,
    /// the call is preceded by push_clip of a path that covers the whole surface (and popped
    /// afterwards): nothing changes, unless something of that path leaks into the next one
    pre: bool,
}

fn scene_of(c: &Case) -> Scene {
    let white = SrcSpec::Solid(0xffffffff);
    let mut ops = Vec::new();
    if c.pre {
        ops.push(Op::PushClip(PathSpec::rect(-5.5, -4.25, c.w as f32 + 11., c.w as f32 + 9.)));
    }
    if c.xf != IDENT {
        ops.push(Op::SetTransform(c.xf));
    }
    if c.clip {
        ops.push(Op::PushClip(c.path.clone()));
        ops.push(Op::SetTransform(IDENT));
        ops.push(Op::Fill(PathSpec::rect(-1., -1., c.w as f32 + 2., c.w as f32 + 2.), white, Opts::default()));
        ops.push(Op::PopClip);
    } else {
        ops.push(Op::Fill(c.path.clone(), white, Opts::default()));
    }
    if c.pre {
        ops.push(Op::PopClip);
    }
    Scene { w: c.w, h: c.w, dst: Dst::Zero, ops }
}

fn eval(c: &Case) -> Result<(u64, u64), Violation> {
    let scene = scene_of(c);
    let case = scene.to_string();
    let got = super::common::render(&scene).map_err(|p| Violation::new(if c.clip { "push_clip/panic" } else { "fill/panic" }, case.clone(), p))?;
    let (polys, extra) = outline(&c.path, &c.xf);
    let margin = 1.0 + std::f64::consts::FRAC_1_SQRT_2 + 2e-3 + extra;
    let w = c.w;
    let mut asserted = 0u64;
    for y in 0..w {
        for x in 0..w {
            let ctr = (x as f64 + 0.5, y as f64 + 0.5);
            let d = dist_outline(ctr, &polys);
            if d <= margin {
                continue;
            }
            let wn = winding_polylines(ctr, &polys);
            let inside = if c.path.evenodd { wn & 1 != 0 } else { wn != 0 };
            let p = got[(y * w + x) as usize];
            asserted += 1;
            let want = if inside { 0xffffffffu32 } else { 0 };
            if p != want {
                return Err(Violation::new(
                    format!("{}/{}", if c.clip { "clip" } else { "fill" }, if inside { "interior-pixel-not-fully-painted" } else { "exterior-pixel-touched" }),
                    case,
                    format!("pixel ({},{}) is {:.3} px from the outline, winding number {} ({}) => expected {:#010x}, observed {:#010x}", x, y, d, wn, if c.path.evenodd { "EvenOdd" } else { "NonZero" }, want, p),
                ));
            }
        }
    }
    Ok((hash64(&got), asserted))
}

const PTS6: [f32; 6] = [-3.3, 0.4, 2.7, 6.1, 9.6, 14.2];
const PTS5L: [f32; 5] = [-6., 6., 18., 30., 42.];

fn grid(v: &[f32]) -> Vec<(f32, f32)> {
    let mut g = Vec::new();
    for &y in v {
        for &x in v {
            g.push((x, y));
        }
    }
    g
}

fn xfs() -> Vec<Xf> {
    vec![IDENT, [0.8660254, 0.5, -0.5, 0.8660254, 4., -3.], [1., 0., 0., 1., 0.5, 0.25], [1.5, 0., 0., 0.75, -2., 2.], [1., 0., 0.5, 1., -2., 0.], [-1., 0., 0., 1., 12., 0.], [0., 1., -1., 0., 12., 0.]]
}

/// C02's clause for curved fills with a reference that is not the library's own fill: every pixel
/// farther than the margin from the true (f64) outline and outside it by the winding rule keeps its
/// value, whatever the mode and the destination. `scene` = [set_transform?, fill(path, src, opts)].
pub fn curved_fill_leaves_the_outside_alone(scene: &Scene) -> Result<(u64, u64), Violation> {
    let case = format!("curved | {}", scene);
    let mut xf = IDENT;
    let mut fill = None;
    for op in &scene.ops {
        match op {
            Op::SetTransform(t) => xf = *t,
            Op::Fill(p, _, o) => fill = Some((p.clone(), *o)),
            _ => {}
        }
    }
    let (path, o) = fill.ok_or_else(|| Violation::new("harness/no-fill", case.clone(), String::new()))?;
    let got = super::common::render(scene).map_err(|p| Violation::new("fill/panic", case.clone(), p))?;
    let before = scene.dst.pixels(scene.w, scene.h);
    let (polys, extra) = outline(&path, &xf);
    let margin = 1.0 + std::f64::consts::FRAC_1_SQRT_2 + 2e-3 + extra;
    let mut asserted = 0u64;
    for y in 0..scene.h {
        for x in 0..scene.w {
            let ctr = (x as f64 + 0.5, y as f64 + 0.5);
            if dist_outline(ctr, &polys) <= margin {
                continue;
            }
            let wn = winding_polylines(ctr, &polys);
            if if path.evenodd { wn & 1 != 0 } else { wn != 0 } {
                continue;
            }
            asserted += 1;
            let i = (y * scene.w + x) as usize;
            if got[i] != before[i] {
                return Err(Violation::new("curved/outside-changed/fill-outside-the-true-outline", case, format!("pixel ({},{}) lies outside the true outline by more than {:.3} px but changed {:#010x} -> {:#010x}; mode {:?}, aa {}", x, y, margin, before[i], got[i], o.mode, o.aa)));
            }
        }
    }
    Ok((hash64(&got), asserted))
}

fn account(run: &Run, shard: usize, l: &mut Local, c: &Case, sample: bool) {
    l.states += 1;
    l.transitions += scene_of(c).ops.len() as u64;
    l.traces += 1;
    l.evals += 1;
    if sample {
        run.sample(scene_of(c).to_string());
    }
    match eval(c) {
        Ok((h, n)) => {
            l.outcome(h);
            l.count("pixels_asserted", n);
            if n > 0 {
                l.nontrivial += 1;
            }
        }
        Err(v) => run.report(shard, v),
    }
}

impl Check for C08 {
    fn id(&self) -> &'static str {
        "C08"
    }
    fn title(&self) -> &'static str {
        "Curved paths fill their true interior (quads, cubics, arcs, any transform)"
    }

    fn run(&self, run: &Run) {
        let q = run.tier.quick();
        run.rule("paths M a; (Q|C|arc)+ [Z] [more ops] with control points from off-grid sets (non-monotonic, looping, cusped curves, points outside the surface) x both winding rules x transforms, filled with opaque white and used as clip paths; every pixel farther than 1 + sqrt(1/2) px (+0.5% r for arcs) from the f64 outline is asserted; non-trivial = at least one pixel asserted");
        let g6 = grid(&PTS6);
        let g4 = grid(&[0.4, 2.7, 9.6, 14.2]);
        let tf = xfs();
        // single quads, all 36^3
        run.bound("single quads", format!("36^3 quads M a Q b c (implicit close) x 2 rules{}", if q { "" } else { " x 3 transforms" }));
        run.par(g6.len() * g6.len(), |s, l| {
            let (a, b) = (g6[s / g6.len()], g6[s % g6.len()]);
            for c in &g6 {
                for eo in [false, true] {
                    for (ti, xf) in tf.iter().enumerate().take(if q { 1 } else { 3 }) {
                        let path = PathSpec { evenodd: eo, ops: vec![POp::M(a.0, a.1), POp::Q(b.0, b.1, c.0, c.1)] };
                        account(run, s, l, &Case { w: 12, path, xf: *xf, clip: false, pre: false }, s == 100 && c.0 == 9.6 && c.1 == 9.6 && !eo && ti == 0);
                    }
                }
            }
        });
        // single cubics
        let gc: &Vec<(f32, f32)> = if q { &g4 } else { &g6 };
        run.bound("single cubics", format!("{}^4 cubics M a C b c d x 2 rules", gc.len()));
        run.par(gc.len() * gc.len(), |s, l| {
            let (a, b) = (gc[s / gc.len()], gc[s % gc.len()]);
            for c in gc.iter() {
                for d in gc.iter() {
                    for eo in [false, true] {
                        let path = PathSpec { evenodd: eo, ops: vec![POp::M(a.0, a.1), POp::C(b.0, b.1, c.0, c.1, d.0, d.1)] };
                        account(run, 10_000 + s, l, &Case { w: 12, path, xf: IDENT, clip: false, pre: false }, s == 7 && c.0 == 9.6 && d.1 == 2.7 && !eo);
                    }
                }
                if run.expired() {
                    return;
                }
            }
        });
        // compound paths: quad+quad, cubic+line+quad, curve after Z, curve after lone MoveTo, curve first; transforms; clip
        let gs = grid(&[0.4, 6.1, 14.2]);
        run.bound("compound paths", format!("9^4 (quad+quad, cubic+line+quad+Z+quad, curve-first, curve after Z, MoveTo onto the current point) x 2 rules x {} transforms x fill/clip", tf.len()));
        run.par(gs.len() * gs.len(), |s, l| {
            let (a, b) = (gs[s / gs.len()], gs[s % gs.len()]);
            for c in &gs {
                for d in &gs {
                    let shapes: Vec<Vec<POp>> = vec![
                        vec![POp::M(a.0, a.1), POp::Q(b.0, b.1, c.0, c.1), POp::Q(d.0, d.1, a.0 + 1.3, a.1 + 2.1)],
                        vec![POp::M(a.0, a.1), POp::C(b.0, b.1, c.0, c.1, d.0, d.1), POp::L(6.1, 0.4), POp::Q(c.0, c.1, b.0, b.1), POp::Z, POp::Q(d.0, d.1, 9.6, 9.6)],
                        vec![POp::Q(a.0, a.1, b.0, b.1), POp::C(c.0, c.1, d.0, d.1, 2.7, 9.6)],
                        vec![POp::M(a.0, a.1), POp::L(b.0, b.1), POp::L(c.0, c.1), POp::Z, POp::C(d.0, d.1, 9.6, 2.7, 2.7, 9.6), POp::M(6.1, 6.1), POp::Q(d.0, d.1, 0.4, 9.6)],
                        // a MoveTo exactly onto the current point still ends the open subpath (it is
                        // closed back to *its* start) and begins a new one there
                        vec![POp::M(a.0, a.1), POp::Q(b.0, b.1, c.0, c.1), POp::M(c.0, c.1), POp::Q(d.0, d.1, 9.6, 2.7)],
                        vec![POp::M(a.0, a.1), POp::L(b.0, b.1), POp::M(b.0, b.1), POp::C(c.0, c.1, d.0, d.1, 2.7, 9.6), POp::M(2.7, 9.6), POp::L(9.6, 9.6)],
                    ];
                    for (si, ops) in shapes.into_iter().enumerate() {
                        for eo in [false, true] {
                            for (ti, xf) in tf.iter().enumerate() {
                                if q && ti > 1 {
                                    continue;
                                }
                                for clip in [false, true] {
                                    if clip && (ti > 2 || q && si > 1) {
                                        continue;
                                    }
                                    let path = PathSpec { evenodd: eo, ops: ops.clone() };
                                    account(run, 20_000 + s, l, &Case { w: 12, path: path.clone(), xf: *xf, clip, pre: false }, s == 4 && si == 1 && eo && ti == 1 && clip && d.0 == 6.1 && c.1 == 0.4);
                                    if ti <= 1 && !eo {
                                        account(run, 20_000 + s, l, &Case { w: 12, path, xf: *xf, clip, pre: true }, false);
                                    }
                                }
                            }
                        }
                    }
                }
            }
        });
        // the same device-space curves described in user units 1000x (and 1/300, 1/1000) the size under the
        // inverse scale: anything that measures tolerances or subdivision in user space shows here
        run.bound("conjugated scales", "9^3 quads and 9^4 cubics (control points x k under scale 1/k, k in {1000, 300, 0.001}), NonZero, fill and clip".to_string());
        run.par(gs.len() * gs.len(), |s, l| {
            let (a, b) = (gs[s / gs.len()], gs[s % gs.len()]);
            for k in [1000.0f32, 300.0, 0.001] {
                let xf: Xf = [1.0 / k, 0., 0., 1.0 / k, 0.3, -0.2];
                let sc = |p: (f32, f32)| (p.0 * k, p.1 * k);
                for c in &gs {
                    let (pa, pb, pc) = (sc(a), sc(b), sc(*c));
                    let path = PathSpec { evenodd: false, ops: vec![POp::M(pa.0, pa.1), POp::Q(pb.0, pb.1, pc.0, pc.1)] };
                    account(run, 25_000 + s, l, &Case { w: 16, path, xf, clip: false, pre: false }, false);
                    for d in &gs {
                        let pd = sc(*d);
                        let path = PathSpec { evenodd: false, ops: vec![POp::M(pa.0, pa.1), POp::C(pb.0, pb.1, pc.0, pc.1, pd.0, pd.1)] };
                        account(run, 25_000 + s, l, &Case { w: 16, path: path.clone(), xf, clip: false, pre: false }, s == 10 && k == 1000.0 && c.0 == 6.1 && d.1 == 14.2);
                        if !q || (s % 3 == 0) {
                            account(run, 25_000 + s, l, &Case { w: 16, path, xf, clip: true, pre: false }, false);
                        }
                    }
                }
            }
        });
        // ... and in user units of 4096, 65536 and 2^20 pixels: the determinant of the transform (2^-24,
        // 2^-32, 2^-40) is below f32::EPSILON and still nowhere near singular
        run.bound("conjugated scales, tiny determinants", "9^3 quads and 9^2 x 3 cubics (control points x k under scale 1/k, k in {4096, 65536, 2^20}), both rules, fill and clip".to_string());
        run.par(gs.len() * gs.len(), |s, l| {
            let (a, b) = (gs[s / gs.len()], gs[s % gs.len()]);
            for k in [4096.0f32, 65536.0, 1048576.0] {
                let xf: Xf = [1.0 / k, 0., 0., 1.0 / k, 0.25, -0.5];
                let sc = |p: (f32, f32)| (p.0 * k, p.1 * k);
                for (ci, c) in gs.iter().enumerate() {
                    let (pa, pb, pc) = (sc(a), sc(b), sc(*c));
                    for evenodd in [false, true] {
                        let path = PathSpec { evenodd, ops: vec![POp::M(pa.0, pa.1), POp::Q(pb.0, pb.1, pc.0, pc.1)] };
                        account(run, 25_500 + s, l, &Case { w: 16, path: path.clone(), xf, clip: false, pre: false }, false);
                        account(run, 25_500 + s, l, &Case { w: 16, path, xf, clip: true, pre: false }, false);
                    }
                    if ci % 3 == 0 {
                        let pd = sc(gs[(ci + s) % gs.len()]);
                        let path = PathSpec { evenodd: false, ops: vec![POp::M(pa.0, pa.1), POp::C(pb.0, pb.1, pc.0, pc.1, pd.0, pd.1)] };
                        account(run, 25_500 + s, l, &Case { w: 16, path, xf, clip: false, pre: false }, false);
                    }
                }
            }
        });
        // arcs of sweep zero inside a polygon: the arc contributes its (start = end) point as a vertex
        run.bound("zero-sweep arcs", "M a; arc(c, r, start, 0); L b over 4 x 4 end points x 8 start angles x 2 radii, also as the first op and followed by a real arc; fill and clip".to_string());
        run.par(8 * 2, |s, l| {
            let pi = std::f32::consts::PI;
            let st = (s / 2) as f32 * pi / 4. + 0.2;
            let r = [4.0f32, 7.5][s % 2];
            for a in [(0.4f32, 0.4f32), (9.6, 0.4), (0.4, 9.6), (6.1, 11.2)] {
                for b in [(11.3f32, 6.1f32), (2.7, 0.4), (0.4, 6.1), (9.6, 9.6)] {
                    for clip in [false, true] {
                        let path = PathSpec { evenodd: false, ops: vec![POp::M(a.0, a.1), POp::A(6.0, 6.0, r, st, 0.0), POp::L(b.0, b.1)] };
                        account(run, 29_000 + s, l, &Case { w: 12, path, xf: IDENT, clip, pre: false }, false);
                        let path = PathSpec { evenodd: false, ops: vec![POp::A(6.0, 6.0, r, st, 0.0), POp::L(a.0, a.1), POp::L(b.0, b.1)] };
                        account(run, 29_000 + s, l, &Case { w: 12, path, xf: [1., 0., 0.25, 1., 0., 0.], clip, pre: false }, false);
                        let path = PathSpec { evenodd: false, ops: vec![POp::M(a.0, a.1), POp::A(6.0, 6.0, r, st, -0.0), POp::A(6.0, 6.0, r * 0.5, st + 1.0, 2.5), POp::L(b.0, b.1)] };
                        account(run, 29_000 + s, l, &Case { w: 12, path, xf: IDENT, clip, pre: false }, false);
                    }
                }
            }
        });
        // arcs
        let pi = std::f32::consts::PI;
        let sweeps: Vec<f32> = vec![pi / 3., -pi / 3., pi, -pi, 1.5 * pi, -1.5 * pi, 2. * pi, -2. * pi, 7., -7.];
        run.bound("arcs", format!("3 radii x 8 start angles x {} sweeps x 2 centres x with/without leading MoveTo x 2 rules x {} transforms", sweeps.len(), if q { 2 } else { tf.len() }));
        run.par(8 * sweeps.len(), |s, l| {
            let st = (s / sweeps.len()) as f32 * pi / 4. + 0.1;
            let sw = sweeps[s % sweeps.len()];
            for r in [2.0f32, 5.0, 9.0] {
                for (cx, cy) in [(6.0f32, 6.0f32), (2.5, 9.5)] {
                    for lead in [false, true] {
                        for eo in [false, true] {
                            for (ti, xf) in tf.iter().enumerate() {
                                if q && ti > 1 {
                                    continue;
                                }
                                let mut ops = Vec::new();
                                if lead {
                                    ops.push(POp::M(cx, cy));
                                }
                                ops.push(POp::A(cx, cy, r, st, sw));
                                if lead {
                                    ops.push(POp::Z);
                                }
                                let path = PathSpec { evenodd: eo, ops };
                                account(run, 30_000 + s, l, &Case { w: 12, path, xf: *xf, clip: false, pre: false }, s == 13 && r == 5.0 && lead && !eo && ti == 0 && cx == 6.0);
                            }
                        }
                    }
                }
            }
        });
        // rings: two arcs round the same centre, each sense and each length of sweep (the hole of a
        // NonZero ring exists only when the two contours really turn in opposite senses)
        let rs: Vec<f32> = vec![2. * pi, -2. * pi, 7., -7., 1.75 * pi, -1.75 * pi];
        run.bound("arc rings", format!("outer arc (r 5) and inner arc (r 2.5) x {}^2 sweeps x 4 start angle pairs x 2 rules x separate / continued subpaths x fill/clip on 12x12", rs.len()));
        run.par(rs.len() * rs.len(), |s, l| {
            let (s1, s2) = (rs[s / rs.len()], rs[s % rs.len()]);
            for (a1, a2) in [(0.0f32, 0.0f32), (0.3, 2.0), (pi, -1.0), (5.5, 0.0)] {
                for eo in [false, true] {
                    for sep in [false, true] {
                        let mut ops = vec![POp::A(6.0, 6.0, 5.0, a1, s1), POp::Z];
                        if sep {
                            ops.push(POp::M(6.0 + 2.5 * a2.cos(), 6.0 + 2.5 * a2.sin()));
                        }
                        ops.push(POp::A(6.0, 6.0, 2.5, a2, s2));
                        ops.push(POp::Z);
                        for clip in [false, true] {
                            account(run, 35_000 + s, l, &Case { w: 12, path: PathSpec { evenodd: eo, ops: ops.clone() }, xf: IDENT, clip, pre: false }, false);
                        }
                    }
                }
            }
        });
        // many turns in the same sense: winding numbers beyond 8-bit ranges on every row they cross
        run.bound("many same-sense turns", "130 / 260 coincident full-turn arcs (r 4) and a coil of 130 arcs with radii 2..5, both senses, NonZero and EvenOdd, fill and clip on 12x12".to_string());
        run.par(6, |s, l| {
            let n = if s % 3 == 1 { 260 } else { 130 };
            let sw = if s / 3 == 0 { 2.0 * pi } else { -2.0 * pi };
            let mut ops = Vec::new();
            for i in 0..n {
                let r = if s % 3 == 2 { 2.0 + 3.0 * i as f32 / n as f32 } else { 4.0 };
                ops.push(POp::A(6.0, 6.0, r, 0.0, sw));
                ops.push(POp::Z);
            }
            for eo in [false, true] {
                for clip in [false, true] {
                    account(run, 36_000 + s, l, &Case { w: 12, path: PathSpec { evenodd: eo, ops: ops.clone() }, xf: IDENT, clip, pre: false }, false);
                }
            }
        });
        // curves lying entirely beside the surface that belong to a shape reaching onto it (they carry
        // the winding of the rows they span)
        run.bound("curves beside the surface", "shapes whose curved side (cubic, quad, arc) lies wholly left of, right of, above or below the 12x12 surface while the rest reaches onto it x 2 rules x fill/clip x 2 transforms".to_string());
        run.par(12, |s, l| {
            let side = s % 4;
            let kind = s / 4;
            // the shape in a frame where the curve bulges to the left of x = 0
            let curve = match kind {
                0 => POp::C(-9.0, 3.5, -9.0, 8.5, -2.0, 10.5),
                1 => POp::Q(-12.0, 6.0, -2.0, 10.5),
                _ => POp::C(-4.0, 1.5, -30.0, 6.0, -2.0, 10.5),
            };
            let ops = vec![POp::M(7.0, 1.5), POp::L(-2.0, 1.5), curve, POp::L(7.0, 10.5), POp::Z];
            // rotate the frame by quarter turns about the centre of the surface
            let xf: Xf = [[1., 0., 0., 1., 0., 0.], [0., 1., -1., 0., 12., 0.], [-1., 0., 0., -1., 12., 12.], [0., -1., 1., 0., 0., 12.]][side];
            for eo in [false, true] {
                for clip in [false, true] {
                    account(run, 37_000 + s, l, &Case { w: 12, path: PathSpec { evenodd: eo, ops: ops.clone() }, xf, clip, pre: false }, false);
                    let xs: Xf = [xf[0] * 0.5, xf[1] * 0.5, xf[2] * 0.5, xf[3] * 0.5, xf[4] * 0.5 + 3.0, xf[5] * 0.5 + 3.0];
                    account(run, 37_000 + s, l, &Case { w: 12, path: PathSpec { evenodd: eo, ops: ops.iter().map(|o| match *o { POp::M(x, y) => POp::M(2.0 * x - 6.0, 2.0 * y - 6.0), POp::L(x, y) => POp::L(2.0 * x - 6.0, 2.0 * y - 6.0), POp::Q(a, b, c, d) => POp::Q(2.0 * a - 6.0, 2.0 * b - 6.0, 2.0 * c - 6.0, 2.0 * d - 6.0), POp::C(a, b, c, d, e, f) => POp::C(2.0 * a - 6.0, 2.0 * b - 6.0, 2.0 * c - 6.0, 2.0 * d - 6.0, 2.0 * e - 6.0, 2.0 * f - 6.0), o => o }).collect() }, xf: xs, clip, pre: false }, false);
                }
            }
        });
        // large curves on 36x36
        let gl = grid(&PTS5L);
        let gl_q = grid(&[-6., 18., 42.]);
        let glr: &Vec<(f32, f32)> = if q { &gl_q } else { &gl };
        run.bound("large curves", format!("{}^4 cubics and {}^3 quads spanning 30-60 px on 36x36, NonZero", glr.len(), glr.len()));
        run.par(glr.len() * glr.len(), |s, l| {
            let (a, b) = (glr[s / glr.len()], glr[s % glr.len()]);
            for c in glr.iter() {
                let path = PathSpec { evenodd: false, ops: vec![POp::M(a.0 + 0.3, a.1 - 0.2), POp::Q(b.0, b.1, c.0 + 0.7, c.1 + 0.1)] };
                account(run, 40_000 + s, l, &Case { w: 36, path, xf: IDENT, clip: false, pre: false }, false);
                for d in glr.iter() {
                    let path = PathSpec { evenodd: false, ops: vec![POp::M(a.0 + 0.3, a.1 - 0.2), POp::C(b.0, b.1, c.0, c.1, d.0 + 0.7, d.1 + 0.1)] };
                    account(run, 40_000 + s, l, &Case { w: 36, path, xf: IDENT, clip: false, pre: false }, s == 3 && c.0 == 42. && d.1 == 18.);
                }
            }
        });
        // huge curves: control points thousands of pixels away (second differences beyond 4096 px:
        // the rasteriser's subdivision-count clamp), and very long gently bowed curves, seen
        // through a 120 px window; the same through conjugated scales
        let far: Vec<f32> = if q { vec![500., 2040., 2060., 3900.] } else { vec![300., 500., 1000., 1500., 2040., 2060., 2500., 3000., 3500., 3900.] };
        run.bound("huge curves", format!("quads and cubics whose control points lie {:?} px away (4 orientations, both senses) on 120x120; gently bowed quads (control point 2%, 0.9%, 0.4% of the chord off it) with chords of those lengths; NonZero, fill and clip", far));
        run.par(far.len() * 8, |s, l| {
            let f = far[s / 8];
            let o = s % 8;
            // orientation: control point to the right / left / below / above; each with the two end points swapped
            let tr = |x: f32, y: f32| -> (f32, f32) {
                match o / 2 {
                    0 => (x, y),
                    1 => (120.0 - x, y),
                    2 => (y, x),
                    _ => (y, 120.0 - x),
                }
            };
            let (p0, p1) = if o % 2 == 0 { ((10.3f32, 9.8f32), (10.7f32, 110.1f32)) } else { ((10.7, 110.1), (10.3, 9.8)) };
            let (a, e) = (tr(p0.0, p0.1), tr(p1.0, p1.1));
            for cy in [60.0f32, 35.0, 300.0] {
                let c = tr(f, cy);
                for clip in [false, true] {
                    let path = PathSpec { evenodd: false, ops: vec![POp::M(a.0, a.1), POp::Q(c.0, c.1, e.0, e.1)] };
                    account(run, 50_000 + s, l, &Case { w: 120, path, xf: IDENT, clip, pre: false }, false);
                    let c2 = tr(f * 0.8, 120.0 - cy);
                    let path = PathSpec { evenodd: false, ops: vec![POp::M(a.0, a.1), POp::C(c.0, c.1, c2.0, c2.1, e.0, e.1)] };
                    account(run, 50_000 + s, l, &Case { w: 120, path, xf: IDENT, clip, pre: false }, false);
                }
                // the same quad from a path 100 times smaller under scale 100
                let k = 0.01f32;
                let path = PathSpec { evenodd: false, ops: vec![POp::M(a.0 * k, a.1 * k), POp::Q(c.0 * k, c.1 * k, e.0 * k, e.1 * k)] };
                account(run, 50_000 + s, l, &Case { w: 120, path, xf: [100., 0., 0., 100., 0., 0.], clip: false, pre: false }, false);
            }
            // long gently bowed quads: chord f px, control point 1% of the chord off it, closed by
            // a far vertex so that the sliver between curve and chord decides pixels in the window
            for off in [0.02f32, 0.009, 0.004] {
                // control point `off` x chord away from the chord (the curve bulges half of that)
                let (b0, b1, bc) = (tr(60.0 - f * 0.5, 40.3), tr(60.0 + f * 0.5, 40.3), tr(60.0, 40.3 + off * f));
                let far_pt = tr(60.0, -3000.0);
                let path = PathSpec { evenodd: false, ops: vec![POp::M(b0.0, b0.1), POp::Q(bc.0, bc.1, b1.0, b1.1), POp::L(far_pt.0, far_pt.1), POp::Z] };
                account(run, 50_000 + s, l, &Case { w: 120, path: path.clone(), xf: IDENT, clip: false, pre: false }, false);
                account(run, 50_000 + s, l, &Case { w: 120, path, xf: IDENT, clip: true, pre: false }, false);
            }
        });
    }

    fn replay(&self, case: &str) -> Result<Option<Violation>, String> {
        let scene = parse_scene(case)?;
        // recover the case from the scene
        let big = PathSpec::rect(-5.5, -4.25, scene.w as f32 + 11., scene.w as f32 + 9.).to_string();
        let pre = matches!(scene.ops.first(), Some(Op::PushClip(p)) if p.to_string() == big) && scene.ops.len() > 2;
        let mut xf = IDENT;
        for op in scene.ops.iter().skip(if pre { 1 } else { 0 }) {
            match op {
                Op::SetTransform(t) => {
                    if xf == IDENT {
                        xf = *t
                    }
                }
                Op::PushClip(p) => return Ok(eval(&Case { w: scene.w, path: p.clone(), xf, clip: true, pre }).err()),
                Op::Fill(p, _, _) => return Ok(eval(&Case { w: scene.w, path: p.clone(), xf, clip: false, pre }).err()),
                _ => {}
            }
        }
        Err("no fill or clip in scene".into())
    }
}
