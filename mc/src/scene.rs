//! Scene DSL: a textual, replayable description of calls on a DrawTarget. Every scene-based
//! check enumerates `Op` sequences, executes them on the real API with `exec`, and on a
//! violation writes the scene with `Display`; `parse_scene` reads it back for replay.

use raqote::*;
use std::fmt;

pub const MODES: [BlendMode; 28] = [
    BlendMode::Dst,
    BlendMode::Src,
    BlendMode::Clear,
    BlendMode::SrcOver,
    BlendMode::DstOver,
    BlendMode::SrcIn,
    BlendMode::DstIn,
    BlendMode::SrcOut,
    BlendMode::DstOut,
    BlendMode::SrcAtop,
    BlendMode::DstAtop,
    BlendMode::Xor,
    BlendMode::Add,
    BlendMode::Screen,
    BlendMode::Overlay,
    BlendMode::Darken,
    BlendMode::Lighten,
    BlendMode::ColorDodge,
    BlendMode::ColorBurn,
    BlendMode::HardLight,
    BlendMode::SoftLight,
    BlendMode::Difference,
    BlendMode::Exclusion,
    BlendMode::Multiply,
    BlendMode::Hue,
    BlendMode::Saturation,
    BlendMode::Color,
    BlendMode::Luminosity,
];

pub fn mode_name(m: BlendMode) -> String {
    format!("{:?}", m)
}

pub fn mode_from(s: &str) -> Result<BlendMode, String> {
    MODES.iter().copied().find(|m| mode_name(*m) == s).ok_or_else(|| format!("unknown blend mode {}", s))
}

pub fn is_nonseparable(m: BlendMode) -> bool {
    matches!(m, BlendMode::Hue | BlendMode::Saturation | BlendMode::Color | BlendMode::Luminosity)
}

#[derive(Clone, Copy, Debug, PartialEq)]
pub enum POp {
    M(f32, f32),
    L(f32, f32),
    Q(f32, f32, f32, f32),
    C(f32, f32, f32, f32, f32, f32),
    /// PathBuilder::arc(x, y, r, start, sweep)
    A(f32, f32, f32, f32, f32),
    Z,
}

#[derive(Clone, Debug, PartialEq)]
pub struct PathSpec {
    pub evenodd: bool,
    pub ops: Vec<POp>,
}

impl PathSpec {
    pub fn new(ops: Vec<POp>) -> PathSpec {
        PathSpec { evenodd: false, ops }
    }
    pub fn rect(x: f32, y: f32, w: f32, h: f32) -> PathSpec {
        PathSpec::new(vec![POp::M(x, y), POp::L(x + w, y), POp::L(x + w, y + h), POp::L(x, y + h), POp::Z])
    }
    pub fn poly(pts: &[(f32, f32)]) -> PathSpec {
        let mut ops = Vec::new();
        for (i, p) in pts.iter().enumerate() {
            ops.push(if i == 0 { POp::M(p.0, p.1) } else { POp::L(p.0, p.1) });
        }
        ops.push(POp::Z);
        PathSpec::new(ops)
    }
    pub fn build(&self) -> Path {
        let mut pb = PathBuilder::new();
        for o in &self.ops {
            match *o {
                POp::M(x, y) => pb.move_to(x, y),
                POp::L(x, y) => pb.line_to(x, y),
                POp::Q(a, b, c, d) => pb.quad_to(a, b, c, d),
                POp::C(a, b, c, d, e, f) => pb.cubic_to(a, b, c, d, e, f),
                POp::A(x, y, r, st, sw) => pb.arc(x, y, r, st, sw),
                POp::Z => pb.close(),
            }
        }
        let mut p = pb.finish();
        p.winding = if self.evenodd { Winding::EvenOdd } else { Winding::NonZero };
        p
    }
}

#[derive(Clone, Copy, Debug, PartialEq)]
pub struct Stop {
    pub pos: f32,
    /// unpremultiplied a,r,g,b word
    pub color: u32,
}

#[derive(Clone, Copy, Debug, PartialEq)]
pub enum Spr {
    Pad,
    Repeat,
    Reflect,
}

impl Spr {
    pub fn to(self) -> Spread {
        match self {
            Spr::Pad => Spread::Pad,
            Spr::Repeat => Spread::Repeat,
            Spr::Reflect => Spread::Reflect,
        }
    }
    pub fn name(self) -> &'static str {
        match self {
            Spr::Pad => "pad",
            Spr::Repeat => "repeat",
            Spr::Reflect => "reflect",
        }
    }
}

pub type Xf = [f32; 6];
pub const IDENT: Xf = [1., 0., 0., 1., 0., 0.];

pub fn xf_to(t: &Xf) -> Transform {
    Transform::new(t[0], t[1], t[2], t[3], t[4], t[5])
}
pub fn xf_from(t: &Transform) -> Xf {
    [t.m11, t.m12, t.m21, t.m22, t.m31, t.m32]
}

#[derive(Clone, Debug, PartialEq)]
pub enum SrcSpec {
    /// premultiplied a,r,g,b word
    Solid(u32),
    Image { w: i32, h: i32, data: Vec<u32>, repeat: bool, bilinear: bool, xf: Xf },
    Linear { stops: Vec<Stop>, spread: Spr, p: [f32; 4] },
    Radial { stops: Vec<Stop>, spread: Spr, p: [f32; 3] },
    TwoCircle { stops: Vec<Stop>, spread: Spr, p: [f32; 6] },
    Sweep { stops: Vec<Stop>, spread: Spr, p: [f32; 4] },
    /// gradient variants with an explicit source transform (as users of the enum write them)
    LinearRaw { stops: Vec<Stop>, spread: Spr, xf: Xf },
    RadialRaw { stops: Vec<Stop>, spread: Spr, xf: Xf },
}

fn gradient(stops: &[Stop]) -> Gradient {
    Gradient { stops: stops.iter().map(|s| GradientStop { position: s.pos, color: Color::new((s.color >> 24) as u8, (s.color >> 16) as u8, (s.color >> 8) as u8, s.color as u8) }).collect() }
}

pub fn solid_of(c: u32) -> SolidSource {
    SolidSource { a: (c >> 24) as u8, r: (c >> 16) as u8, g: (c >> 8) as u8, b: c as u8 }
}

impl SrcSpec {
    pub fn with<R, F: FnOnce(&Source) -> R>(&self, f: F) -> R {
        match self {
            SrcSpec::Solid(c) => f(&Source::Solid(solid_of(*c))),
            SrcSpec::Image { w, h, data, repeat, bilinear, xf } => {
                let img = Image { width: *w, height: *h, data: &data[..] };
                let s = Source::Image(img, if *repeat { ExtendMode::Repeat } else { ExtendMode::Pad }, if *bilinear { FilterMode::Bilinear } else { FilterMode::Nearest }, xf_to(xf));
                f(&s)
            }
            SrcSpec::Linear { stops, spread, p } => f(&Source::new_linear_gradient(gradient(stops), Point::new(p[0], p[1]), Point::new(p[2], p[3]), spread.to())),
            SrcSpec::Radial { stops, spread, p } => f(&Source::new_radial_gradient(gradient(stops), Point::new(p[0], p[1]), p[2], spread.to())),
            SrcSpec::TwoCircle { stops, spread, p } => f(&Source::new_two_circle_radial_gradient(gradient(stops), Point::new(p[0], p[1]), p[2], Point::new(p[3], p[4]), p[5], spread.to())),
            SrcSpec::Sweep { stops, spread, p } => f(&Source::new_sweep_gradient(gradient(stops), Point::new(p[0], p[1]), p[2], p[3], spread.to())),
            SrcSpec::LinearRaw { stops, spread, xf } => f(&Source::LinearGradient(gradient(stops), spread.to(), xf_to(xf))),
            SrcSpec::RadialRaw { stops, spread, xf } => f(&Source::RadialGradient(gradient(stops), spread.to(), xf_to(xf))),
        }
    }
    pub fn kind(&self) -> &'static str {
        match self {
            SrcSpec::Solid(_) => "solid",
            SrcSpec::Image { .. } => "image",
            SrcSpec::Linear { .. } | SrcSpec::LinearRaw { .. } => "linear",
            SrcSpec::Radial { .. } | SrcSpec::RadialRaw { .. } => "radial",
            SrcSpec::TwoCircle { .. } => "twocircle",
            SrcSpec::Sweep { .. } => "sweep",
        }
    }
    pub fn is_gradient(&self) -> bool {
        !matches!(self, SrcSpec::Solid(_) | SrcSpec::Image { .. })
    }
}

#[derive(Clone, Debug, PartialEq)]
pub struct StyleSpec {
    pub width: f32,
    /// 0 butt, 1 round, 2 square
    pub cap: u8,
    /// 0 miter, 1 round, 2 bevel
    pub join: u8,
    pub miter: f32,
    pub dash: Vec<f32>,
    pub offset: f32,
}

impl StyleSpec {
    pub fn to(&self) -> StrokeStyle {
        StrokeStyle {
            width: self.width,
            cap: [LineCap::Butt, LineCap::Round, LineCap::Square][self.cap as usize],
            join: [LineJoin::Miter, LineJoin::Round, LineJoin::Bevel][self.join as usize],
            miter_limit: self.miter,
            dash_array: self.dash.clone(),
            dash_offset: self.offset,
        }
    }
    pub fn cap_name(&self) -> &'static str {
        ["butt", "round", "square"][self.cap as usize]
    }
    pub fn join_name(&self) -> &'static str {
        ["miter", "round", "bevel"][self.join as usize]
    }
}

#[derive(Clone, Copy, Debug, PartialEq)]
pub struct Opts {
    pub mode: BlendMode,
    pub alpha: f32,
    pub aa: bool,
}

impl Opts {
    pub fn new(mode: BlendMode, alpha: f32, aa: bool) -> Opts {
        Opts { mode, alpha, aa }
    }
    pub fn default() -> Opts {
        Opts { mode: BlendMode::SrcOver, alpha: 1.0, aa: true }
    }
    pub fn to(&self) -> DrawOptions {
        DrawOptions { blend_mode: self.mode, alpha: self.alpha, antialias: if self.aa { AntialiasMode::Gray } else { AntialiasMode::None } }
    }
}

#[derive(Clone, Debug, PartialEq)]
pub enum Op {
    Fill(PathSpec, SrcSpec, Opts),
    FillRect(f32, f32, f32, f32, SrcSpec, Opts),
    Stroke(PathSpec, StyleSpec, SrcSpec, Opts),
    Clear(u32),
    Mask(i32, i32, i32, i32, Vec<u8>, SrcSpec),
    /// x, y, image(w,h,data)
    DrawImageAt(f32, f32, i32, i32, Vec<u32>, Opts),
    /// width, height, x, y, image
    DrawImageSize(f32, f32, f32, f32, i32, i32, Vec<u32>, Opts),
    PushClipRect(i32, i32, i32, i32),
    PushClip(PathSpec),
    PopClip,
    PushLayer(f32, BlendMode),
    PopLayer,
    SetTransform(Xf),
    /// copy_surface / blend_surface / blend_surface_with_alpha from a (sw x sh) source with
    /// distinct pixels: kind, sw, sh, src_rect, dst
    Surface(SurfKind, i32, i32, [i32; 4], [i32; 2]),
    /// Path::flatten(tol) + Path::contains_point(tol, x, y) + Path::transform(current CTM)
    Query(PathSpec, f32, f32, f32),
    /// draw_text(font, point size, text (no blanks), start x, start y) with the test font
    Text(f32, String, f32, f32, SrcSpec, Opts),
}

/// the font the text calls are driven with: the first of a fixed list of files that loads
pub const FONT_FILES: [&str; 3] = ["/usr/share/fonts/truetype/dejavu/DejaVuSans.ttf", "/usr/share/fonts/truetype/dejavu/DejaVuSerif.ttf", "/usr/share/fonts/truetype/dejavu/DejaVuSansMono.ttf"];

thread_local! {
    static FONT: Option<font_kit::font::Font> = FONT_FILES.iter().find_map(|f| font_kit::font::Font::from_path(f, 0).ok());
}

pub fn with_font<R>(f: impl FnOnce(Option<&font_kit::font::Font>) -> R) -> R {
    FONT.with(|x| f(x.as_ref()))
}

pub fn font_available() -> bool {
    with_font(|f| f.is_some())
}

#[derive(Clone, Copy, Debug, PartialEq)]
pub enum SurfKind {
    Copy,
    Blend(BlendMode),
    Alpha(f32),
}

impl Op {
    pub fn kind(&self) -> &'static str {
        match self {
            Op::Fill(..) => "fill",
            Op::FillRect(..) => "fill_rect",
            Op::Stroke(..) => "stroke",
            Op::Clear(..) => "clear",
            Op::Mask(..) => "mask",
            Op::DrawImageAt(..) => "draw_image_at",
            Op::DrawImageSize(..) => "draw_image_with_size_at",
            Op::PushClipRect(..) => "push_clip_rect",
            Op::PushClip(..) => "push_clip",
            Op::PopClip => "pop_clip",
            Op::PushLayer(..) => "push_layer",
            Op::PopLayer => "pop_layer",
            Op::SetTransform(..) => "set_transform",
            Op::Surface(SurfKind::Copy, ..) => "copy_surface",
            Op::Surface(SurfKind::Blend(_), ..) => "blend_surface",
            Op::Surface(SurfKind::Alpha(_), ..) => "blend_surface_with_alpha",
            Op::Query(..) => "path_query",
            Op::Text(..) => "draw_text",
        }
    }
    pub fn is_draw(&self) -> bool {
        matches!(self, Op::Fill(..) | Op::FillRect(..) | Op::Stroke(..) | Op::Clear(..) | Op::Mask(..) | Op::DrawImageAt(..) | Op::DrawImageSize(..) | Op::Text(..))
    }
}

/// apply one op to a real DrawTarget
pub fn exec(dt: &mut DrawTarget, op: &Op) {
    match op {
        Op::Fill(p, s, o) => {
            let path = p.build();
            s.with(|src| dt.fill(&path, src, &o.to()))
        }
        Op::FillRect(x, y, w, h, s, o) => s.with(|src| dt.fill_rect(*x, *y, *w, *h, src, &o.to())),
        Op::Stroke(p, st, s, o) => {
            let path = p.build();
            let style = st.to();
            s.with(|src| dt.stroke(&path, src, &style, &o.to()))
        }
        Op::Clear(c) => dt.clear(solid_of(*c)),
        Op::Mask(x, y, w, h, data, s) => {
            let m = Mask { width: *w, height: *h, data: data.clone() };
            s.with(|src| dt.mask(src, *x, *y, &m))
        }
        Op::DrawImageAt(x, y, w, h, data, o) => {
            let img = Image { width: *w, height: *h, data: &data[..] };
            dt.draw_image_at(*x, *y, &img, &o.to())
        }
        Op::DrawImageSize(sw, sh, x, y, w, h, data, o) => {
            let img = Image { width: *w, height: *h, data: &data[..] };
            dt.draw_image_with_size_at(*sw, *sh, *x, *y, &img, &o.to())
        }
        Op::PushClipRect(x1, y1, x2, y2) => dt.push_clip_rect(IntRect::new(IntPoint::new(*x1, *y1), IntPoint::new(*x2, *y2))),
        Op::PushClip(p) => dt.push_clip(&p.build()),
        Op::PopClip => dt.pop_clip(),
        Op::PushLayer(o, b) => dt.push_layer_with_blend(*o, *b),
        Op::PopLayer => dt.pop_layer(),
        Op::SetTransform(t) => dt.set_transform(&xf_to(t)),
        Op::Surface(k, sw, sh, r, d) => {
            let n = (*sw * *sh).max(0) as usize;
            let src = DrawTarget::from_vec(*sw, *sh, (0..n).map(|i| DISTINCT16[(i * 3 + 1) % 16]).collect());
            let rect = IntRect::new(IntPoint::new(r[0], r[1]), IntPoint::new(r[2], r[3]));
            let p = IntPoint::new(d[0], d[1]);
            match k {
                SurfKind::Copy => dt.copy_surface(&src, rect, p),
                SurfKind::Blend(m) => dt.blend_surface(&src, rect, p, *m),
                SurfKind::Alpha(a) => dt.blend_surface_with_alpha(&src, rect, p, *a),
            }
        }
        Op::Query(p, tol, x, y) => {
            let path = p.build();
            let f = path.flatten(*tol);
            let _ = std::hint::black_box(f.ops.len());
            let _ = std::hint::black_box(path.contains_point(*tol, *x, *y));
            let t = *dt.get_transform();
            let _ = std::hint::black_box(path.transform(&t).ops.len());
        }
        Op::Text(size, text, x, y, s, o) => with_font(|font| {
            if let Some(font) = font {
                s.with(|src| dt.draw_text(font, *size, text, Point::new(*x, *y), src, &o.to()))
            }
        }),
    }
}

#[derive(Clone, Debug, PartialEq)]
pub enum Dst {
    Zero,
    White,
    Distinct,
    Pixels(Vec<u32>),
    /// the same pixels, the target made by DrawTarget::from_backing instead of from_vec
    Backing(Box<Dst>),
}

/// a valid premultiplied value per index, all different; includes a=0, a=1, a=0x80, a=0xfe, a=0xff, c=a, c=0, c=a/2
pub const DISTINCT16: [u32; 16] = [
    0xff204060, 0x80402000, 0xffffffff, 0x00000000, 0x01010000, 0xfe7f00fe, 0xff000000, 0x80808080, 0x40102030, 0xff00ff00, 0xc0c06000, 0x01000001, 0xffff0000, 0x7f3f1f0f, 0xfefefefe, 0x10000810,
];

impl Dst {
    pub fn pixels(&self, w: i32, h: i32) -> Vec<u32> {
        let n = (w * h).max(0) as usize;
        match self {
            Dst::Zero => vec![0; n],
            Dst::White => vec![0xffffffff; n],
            Dst::Distinct => (0..n).map(|i| DISTINCT16[(i * 7 + i / 16) % 16]).collect(),
            Dst::Pixels(p) => {
                let mut v = p.clone();
                v.resize(n, 0);
                v
            }
            Dst::Backing(d) => d.pixels(w, h),
        }
    }
}

#[derive(Clone, Debug, PartialEq)]
pub struct Scene {
    pub w: i32,
    pub h: i32,
    pub dst: Dst,
    pub ops: Vec<Op>,
}

impl Scene {
    pub fn target(&self) -> DrawTarget {
        match &self.dst {
            Dst::Backing(_) => DrawTarget::from_backing(self.w, self.h, self.dst.pixels(self.w, self.h)),
            _ => DrawTarget::from_vec(self.w, self.h, self.dst.pixels(self.w, self.h)),
        }
    }
}

// ---------------------------------------------------------------- text form

fn ff(v: f32) -> String {
    if v.is_nan() {
        "NaN".to_string()
    } else if v.is_infinite() {
        if v > 0. { "inf".to_string() } else { "-inf".to_string() }
    } else {
        format!("{:?}", v)
    }
}

fn fl(v: &[f32]) -> String {
    v.iter().map(|x| ff(*x)).collect::<Vec<_>>().join(",")
}

fn hexl(v: &[u32]) -> String {
    v.iter().map(|x| format!("{:08x}", x)).collect::<Vec<_>>().join(".")
}

impl fmt::Display for PathSpec {
    fn fmt(&self, f: &mut fmt::Formatter) -> fmt::Result {
        write!(f, "path({}", if self.evenodd { "eo" } else { "nz" })?;
        for o in &self.ops {
            match *o {
                POp::M(x, y) => write!(f, ";M,{}", fl(&[x, y]))?,
                POp::L(x, y) => write!(f, ";L,{}", fl(&[x, y]))?,
                POp::Q(a, b, c, d) => write!(f, ";Q,{}", fl(&[a, b, c, d]))?,
                POp::C(a, b, c, d, e, g) => write!(f, ";C,{}", fl(&[a, b, c, d, e, g]))?,
                POp::A(a, b, c, d, e) => write!(f, ";A,{}", fl(&[a, b, c, d, e]))?,
                POp::Z => write!(f, ";Z")?,
            }
        }
        write!(f, ")")
    }
}

fn stops_str(s: &[Stop]) -> String {
    s.iter().map(|s| format!("{}:{:08x}", ff(s.pos), s.color)).collect::<Vec<_>>().join(",")
}

impl fmt::Display for SrcSpec {
    fn fmt(&self, f: &mut fmt::Formatter) -> fmt::Result {
        match self {
            SrcSpec::Solid(c) => write!(f, "solid({:08x})", c),
            SrcSpec::Image { w, h, data, repeat, bilinear, xf } => write!(f, "image({},{};{};{};{};{})", w, h, hexl(data), if *repeat { "repeat" } else { "pad" }, if *bilinear { "bilinear" } else { "nearest" }, fl(xf)),
            SrcSpec::Linear { stops, spread, p } => write!(f, "linear({};{};{})", fl(p), spread.name(), stops_str(stops)),
            SrcSpec::Radial { stops, spread, p } => write!(f, "radial({};{};{})", fl(p), spread.name(), stops_str(stops)),
            SrcSpec::TwoCircle { stops, spread, p } => write!(f, "twocircle({};{};{})", fl(p), spread.name(), stops_str(stops)),
            SrcSpec::Sweep { stops, spread, p } => write!(f, "sweep({};{};{})", fl(p), spread.name(), stops_str(stops)),
            SrcSpec::LinearRaw { stops, spread, xf } => write!(f, "linearraw({};{};{})", fl(xf), spread.name(), stops_str(stops)),
            SrcSpec::RadialRaw { stops, spread, xf } => write!(f, "radialraw({};{};{})", fl(xf), spread.name(), stops_str(stops)),
        }
    }
}

impl fmt::Display for StyleSpec {
    fn fmt(&self, f: &mut fmt::Formatter) -> fmt::Result {
        write!(f, "style({};{};{};{};{};{})", ff(self.width), self.cap_name(), self.join_name(), ff(self.miter), fl(&self.dash), ff(self.offset))
    }
}

impl fmt::Display for Opts {
    fn fmt(&self, f: &mut fmt::Formatter) -> fmt::Result {
        write!(f, "{} {} {}", mode_name(self.mode), ff(self.alpha), if self.aa { "aa" } else { "noaa" })
    }
}

impl fmt::Display for Op {
    fn fmt(&self, f: &mut fmt::Formatter) -> fmt::Result {
        match self {
            Op::Fill(p, s, o) => write!(f, "fill {} {} {}", p, s, o),
            Op::FillRect(x, y, w, h, s, o) => write!(f, "fill_rect {} {} {} {} {} {}", ff(*x), ff(*y), ff(*w), ff(*h), s, o),
            Op::Stroke(p, st, s, o) => write!(f, "stroke {} {} {} {}", p, st, s, o),
            Op::Clear(c) => write!(f, "clear {:08x}", c),
            Op::Mask(x, y, w, h, d, s) => write!(f, "mask {} {} {} {} {} {}", x, y, w, h, if d.is_empty() { "-".to_string() } else { d.iter().map(|b| format!("{:02x}", b)).collect::<Vec<_>>().join("") }, s),
            Op::DrawImageAt(x, y, w, h, d, o) => write!(f, "draw_image_at {} {} img({},{};{}) {}", ff(*x), ff(*y), w, h, hexl(d), o),
            Op::DrawImageSize(sw, sh, x, y, w, h, d, o) => write!(f, "draw_image_with_size_at {} {} {} {} img({},{};{}) {}", ff(*sw), ff(*sh), ff(*x), ff(*y), w, h, hexl(d), o),
            Op::PushClipRect(a, b, c, d) => write!(f, "push_clip_rect {} {} {} {}", a, b, c, d),
            Op::PushClip(p) => write!(f, "push_clip {}", p),
            Op::PopClip => write!(f, "pop_clip"),
            Op::PushLayer(o, b) => write!(f, "push_layer {} {}", ff(*o), mode_name(*b)),
            Op::PopLayer => write!(f, "pop_layer"),
            Op::SetTransform(t) => write!(f, "set_transform {}", fl(t)),
            Op::Surface(k, sw, sh, r, d) => {
                let ks = match k {
                    SurfKind::Copy => "copy".to_string(),
                    SurfKind::Blend(m) => format!("blend:{}", mode_name(*m)),
                    SurfKind::Alpha(a) => format!("alpha:{}", ff(*a)),
                };
                write!(f, "surface {} {} {} {} {} {} {} {} {}", ks, sw, sh, r[0], r[1], r[2], r[3], d[0], d[1])
            }
            Op::Query(p, tol, x, y) => write!(f, "path_query {} {} {} {}", p, ff(*tol), ff(*x), ff(*y)),
            Op::Text(size, text, x, y, s, o) => write!(f, "draw_text {} {} {} {} {} {}", ff(*size), text, ff(*x), ff(*y), s, o),
        }
    }
}

impl fmt::Display for Dst {
    fn fmt(&self, f: &mut fmt::Formatter) -> fmt::Result {
        match self {
            Dst::Zero => write!(f, "zero"),
            Dst::White => write!(f, "white"),
            Dst::Distinct => write!(f, "distinct"),
            Dst::Pixels(p) => write!(f, "px({})", hexl(p)),
            Dst::Backing(d) => write!(f, "backing:{}", d),
        }
    }
}

impl fmt::Display for Scene {
    fn fmt(&self, f: &mut fmt::Formatter) -> fmt::Result {
        write!(f, "scene {} {} {}", self.w, self.h, self.dst)?;
        for o in &self.ops {
            write!(f, " | {}", o)?;
        }
        Ok(())
    }
}

// ---------------------------------------------------------------- parser

fn pf(s: &str) -> Result<f32, String> {
    match s {
        "NaN" => Ok(f32::NAN),
        "inf" => Ok(f32::INFINITY),
        "-inf" => Ok(f32::NEG_INFINITY),
        _ => s.parse::<f32>().map_err(|e| format!("bad float '{}': {}", s, e)),
    }
}

fn pfl(s: &str) -> Result<Vec<f32>, String> {
    if s.is_empty() {
        return Ok(Vec::new());
    }
    s.split(',').map(pf).collect()
}

fn phexl(s: &str) -> Result<Vec<u32>, String> {
    if s.is_empty() {
        return Ok(Vec::new());
    }
    s.split('.').map(|t| u32::from_str_radix(t, 16).map_err(|e| format!("bad hex '{}': {}", t, e))).collect()
}

fn compound<'a>(tok: &'a str, name: &str) -> Result<Vec<&'a str>, String> {
    let pre = format!("{}(", name);
    if tok.starts_with(&pre) && tok.ends_with(')') {
        Ok(tok[pre.len()..tok.len() - 1].split(';').collect())
    } else {
        Err(format!("expected {}(...), got '{}'", name, tok))
    }
}

pub fn parse_path(tok: &str) -> Result<PathSpec, String> {
    let parts = compound(tok, "path")?;
    let evenodd = match parts[0] {
        "eo" => true,
        "nz" => false,
        o => return Err(format!("bad winding {}", o)),
    };
    let mut ops = Vec::new();
    for p in &parts[1..] {
        if *p == "Z" {
            ops.push(POp::Z);
            continue;
        }
        let (k, rest) = p.split_at(1);
        let v = pfl(rest.trim_start_matches(','))?;
        ops.push(match (k, v.len()) {
            ("M", 2) => POp::M(v[0], v[1]),
            ("L", 2) => POp::L(v[0], v[1]),
            ("Q", 4) => POp::Q(v[0], v[1], v[2], v[3]),
            ("C", 6) => POp::C(v[0], v[1], v[2], v[3], v[4], v[5]),
            ("A", 5) => POp::A(v[0], v[1], v[2], v[3], v[4]),
            _ => return Err(format!("bad path op '{}'", p)),
        });
    }
    Ok(PathSpec { evenodd, ops })
}

fn parse_spread(s: &str) -> Result<Spr, String> {
    match s {
        "pad" => Ok(Spr::Pad),
        "repeat" => Ok(Spr::Repeat),
        "reflect" => Ok(Spr::Reflect),
        o => Err(format!("bad spread {}", o)),
    }
}

fn parse_stops(s: &str) -> Result<Vec<Stop>, String> {
    let mut v = Vec::new();
    if s.is_empty() {
        return Ok(v);
    }
    for t in s.split(',') {
        let i = t.find(':').ok_or_else(|| format!("bad stop {}", t))?;
        v.push(Stop { pos: pf(&t[..i])?, color: u32::from_str_radix(&t[i + 1..], 16).map_err(|e| e.to_string())? });
    }
    Ok(v)
}

fn arr<const N: usize>(v: Vec<f32>) -> Result<[f32; N], String> {
    if v.len() != N {
        return Err(format!("expected {} numbers, got {}", N, v.len()));
    }
    let mut a = [0f32; N];
    a.copy_from_slice(&v);
    Ok(a)
}

pub fn parse_src(tok: &str) -> Result<SrcSpec, String> {
    let name = &tok[..tok.find('(').ok_or_else(|| format!("bad source {}", tok))?];
    let p = compound(tok, name)?;
    match name {
        "solid" => Ok(SrcSpec::Solid(u32::from_str_radix(p[0], 16).map_err(|e| e.to_string())?)),
        "image" => {
            let wh: Vec<&str> = p[0].split(',').collect();
            Ok(SrcSpec::Image {
                w: wh[0].parse().map_err(|_| "bad w")?,
                h: wh[1].parse().map_err(|_| "bad h")?,
                data: phexl(p[1])?,
                repeat: p[2] == "repeat",
                bilinear: p[3] == "bilinear",
                xf: arr::<6>(pfl(p[4])?)?,
            })
        }
        "linear" => Ok(SrcSpec::Linear { p: arr::<4>(pfl(p[0])?)?, spread: parse_spread(p[1])?, stops: parse_stops(p[2])? }),
        "radial" => Ok(SrcSpec::Radial { p: arr::<3>(pfl(p[0])?)?, spread: parse_spread(p[1])?, stops: parse_stops(p[2])? }),
        "twocircle" => Ok(SrcSpec::TwoCircle { p: arr::<6>(pfl(p[0])?)?, spread: parse_spread(p[1])?, stops: parse_stops(p[2])? }),
        "sweep" => Ok(SrcSpec::Sweep { p: arr::<4>(pfl(p[0])?)?, spread: parse_spread(p[1])?, stops: parse_stops(p[2])? }),
        "linearraw" => Ok(SrcSpec::LinearRaw { xf: arr::<6>(pfl(p[0])?)?, spread: parse_spread(p[1])?, stops: parse_stops(p[2])? }),
        "radialraw" => Ok(SrcSpec::RadialRaw { xf: arr::<6>(pfl(p[0])?)?, spread: parse_spread(p[1])?, stops: parse_stops(p[2])? }),
        o => Err(format!("unknown source kind {}", o)),
    }
}

pub fn parse_style(tok: &str) -> Result<StyleSpec, String> {
    let p = compound(tok, "style")?;
    let cap = ["butt", "round", "square"].iter().position(|c| *c == p[1]).ok_or("bad cap")? as u8;
    let join = ["miter", "round", "bevel"].iter().position(|c| *c == p[2]).ok_or("bad join")? as u8;
    Ok(StyleSpec { width: pf(p[0])?, cap, join, miter: pf(p[3])?, dash: pfl(p[4])?, offset: pf(p[5])? })
}

fn parse_opts(t: &[&str]) -> Result<Opts, String> {
    if t.len() != 3 {
        return Err(format!("bad draw options {:?}", t));
    }
    Ok(Opts { mode: mode_from(t[0])?, alpha: pf(t[1])?, aa: t[2] == "aa" })
}

fn parse_img(tok: &str) -> Result<(i32, i32, Vec<u32>), String> {
    let p = compound(tok, "img")?;
    let wh: Vec<&str> = p[0].split(',').collect();
    Ok((wh[0].parse().map_err(|_| "bad w")?, wh[1].parse().map_err(|_| "bad h")?, phexl(p[1])?))
}

fn pi(s: &str) -> Result<i32, String> {
    s.parse::<i32>().map_err(|e| format!("bad int '{}': {}", s, e))
}

pub fn parse_op(s: &str) -> Result<Op, String> {
    let t: Vec<&str> = s.split_whitespace().collect();
    if t.is_empty() {
        return Err("empty op".into());
    }
    let need = |n: usize| if t.len() == n { Ok(()) } else { Err(format!("op '{}' expects {} tokens, got {}", t[0], n, t.len())) };
    match t[0] {
        "fill" => {
            need(6)?;
            Ok(Op::Fill(parse_path(t[1])?, parse_src(t[2])?, parse_opts(&t[3..6])?))
        }
        "fill_rect" => {
            need(9)?;
            Ok(Op::FillRect(pf(t[1])?, pf(t[2])?, pf(t[3])?, pf(t[4])?, parse_src(t[5])?, parse_opts(&t[6..9])?))
        }
        "stroke" => {
            need(7)?;
            Ok(Op::Stroke(parse_path(t[1])?, parse_style(t[2])?, parse_src(t[3])?, parse_opts(&t[4..7])?))
        }
        "clear" => {
            need(2)?;
            Ok(Op::Clear(u32::from_str_radix(t[1], 16).map_err(|e| e.to_string())?))
        }
        "mask" => {
            need(7)?;
            let hex = if t[5] == "-" { "" } else { t[5] };
            let mut data = Vec::new();
            let mut i = 0;
            while i + 2 <= hex.len() {
                data.push(u8::from_str_radix(&hex[i..i + 2], 16).map_err(|e| e.to_string())?);
                i += 2;
            }
            Ok(Op::Mask(pi(t[1])?, pi(t[2])?, pi(t[3])?, pi(t[4])?, data, parse_src(t[6])?))
        }
        "draw_image_at" => {
            need(7)?;
            let (w, h, d) = parse_img(t[3])?;
            Ok(Op::DrawImageAt(pf(t[1])?, pf(t[2])?, w, h, d, parse_opts(&t[4..7])?))
        }
        "draw_image_with_size_at" => {
            need(9)?;
            let (w, h, d) = parse_img(t[5])?;
            Ok(Op::DrawImageSize(pf(t[1])?, pf(t[2])?, pf(t[3])?, pf(t[4])?, w, h, d, parse_opts(&t[6..9])?))
        }
        "push_clip_rect" => {
            need(5)?;
            Ok(Op::PushClipRect(pi(t[1])?, pi(t[2])?, pi(t[3])?, pi(t[4])?))
        }
        "push_clip" => {
            need(2)?;
            Ok(Op::PushClip(parse_path(t[1])?))
        }
        "pop_clip" => Ok(Op::PopClip),
        "push_layer" => {
            need(3)?;
            Ok(Op::PushLayer(pf(t[1])?, mode_from(t[2])?))
        }
        "pop_layer" => Ok(Op::PopLayer),
        "set_transform" => {
            need(2)?;
            Ok(Op::SetTransform(arr::<6>(pfl(t[1])?)?))
        }
        "surface" => {
            need(10)?;
            let k = if t[1] == "copy" {
                SurfKind::Copy
            } else if let Some(m) = t[1].strip_prefix("blend:") {
                SurfKind::Blend(mode_from(m)?)
            } else if let Some(a) = t[1].strip_prefix("alpha:") {
                SurfKind::Alpha(pf(a)?)
            } else {
                return Err(format!("bad surface kind {}", t[1]));
            };
            Ok(Op::Surface(k, pi(t[2])?, pi(t[3])?, [pi(t[4])?, pi(t[5])?, pi(t[6])?, pi(t[7])?], [pi(t[8])?, pi(t[9])?]))
        }
        "path_query" => {
            need(5)?;
            Ok(Op::Query(parse_path(t[1])?, pf(t[2])?, pf(t[3])?, pf(t[4])?))
        }
        "draw_text" => {
            need(9)?;
            Ok(Op::Text(pf(t[1])?, t[2].to_string(), pf(t[3])?, pf(t[4])?, parse_src(t[5])?, parse_opts(&t[6..9])?))
        }
        o => Err(format!("unknown op {}", o)),
    }
}

pub fn parse_dst(s: &str) -> Result<Dst, String> {
    if let Some(rest) = s.strip_prefix("backing:") {
        return Ok(Dst::Backing(Box::new(parse_dst(rest)?)));
    }
    match s {
        "zero" => Ok(Dst::Zero),
        "white" => Ok(Dst::White),
        "distinct" => Ok(Dst::Distinct),
        _ => Ok(Dst::Pixels(phexl(compound(s, "px")?[0])?)),
    }
}

pub fn parse_scene(s: &str) -> Result<Scene, String> {
    let mut parts = s.split('|');
    let head: Vec<&str> = parts.next().unwrap_or("").split_whitespace().collect();
    if head.len() != 4 || head[0] != "scene" {
        return Err(format!("bad scene header '{:?}'", head));
    }
    let mut ops = Vec::new();
    for p in parts {
        ops.push(parse_op(p.trim())?);
    }
    Ok(Scene { w: pi(head[1])?, h: pi(head[2])?, dst: parse_dst(head[3])?, ops })
}
