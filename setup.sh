#!/bin/sh
# MANIFEST.setup_cmd: offline release build of the harness against /repo (hooks on)
cd "$(dirname "$0")" || exit 2
export CARGO_NET_OFFLINE=true
mkdir -p target evidence replays
cd mc && cargo build --release --offline 2>&1 | tail -3
test -x ../target/release/mc
