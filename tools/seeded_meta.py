#!/usr/bin/env python3
"""Writes seeded/<id>/meta.json and seeded/RESULTS.md from the table below and the detection
matrix results (JSON lines produced by tools/seeded_eval.py, one file per seed)."""
import json, os, sys, glob
ROOT = os.path.dirname(os.path.dirname(os.path.abspath(__file__)))
MATRIX = sys.argv[1] if len(sys.argv) > 1 else "/root/scratch"
T = {
 "C01-1": ("rasterizer.rs add_edge: bounds_right computed from edge.x2 twice (x1 never used)", "a polygon whose right-most vertex is never the lower end of a non-horizontal edge (apex on the right, trapezoid wider at the top)"),
 "C01-2": ("blitter.rs MaskBlitter::blit_span: right clamp applied after the >>2 (pixel count clamped against a quarter-pixel limit)", "antialiasing off and a polygon extending past the right edge of the surface (spill into following rows or out-of-bounds panic)"),
 "C02-1": ("blitter.rs ShaderBlendBlitter: whole scratch row passed to the blend proc again", "integer fill_rect fast path narrower than the surface with Src/Clear/SrcIn/DstIn/SrcOut/DstAtop over a non-zero destination"),
 "C02-2": ("draw_target.rs choose_blitter: clip_stride set to the layer width", "push_clip_rect(narrow); push_layer; push_clip(path); draw; pop_clip; pop_layer"),
 "C03-1": ("blitter.rs ShaderClipBlendMaskBlitter: clip row computed relative to the layer origin", "clip path + layer whose origin has y > 0 + a non-SrcOver draw (or clear) inside it"),
 "C03-2": ("blitter.rs choose_shader: alpha test inverted for Repeat+Nearest+non-integer transform (global alpha ignored)", "ExtendMode::Repeat, FilterMode::Nearest, a sampling transform that is not an integer translation, alpha < 1"),
 "C04-1": ("stroke.rs Close arm: normals swapped for the zero-length closing edge (join drawn on the inner side)", "a closed subpath written as move_to A ... line_to A; close() with a real turn at A"),
 "C04-2": ("stroke.rs join_line: miter test loses the factor 2 (limit effectively x sqrt 2)", "Miter join whose miter ratio lies in (limit, sqrt2 x limit]"),
 "C05-1": ("draw_target.rs choose_blitter: clip_stride = layer width for both clip-mask blitters", "push_clip_rect narrower than the surface + push_clip(path) + push_layer, then any draw"),
 "C05-2": ("push_clip_rect stores mask None and choose_blitter looks for the nearest mask below; push_clip still multiplies with the top entry only", "clip path A, clip rect R, clip path B (depth 3, that order)"),
 "C06-1": ("draw_target.rs composite: blit rectangle clamped to the surface instead of the destination (layer) bounds", "layer smaller than the surface, the outer clip popped while the layer is open, then a shape reaching beyond the layer"),
 "C06-2": ("blitter.rs ShaderClipBlendMaskBlitter: clip row relative to the layer", "layer with origin y != 0 + clip path + non-SrcOver draw / clear / nested blended layer"),
 "C07-1": ("dash.rs: period validity check moved before the odd-length doubling", "odd-length dash array whose sum is finite but whose doubled period overflows, with a negative offset (hang)"),
 "C07-2": ("geom.rs valid_unit_divide: numer >= denom became numer > denom", "a barely non-monotonic quad whose chop ratio rounds to exactly 1 (debug assertion in fill / push_clip)"),
 "C08-1": ("draw_target.rs add_quad: force-monotonic fallback picks the wrong end", "a quad whose start and control point have exactly the same device y (horizontal start tangent)"),
 "C08-2": ("draw_target.rs close(): current point cleared instead of returned to the subpath start", "Close followed by a drawing command without MoveTo"),
 "C09-1": ("dash.rs: negative offsets wrapped with the un-doubled total", "odd number of dash entries together with a negative offset"),
 "C09-2": ("dash.rs: is_first_segment cleared only when an 'on' dash ends", "closed subpath, pattern starting 'off' and 'on' at the closing point"),
 "C10-1": ("draw_target.rs apply_path: only current_point reset, first_point survives", "a path whose first op is Close followed by segments without MoveTo, on a target that has processed an earlier path"),
 "C10-2": ("rasterizer.rs reset(): active edge list not cleared", "an earlier fill / clip with an edge crossing the bottom of the surface, then any later draw"),
 "C11-1": ("blitter.rs is_integer_transform: m12 checked twice, m21 never", "CTM inverse composed with the source transform is a horizontal shear with unit diagonal and integer translation"),
 "C11-2": ("draw_target.rs pop_layer: early return for an empty layer before the transform is restored", "non-identity transform, push_layer under an empty clip, pop_layer, then get_transform / further drawing"),
 "C12-1": ("blitter.rs TwoCircleRadialGradientShader: half-pixel offset applied after the inverse CTM", "two-circle gradient under a CTM with a non-identity linear part, short gradient"),
 "C12-2": ("blitter.rs SweepGradientShader: global alpha handed to the colour table again (applied twice)", "sweep gradient with alpha < 1"),
 "C13-1": ("blitter.rs TransformedNearestImageAlphaShader: trailing -0.5 translation of the conjugation dropped", "Nearest filter, alpha < 1, non-integer sampling transform"),
 "C13-2": ("draw_target.rs draw_image_with_size_at: then_scale became pre_scale", "a real rescale with the rectangle not at the origin"),
 "C14-1": ("draw_target.rs choose_blitter (mask-less arm): dest_stride = surface width", "fast path writing into a layer narrower than the surface with an empty clip stack (outer clip popped inside the layer), rect taller than one row"),
 "C14-2": ("draw_target.rs clear(): slow branch routed through fill_rect without resetting the transform", "non-identity transform together with a non-empty clip stack or an open layer"),
 "C15-1": ("composite_surface: offset computed after clamping src_rect", "src_rect with a negative origin that still overlaps the source"),
 "C15-2": ("composite_surface: empty test only catches zero-sized (not negative-sized) rectangles", "block missing the destination in x by at least one pixel while overlapping in y (panic)"),
 "C16-1": ("flatten(): start_pt only set when none (stale subpath start across subpaths)", "two subpaths, Close in the later one, curve directly after that Close"),
 "C16-2": ("flatten(): curves whose end point equals the current point skipped", "loop / out-and-back curve ending exactly where it starts"),
 "C17-1": ("contains_point: on-edge test checks only the y range", "exactly horizontal edge and a query point on its row beyond its ends"),
 "C17-2": ("contains_point: half-open y ranges mismatched between the two edge directions", "query y bit-equal to a vertex where the path turns around in y, vertex left of the point"),
 "C18-1": ("choose_shader Solid arm: alpha byte recomputed with round-to-nearest while colours truncate", "translucent solid with channels near its alpha (> 128) and a small global alpha with the right fractional part"),
 "C18-2": ("from_unpremultiplied_argb: early return also for a == 0", "a fully transparent colour that still carries colour channels"),
 "C19-1": ("write_png: per-pixel truncated reciprocal instead of c*255/a", "alpha values that are not 2^k x a divisor of 255 (7, 9, 254, ...)"),
 "C19-2": ("from_vec no longer truncates a longer vector", "a recycled vector longer than width x height"),
 "C20-1": ("PathBuilder::arc: last quadratic forced onto Arc::to() (unclamped start+sweep)", "sweeps beyond one full turn"),
 "C20-2": ("Path::transform: translation-only shortcut taken whenever m11 == m22 == 1", "shear transforms with a unit diagonal"),
 "C01-3": ("rasterizer.rs sort_edges: compares x floored to quarter pixels", "two edges less than 1/4 px apart in the wrong list order whose x floor to the same quarter cell but round to different ones (negative span length)"),
 "C01-4": ("rasterizer.rs add_edge: edges starting above the surface intersected with y=0 in 30.2 integers instead of being stepped", "sloped edge with y1 < 0 whose exact crossing of y=0 is off the quarter grid"),
 "C02-3": ("draw_target.rs blend_row_mask_clip: early-out on the shape mask before the clip is multiplied in", "clip path + non-SrcOver mode + shape overlapping pixels the clip path excludes"),
 "C02-4": ("draw_target.rs pop_layer: composites over the whole surface instead of layer.rect", "clip stack changed between push_layer and pop_layer (outer clip popped inside the layer)"),
 "C03-3": ("blitter.rs ShaderBlendBlitter: whole scratch row passed to the blend proc", "fill_rect fast path narrower than the surface with Src-like modes"),
 "C03-4": ("draw_target.rs pop_layer: opacity byte 255 composited without a mask (clip path ignored)", "push_layer(1.0) + clip path in force at pop time + non-SrcOver layer blend or antialiased clip edge"),
 "C04-3": ("stroke.rs MoveTo arm: start cap of non-final open subpaths not flipped", "Round/Square cap, at least two subpaths, the affected one open and not last (every dash of a dashed stroke)"),
 "C04-4": ("draw_target.rs scaled_tolerance: divides by max(|m11|,|m22|) instead of sqrt|det|", "curved path stroked under a rotation near 90 degrees / axis swap"),
 "C05-3": ("draw_target.rs push_clip: early-out when the clip path touches no surface pixel", "clip path entirely off the surface / empty / zero-area (must clip everything)"),
 "C05-4": ("draw_target.rs fill_rect: clip_stack.is_empty() guard dropped from the fast path", "clip path in force + integer fill_rect / draw_image under the identity directly on the surface"),
 "C06-3": ("draw_target.rs clear(): direct fill of the top layer buffer when the clip has no path mask", "clip rect narrowed after push_layer, then clear()"),
 "C06-4": ("draw_target.rs pop_layer: early return for empty layers placed between transform reset and restore", "empty layer + non-identity transform at pop time"),
 "C07-3": ("rasterizer.rs add_edge: curve bounds no longer widened by the control point", "quad whose x-extremum lies inside the segment and is the leftmost part of the path (panic in MaskSuperBlitter)"),
 "C07-4": ("draw_target.rs composite_surface: early-out tests the clamped source rect instead of the destination rect", "destination wholly left/right of the target while rows overlap (negative width cast to usize)"),
 "C08-3": ("draw_target.rs cubic_to: cubic-to-quad tolerance scaled by the transform although points are already in device space", "CubicTo under a strongly down-scaling transform"),
 "C08-4": ("rasterizer.rs add_edge: curve bounds tightened to the t=1/2 point", "asymmetric quad bulging beyond its end points and every other vertex"),
 "C09-3": ("dash.rs: first_dash reset moved from MoveTo to Close", "open subpath reaching a gap, then MoveTo, then a closed subpath shorter than its first dash"),
 "C09-4": ("dash.rs: offset normalisation as floored modulo in f32", "dash offsets of magnitude 3e7 and more"),
 "C10-3": ("draw_target.rs fill(): early return (without rasterizer.reset) when the bounds miss the clip rect", "push_clip_rect, a fill wholly outside it, then any later rasterising call"),
 "C10-4": ("rasterizer.rs reset(): bucket range ends at the first sub-scanline of the last row", "edge starting in the last touched pixel row at y fraction >= .25, then a later fill / clip"),
 "C11-3": ("draw_target.rs scaled_tolerance: divides by |det| instead of sqrt|det|", "curved stroke under a strongly down-scaling transform"),
 "C11-4": ("blitter.rs choose_shader: sweep gradient matrix composed as transform.then(ti)", "sweep gradient with off-origin centre under a non-translation transform"),
 "C12-3": ("blitter.rs choose_shader: sweep gradient matrix order swapped", "sweep gradient, non-translation CTM, centre away from the origin"),
 "C12-4": ("draw_target.rs new_linear_gradient: start subtracted after the rotation (then_translate)", "vertical / right-to-left / off-origin diagonal linear gradients"),
 "C13-3": ("blitter.rs ImageRepeatAlphaShader: later tiles restart at the span's first column", "Repeat + integer translation with x offset not a multiple of the width, span crossing a tile boundary"),
 "C13-4": ("blitter.rs ImagePadAlphaShader: right run filled with the raw edge texel (alpha dropped)", "Pad + integer translation + alpha < 1 + pixels right of the image"),
 "C14-3": ("draw_target.rs fill_rect fast path: SrcOver switched to Src for opaque solids, forgetting the global alpha", "opaque solid, SrcOver, alpha < 1, fast path"),
 "C14-4": ("draw_target.rs fill_rect fast path: corner normalisation removed", "negative integer width or height"),
 "C15-3": ("blend_surface: rows whose source pixels are all zero skipped", "Src/Clear/SrcIn/DstIn/SrcOut/DstAtop with a fully transparent source row over a non-zero destination"),
 "C15-4": ("composite_surface: whole-rows fast path tests the block width against the clamped src_rect instead of the source stride", "block spanning the destination's full width taken from a wider source, at least two rows"),
 "C16-3": ("flatten(): cubics that lyon calls linear emitted as a single LineTo", "cubic whose control points are collinear with the chord but project outside it"),
 "C16-4": ("flatten(): rebuilt on PathBuilder, winding rule lost", "EvenOdd path with a region of even non-zero winding, flattened copy used directly"),
 "C17-3": ("contains_point: LineTo without current point no longer sets first_point", "path beginning with line_to (e.g. arc on a fresh builder) with a sloped closing edge"),
 "C17-4": ("contains_point: EvenOdd parity via count % 2 == 1", "EvenOdd with the orientation that counts down"),
 "C18-3": ("draw_target.rs blend_row_mask_clip switched to alpha_lerp with a 257 weight at full coverage", "clip path + non-SrcOver + fully covered pixel with a decreasing channel"),
 "C18-4": ("impl From<Color> for Source builds the SolidSource field by field (no premultiplication)", "translucent colour arriving through Source::from(Color)"),
 "C19-3": ("write_png: colour of fully transparent pixels zeroed", "pixel 0x00RRGGBB with non-zero colour"),
 "C19-4": ("write_png: encoder dimensions swapped", "non-square surface"),
 "C20-3": ("PathBuilder::arc: sweeps beyond a full turn clamped to +2pi (sign dropped)", "sweep < -2pi"),
 "C20-4": ("Path::transform rebuilt through PathBuilder, winding rule lost", "EvenOdd path"),
 # round 3 (k = 5, 6): "changes a systematic small-input checker could still miss"
 "C01-5": ("rasterizer.rs scan_edges: winding accumulator narrowed to i8 by a dropped cast", "128 (overflow checks) / 256 (wrap) coincident same-direction contours in one path"),
 "C01-6": ("rasterizer.rs ActiveEdge: end point stored as saturating i16", "surface 8192 rows or taller with a polygon reaching y >= 8192"),
 "C02-5": ("draw_target.rs push_clip_rect stops cloning the mask; helper finds the innermost mask; push_clip still combines with the top entry only", "clip path, one or more clip rects, clip path (depth 3 in that order): the outer path stops clipping"),
 "C02-6": ("draw_target.rs composite(): rows handed over in 1024-pixel pieces, mask start not advanced", "clipped bounding box wider than 1024 pixels with coverage that differs 1024 px apart"),
 "C03-5": ("blitter.rs ShaderMaskBlitter::blit_span: spans shaded in 2048-pixel pieces, coverage read from the piece start", "SrcOver with a mask, no clip path, span longer than 2048 px with non-periodic coverage"),
 "C03-6": ("draw_target.rs clear(): slow branch routed through fill_rect, transform no longer reset", "clear() under a clip or inside a layer with a non-identity transform"),
 "C04-5": ("stroke.rs stroke_to_path: output path inherits the fill rule of the stroked path", "path.winding = EvenOdd (inner corners and doubly covered spots become holes)"),
 "C04-6": ("stroke.rs compute_normal: segments of length <= 1/4096 treated as zero-length", "vertices closer than 0.000244 user units that are visible under a large current transform"),
 "C05-5": ("draw_target.rs push_clip: rasterises the clip path with Winding::NonZero regardless of path.winding", "EvenOdd clip path with a region of even non-zero winding"),
 "C05-6": ("draw_target.rs push_clip: pixel-aligned-rectangle fast path builds the rect from the first and third points unordered", "five-op integer-aligned rectangular clip path described backwards (negative size, mirrored / quarter-turn transform)"),
 "C06-5": ("blitter.rs ShaderBlendBlitter::blit_span: shader handed layer-relative coordinates", "fill_rect fast path with a gradient or image inside a layer whose origin is not the surface origin (outer clip popped inside the layer)"),
 "C06-6": ("draw_target.rs pop_layer: layer composited in bands of 64K mask entries, band start uses the surface width", "surface of more than 65536 pixels, layer narrower than the surface and taller than one band"),
 "C07-5": ("rasterizer.rs scan_edges: i8 winding accumulator", "128 or more same-direction edges crossing one sample row (many overlapping contours, wide pen on a circle)"),
 "C07-6": ("stroke.rs join_line: negation lost in the miter-limit test", "a near-reversal (hairpin) with Miter join: the uncut miter tip lies tens of thousands of pixels away and overflows the rasteriser"),
 "C08-5": ("rasterizer.rs add_edge: subdivision clamp applied to shift/count only, coefficients use the unclamped value", "a quad with |p0 - 2 ctrl + p2| of about 4096 device px or more"),
 "C08-6": ("draw_target.rs add_quad: 'flat quad becomes a line' shortcut compares against |chord|^2", "long gently bowed quad: control point within 1% of the chord length of the chord, chord of several hundred px"),
 "C09-5": ("dash.rs Close arm: dash state no longer reset", "a subpath begun by LineTo directly after Close"),
 "C09-6": ("stroke.rs compute_normal: segments <= 1/4096 degenerate", "dash entries of 0.0002 with round / square caps (dots vanish); dash ending within 0.000244 past a vertex"),
 "C10-5": ("draw_target.rs: cached inverse transform not refreshed when pop_layer / clear restore the transform by assignment", "non-identity transform; pop_layer or clear under a clip; then a gradient or image draw without a new set_transform"),
 "C10-6": ("draw_target.rs push_clip: early return under an empty clip rect placed after apply_path (rasteriser not reset)", "empty clip rect, push_clip of an on-surface path, then any rasterising call"),
 "C11-5": ("draw_target.rs composite(): |det T| <= f32::EPSILON treated as singular", "invertible transform with determinant below 1.19e-7 (scale 1/4096, or scale(1, 1e-7)) and correspondingly large user coordinates"),
 "C11-6": ("path_builder.rs flatten(): tolerance clamped from below at 0.01", "curved stroke under a scale of 30 or more (tolerance 0.1/scale falls below the clamp)"),
 "C12-5": ("blitter.rs ShaderClipMaskBlitter::blit_span: span trimmed to the clip coverage but the shader still started at x1", "clip path + SrcOver gradient whose rows begin with uncovered pixels"),
 "C12-6": ("draw_target.rs: cached inverse transform stale after pop_layer / clear", "set_transform(T); push_layer + pop_layer (or clear under a clip); gradient draw"),
 "C13-5": ("blitter.rs is_integer_transform: comparisons with a 1e-4 epsilon", "sampling matrix within 1e-4 of an integer translation (scale 1.00009): wrong texel beyond about 5000 px"),
 "C13-6": ("blitter.rs nearest shaders: row-hoisting shortcut guarded by the wrong matrix entry", "one-sided skew y' = kx + y with Nearest filtering"),
 "C14-5": ("blitter.rs ShaderBlendBlitter::blit_span: spans shaded in 1024-pixel pieces always from the span start", "fast-path fill_rect / draw_image_at wider than 1024 px with a source that varies along x"),
 "C14-6": ("draw_target.rs draw_image_at: builds its own Nearest source instead of delegating", "draw_image_at under a transform that is not an integer translation"),
 "C15-5": ("draw_target.rs composite_surface: hoisted source row index multiplies destination row by source width in i32", "tall destination and wide source with dest.height x src.width > 2^31"),
 "C15-6": ("draw_target.rs composite_surface: all intersections in destination space (src_rect translated before being limited to the source)", "src_rect reaching i32::MAX with a positive destination"),
 "C16-5": ("path_builder.rs flatten(): at most 512 segments per curve, the last one jumps to the end", "curve needing more than 513 segments (size / tolerance around 1e6)"),
 "C16-6": ("path_builder.rs flatten(): tolerance.max(0.01)", "tolerance below 0.01"),
 "C17-5": ("path_builder.rs contains_point: LineTo segments shorter than the tolerance skipped", "a segment shorter than the tolerance whose y-range contains the query point (large tolerance, or finely divided outline)"),
 "C17-6": ("path_builder.rs contains_point: flatten(tolerance.max(0.1))", "curved path, tolerance below 0.1, query point between the two flattenings"),
 "C18-5": ("blitter.rs choose_shader: single-stop gradients drawn as a solid without premultiplying", "linear or radial gradient with exactly one translucent stop"),
 "C18-6": ("blitter.rs ImagePadAlphaShader: alpha_mul arguments swapped for the left padding", "Pad image, integer translation, span starting left of the image, alpha < 1"),
 "C19-5": ("draw_target.rs write_png: 16384-pixel bands through a reused scratch buffer with a skip-zero fast path", "more than 16384 pixels, a zero word whose band offset held a non-zero word in an earlier band"),
 "C19-6": ("draw_target.rs write_png: rows-per-band computed without .max(1)", "surface at least 16385 pixels wide"),
 "C20-5": ("path_builder.rs Path::transform: scale+offset fast path via euclid's epsilon test", "transform with non-zero off-diagonal entries below 1e-6 applied to coordinates of 1e6 and more"),
 "C20-6": ("path_builder.rs arc(): leading line skipped when a (wrongly computed) current point equals the arc start", "arc() directly after close() when the last vertex before the close is exactly the arc's start"),
 # round 4 (k = 7, 8): "a different code site, a different kind of trigger, state carried from an earlier call"
 "C01-7": ("draw_target.rs close(): consumes the current point (take) instead of returning it to the subpath start", "LineTo directly after Close"),
 "C01-8": ("draw_target.rs push_clip: final rasterizer.reset() dropped", "push_clip; pop_clip; fill on one target (stale edges; an endless loop when the clip path reaches below the surface)"),
 "C02-7": ("draw_target.rs pop_layer: opacity 255 composited without a mask (clip path ignored)", "clip path in force at pop_layer + opacity 1.0 + destination-erasing layer blend or a clip pushed inside the layer"),
 "C02-8": ("draw_target.rs pop_layer: early return for an empty layer before the transform is restored", "non-identity transform; layer pushed and popped under an empty clip; a later draw"),
 "C03-7": ("draw_target.rs pop_layer: opacity mask vector kept across calls and resized (stale opacity)", "two pop_layer calls with different opacities on one target"),
 "C03-8": ("draw_target.rs composite(): span rect clipped to the surface instead of the open layer's rect", "outer clip popped while the layer is open, then a draw reaching beyond the layer"),
 "C04-7": ("draw_target.rs stroke(): quick reject on the vertex bounding box grown by width/2", "every vertex off the surface by more than width/2 while a miter tip or a diagonal square cap corner reaches in"),
 "C04-8": ("stroke.rs cap_line: square cap polygon emitted with the opposite winding", "a square cap overlapping another piece of the same stroke"),
 "C05-7": ("draw_target.rs push_clip: early return under an empty clip after apply_path (rasteriser not reset)", "empty clip, push_clip(P), pops, then push_clip(B) or a fill"),
 "C05-8": ("draw_target.rs pop_layer: opaque layers composited without a mask", "clip path at pop time + opacity 1.0 + Src/Clear/SrcIn/DstIn/SrcOut/DstAtop layer blend"),
 "C06-7": ("draw_target.rs pop_layer: transform folded into the layer image's source transform instead of reset / restore", "a singular transform in force at pop_layer"),
 "C06-8": ("draw_target.rs pop_layer: fully transparent layers skipped", "empty layer with a destination-erasing blend (Src, Clear, SrcIn, DstIn, SrcOut, DstAtop)"),
 "C07-7": ("draw_target.rs clip_bounds clamped / composite no longer intersects with the layer bounds", "clip pushed, layer pushed, clip popped, then a draw larger than the layer (panic)"),
 "C07-8": ("stroke.rs compute_normal: multiplication by the reciprocal of the length", "segment of subnormal length with both components non-zero under a rotation or skew"),
 "C08-7": ("draw_target.rs line_to/quad_to/cubic_to: segments ending where they start skipped", "a cubic whose end point equals its start point (closed teardrop loop)"),
 "C08-8": ("draw_target.rs: path cursor reset moved from apply_path into fill()", "push_clip(P) directly followed by fill / push_clip of a path that starts without MoveTo"),
 "C09-7": ("dash.rs MoveTo arm: a MoveTo to the current point is skipped", "open subpath ending at b followed by MoveTo(b)"),
 "C09-8": ("dash.rs + stroke.rs: output paths inherit the source path's winding", "dashed stroke of a path flagged EvenOdd"),
 "C10-7": ("draw_target.rs push_clip_rect moves the mask up, pop_clip hands it back down", "push_clip_rect; push_clip(path); pop_clip: the path keeps clipping"),
 "C10-8": ("draw_target.rs: popped layer buffer recycled with Vec::resize (old pixels kept)", "two sequential layers on one target"),
 "C11-7": ("draw_target.rs: cached inverse transform stale after pop_layer / clear", "non-identity T; pop_layer or clear under a clip; image / gradient draw"),
 "C11-8": ("blitter.rs TransformedNearestImageAlphaShader::new: trailing half-pixel translation dropped", "Nearest image, alpha < 1, non-integer sampling transform"),
 "C12-7": ("blitter.rs ShaderMaskBlitter::blit_span: shader given the layer-relative row", "gradient drawn into a layer pushed under a clip rect with min.y >= 1"),
 "C12-8": ("draw_target.rs mask(): transform reset to the identity around the call", "mask() with a gradient source under a non-identity transform"),
 "C13-7": ("blitter.rs ShaderClipMaskBlitter::blit_span: shader given layer-relative coordinates", "layer with non-zero origin + clip path in force + SrcOver image"),
 "C13-8": ("blitter.rs ImagePadAlphaShader: pad runs skipped when the alpha-scaled edge texel is 0 (scratch row keeps the previous row)", "Pad fast path, a row whose edge texel is transparent after a row whose edge texel is not"),
 "C14-7": ("draw_target.rs clear(): slow branch rasterises the clip bounds", "surface-covering clip rect reaching x >= 32768 (16.16 overflow)"),
 "C14-8": ("blitter.rs MaskBlitter::blit_span: right clamp removed", "antialiasing off + integer rect reaching 2 px or more beyond the right edge (general route panics)"),
 "C15-7": ("draw_target.rs composite_surface: reads the source's open layer instead of its surface", "source DrawTarget with a layer open"),
 "C15-8": ("draw_target.rs composite_surface: early return when the destination's transform is not invertible", "singular transform set on the destination"),
 "C16-7": ("path_builder.rs flatten(): cubic with coincident control points flattened as a quadratic", "CubicTo with cpt1 == cpt2"),
 "C16-8": ("path_builder.rs flatten(): curves that collapse to a point at the tolerance skipped", "curve whose extent is below the tolerance"),
 "C17-7": ("path_builder.rs WindState::add_edge: shoelace form of the cross product", "coordinates in the thousands (x*y beyond 2^23) with a short edge level with the query point"),
 "C17-8": ("path_builder.rs flatten(): subpath start not recorded for a path beginning with LineTo", "LineTo-first path, Close, then a curve"),
 "C18-7": ("draw_target.rs new_radial_gradient: degenerate radius painted as an unpremultiplied solid", "radial gradient whose radius squared underflows, translucent last stop"),
 "C18-8": ("blitter.rs image shaders: alpha channel scaled with muldiv255, colour channels with alpha_mul", "integer-translation image shader, translucent texel with a channel near its alpha, global alpha byte 2..117"),
 "C19-7": ("draw_target.rs write_png: file opened without truncate", "export over an existing longer file"),
 "C19-8": ("draw_target.rs write_png: all-opaque surfaces written as RGB", "every pixel with alpha 255"),
 "C20-7": ("path_builder.rs arc(): leading line taken from the first quadratic", "sweep angle exactly 0"),
 "C20-8": ("path_builder.rs close(): a Close that would be the first op or a repeat is skipped", "close() on an empty builder or twice in a row"),
}
rows = []
for sid, (what, needs) in sorted(T.items()):
    d = os.path.join(ROOT, "seeded", sid)
    if not os.path.isdir(d):
        continue
    prop = sid.split("-")[0]
    det = {}
    base = ""
    mf = os.path.join(MATRIX, f"matrix-{sid}.json")
    if os.path.exists(mf):
        try:
            j = json.loads(open(mf).read().strip().splitlines()[-1])
            base = j.get("baseline", "")
            det = {k: v["verdict"] for k, v in j.items() if k.startswith("C")}
        except Exception as e:
            det = {"error": str(e)}
    caught = sorted(k for k, v in det.items() if v == "VIOLATION")
    meta = {
        "id": sid, "breaks_property": prop, "change": what, "needs_to_manifest": needs,
        "origin": "written by an independent sub-agent that saw only the property text and a scratch worktree of /repo (nothing from /verif)",
        "confirmed": "tools/seeded_intake.sh: patch applies to the scratch worktree; cargo test --offline with the patch: 44 passed + 1 doctest; demo.rs (copied to tests/) fails with the patch and passes without it",
        "baseline_with_patch": base,
        "quick_checks_reporting_a_violation": caught,
        "target_check_catches_it": prop in caught if det else None,
        "files": ["patch.diff", "demo.rs", "notes.txt"],
    }
    json.dump(meta, open(os.path.join(d, "meta.json"), "w"), indent=1)
    rows.append((sid, prop, what, needs, base, caught, det))
with open(os.path.join(ROOT, "seeded", "RESULTS.md"), "w") as f:
    f.write("# Seeded property-breaking changes and which quick checks report them\n\n")
    f.write("Each change was written by a fresh sub-agent given only the property text and a scratch worktree; every one compiles and passes the 44-test baseline. The matrix was produced by `tools/seeded_eval.py` (apply the patch, run the baseline, run every check's quick tier, undo).\n\n")
    f.write("| seed | change | needs | baseline | quick checks that report a VIOLATION |\n|---|---|---|---|---|\n")
    for sid, prop, what, needs, base, caught, det in rows:
        b = "44 passed" if "44 passed" in base else (base or "n/a")
        c = ", ".join(("**%s**" % k) if k == prop else k for k in caught) if det else "(matrix pending)"
        f.write(f"| {sid} | {what} | {needs} | {b} | {c} |\n")
    n = len([r for r in rows if r[6]])
    hit = len([r for r in rows if r[1] in r[5]])
    f.write(f"\nTarget check catches its seed: {hit} of {n} evaluated seeds.\n")
print("seeds:", len(rows))
