#!/usr/bin/env python3
"""Regenerates /verif/MANIFEST.json from the table below (run from /verif)."""
import json, subprocess, os
ROOT = os.path.dirname(os.path.dirname(os.path.abspath(__file__)))

# id -> (technique, level text, level note, design ref)
CHECKS = {
 "C01": ("bounded exhaustive enumeration of PathBuilder op sequences on the quarter-pixel grid, each filled by the real rasteriser and compared with an exact integer supersampling model",
         "Every polygon / op string in the stated finite alphabets (triangles, quads, 5-6-gons, two-subpath paths, all M/L/Z strings to depth 4-5, far-away triangles, degenerate surfaces) is executed on the real code under both winding rules and both antialias modes and compared pixel by pixel with an exact integer model of the property; a pass is a coverage statement over that space, not a sample.",
         "Trusts the integer reference model (mc/src/model/rast.rs); admits both roundings within the 16.16 slope drift bound of a rounding boundary; bounded to the listed grids and surfaces <= 3x3.",
         "DESIGN.md section 4, C01"),

 "C02": ("bounded exhaustive enumeration of single drawing calls over clip/layer/transform contexts, every blend mode and source kind, each transition checked by a per-pixel step oracle",
         "Every combination of the stated finite alphabets (surface, destination, transform, clip/layer context, shape, call, 28 blend modes, source kinds, alphas, both aa modes) is executed on the real code; after every call all buffers (surface and every open layer, read through the verification hooks) are compared with their state before: pixels with zero reference coverage, outside any clip rectangle, with zero clip-path coverage or in a non-destination buffer must be bit-identical.",
         "Zero coverage is decided by an independent opaque-white reference fill of the same shape (validated by C01/C04/C08); clip state is read through cfg(raqote_verif) accessors; bounded to surfaces <= 6x5 and the listed shapes.",
         "DESIGN.md section 4, C02"),
 "C03": ("bounded exhaustive enumeration of drawing calls with per-pixel distinct inputs, each transition checked against a per-pixel reference built from sw_composite's public primitives",
         "Scenes give every pixel its own destination value, coverage, clip coverage and source colour; all 28 modes, all source kinds with decidable colour, alphas, all 256 mask bytes, every mask offset, pop_layer with every blend and opacity; every pixel of every buffer after every call must equal an admissible value of M-PIX for that pixel's own inputs (exactly blend(src,dst) at full weight, unchanged at zero weight).",
         "Blend formulas are sw_composite's public primitives (trusted as definition); two compositions of coverage x clip coverage are admitted for partial weights; source colours of non-constant gradients and non-integer image sampling are left to C12/C13.",
         "DESIGN.md section 4, C03"),
}
NOT_YET = "check not built yet in this round (design in DESIGN.md section 4); will be claimed once its explorer exists"

props = [json.loads(l) for l in open(os.path.join(ROOT, "properties.jsonl"))]
hook_commits = subprocess.run(["git", "-C", "/repo", "log", "--format=%H %s"], capture_output=True, text=True).stdout.splitlines()
hook_commits = [l.split()[0] for l in hook_commits if "verif hook" in l]

checks, na = [], []
for p in props:
    pid = p["id"]
    if pid in CHECKS:
        tech, text, note, ref = CHECKS[pid]
        checks.append({
            "property_id": pid,
            "quick_cmd": f"./check {pid} quick",
            "thorough_cmd": f"./check {pid} thorough",
            "evidence_file": f"/verif/evidence/{pid}.json",
            "replay_cmd_template": "./check replay {path}",
            "engine": "raqote-mc",
            "level_claimed": {"category": "model_checking", "text": text, "design_ref": ref},
            "level_note": note,
            "technique": tech,
        })
    else:
        na.append({"property_id": pid, "reason": NOT_YET})

m = {
 "version": 1,
 "setup_cmd": "./setup.sh",
 "hooks": {
   "guard": "raqote_verif",
   "enable": "RUSTFLAGS --cfg raqote_verif, set in /verif/mc/.cargo/config.toml ([build] rustflags); the harness depends on /repo by path so every check rebuilds raqote from the working tree with the hooks on",
   "baseline_off_cmd": "cd /repo && cargo test --offline",
   "source_commits": hook_commits,
   "add_only": True,
 },
 "engines": [{
   "name": "raqote-mc",
   "path": "/verif/mc",
   "serves_properties": [c["property_id"] for c in checks],
   "kind_free_text": "stateless explicit-state explorer: enumerates every operation sequence / input shape of a finite alphabet up to a stated bound, executes each on the real raqote API (fresh DrawTarget per trace) and evaluates a reference model on every explored state; 16 worker threads with a static work split; replayable counterexamples",
 }],
 "checks": checks,
 "not_applicable": na,
 "notes": "All checks are bounded exhaustive explorations (no sampling; VERIF_SEED is recorded but unused). Known findings: /verif/known_findings.json. Replays: /verif/replays/<id>/<n>.scene.",
}
json.dump(m, open(os.path.join(ROOT, "MANIFEST.json"), "w"), indent=1)
print("checks:", len(checks), "not_applicable:", len(na))
