#!/usr/bin/env python3
"""Regenerates /verif/MANIFEST.json from the table below (run from /verif)."""
import json, subprocess, os
ROOT = os.path.dirname(os.path.dirname(os.path.abspath(__file__)))

# id -> (technique, level text, level note, design ref)
CHECKS = {
 "C01": ("bounded exhaustive enumeration of PathBuilder op sequences on the quarter-pixel grid, each filled by the real rasteriser and compared with an exact integer supersampling model",
         "Every polygon / op string in the stated finite alphabets (triangles, quads, 5-6-gons, two-subpath paths, all M/L/Z strings to depth 4-5, far-away triangles, degenerate surfaces) is executed on the real code under both winding rules and both antialias modes and compared pixel by pixel with an exact integer model of the property; a pass is a coverage statement over that space, not a sample.",
         "Trusts the integer reference model (mc/src/model/rast.rs); admits both roundings within the 16.16 slope drift bound of a rounding boundary; bounded to the listed grids on surfaces <= 3x3, plus one representative family per magnitude: strips 300 / 4000 / 8200 pixels long, star / comb / tiling polygons with up to 300 subpaths, winding numbers up to 513.",
         "DESIGN.md section 4, C01"),

 "C02": ("bounded exhaustive enumeration of single drawing calls over clip/layer/transform contexts, every blend mode and source kind, each transition checked by a per-pixel step oracle",
         "Every combination of the stated finite alphabets (surface, destination, transform, clip/layer context, shape, call, 28 blend modes, source kinds, alphas, both aa modes) is executed on the real code; after every call all buffers (surface and every open layer, read through the verification hooks) are compared with their state before: pixels with zero reference coverage, outside any clip rectangle, with zero clip-path coverage or in a non-destination buffer must be bit-identical.",
         "Zero coverage is decided by an independent opaque-white reference fill of the same shape (validated by C01/C04/C08); clip state is read through cfg(raqote_verif) accessors; bounded to surfaces <= 6x5 and the listed shapes, plus long strips (300 and 8200 pixels) with full-length sliver fills and non-periodic masks, and mixed cross-feature histories to depth 4-5.",
         "DESIGN.md section 4, C02"),
 "C03": ("bounded exhaustive enumeration of drawing calls with per-pixel distinct inputs, each transition checked against a per-pixel reference built from sw_composite's public primitives",
         "Scenes give every pixel its own destination value, coverage, clip coverage and source colour; all 28 modes, all source kinds with decidable colour, alphas, all 256 mask bytes, every mask offset, pop_layer with every blend and opacity; every pixel of every buffer after every call must equal an admissible value of M-PIX for that pixel's own inputs (exactly blend(src,dst) at full weight, unchanged at zero weight).",
         "Blend formulas are sw_composite's public primitives (trusted as definition); two compositions of coverage x clip coverage are admitted for partial weights; source colours of non-constant gradients and non-integer image sampling are left to C12/C13; also long strips (300 / 8200 px), a 300x300 mask, mixed histories to depth 5-6, and draw_text (text feature, DejaVu font; glyph coverage recovered from an opaque-white SrcOver draw).",
         "DESIGN.md section 4, C03"),

 "C14": ("bounded exhaustive differential exploration: fast route vs general route on identical initial contents, bit-exact",
         "Every integer rectangle with x,y in [-2,W+2] and w,h in [-2,W+3] (zero, negative, off-surface included) x modes x source kinds x alphas x destinations is drawn by fill_rect and by fill(PathBuilder::rect), and with/without a surface-covering clip; clear(c) with/without a covering clip; draw_image_at at every integer position vs fill_rect/fill with the translated image source; surfaces must be bit-identical.",
         "Differential: no expected value is modelled, so a defect shared by both routes is invisible here (C02/C03 cover each route against a model); surfaces 4x3 and 3x4, 8200-long strips, and draw_image_at under 7 non-identity transforms (against the Pad + Bilinear source draw_image_at builds).",
         "DESIGN.md section 4, C14"),
 "C15": ("bounded exhaustive enumeration of (sizes, src_rect, dst, operation) tuples against a block-transfer reference model",
         "All source/destination sizes in {0..3}^2, all 1296 src_rects with coordinates in [-1,4] (inside, overlapping, outside, empty, inverted), all dst in [-4,4]^2, copy / blend (28 modes) / blend_with_alpha, with and without transform+clip+layer on the destination; every destination pixel compared with a double-loop model; out-of-bounds access shows as a panic.",
         "Blend formulas are sw_composite's primitives; pairs on which the non-separable primitives overflow are skipped (counted); sizes <= 3x3, plus 300-long strips, i32-extreme rectangles and destinations, and 65536x1 / 1x40000 strips.",
         "DESIGN.md section 4, C15"),
 "C16": ("bounded exhaustive enumeration of path op strings x tolerances; flatten output matched op by op against an f64 curve model",
         "All op strings up to depth 3-4 over {M,L,Q,C} x off-grid points + Z (curves first, after Close, after MoveTo, consecutive curves, looping cubics) x 4 tolerances: output has only M/L/Z, M/L/Z preserved bit-exactly in order, curve vertices on the f64 curve at non-decreasing parameter from the model cursor, end point bit-exact, deviation <= 8 x tolerance; fill(path) vs fill(flatten(0.01)) differ only near the outline (both winding rules).",
         "f64 curve evaluation with 2e-3 px vertex tolerance; strict monotonicity of deviation in tolerance is not demanded (only the 8x bound, at six tolerances from 0.0002 to 2, and on curves up to 6000 units across).",
         "DESIGN.md section 4, C16"),
 "C17": ("bounded exhaustive enumeration of grid polygons x query points against an exact integer winding / on-segment model",
         "Triangles, quads, pentagons, hexagons and all M/L/Z op strings over integer grids x both rules x all 169 half-step query points (level with vertices, on edges, collinear beyond edge ends, on horizontal edges) compared with exact i64 winding numbers; plus agreement with a 4x-scaled fill for pixels with exact full / zero coverage.",
         "Exact for grid inputs; query points coinciding only with a lone zero-length segment are left undecided; straight paths at tolerances 0.001..100, curved paths against the f64 winding number of flatten(t).",
         "DESIGN.md section 4, C17"),
 "C19": ("bounded exhaustive enumeration of pixel assignments on small surfaces; every view and the decoded PNG compared with the word layout model",
         "Every assignment of a 12-value pixel alphabet to surfaces of up to 4 pixels and one-hot scans up to 3x3 (7x5 thorough): get_data / get_data_u8 / mutable views / write_png decoded with the png crate / from_vec (exact, shorter, longer) / from_backing / into_vec / into_inner; to_u32 over 17^4 channel tuples.",
         "Little-endian host; trusts the png crate's decoder; temporary files under /verif/target/tmp; surfaces up to 90000 pixels and rows of 70000 pixels are included (view writes at selected positions there).",
         "DESIGN.md section 4, C19"),
 "C20": ("bounded exhaustive enumeration of helper parameters and op strings; emitted ops evaluated in f64 against the documented geometry",
         "rect over a 144-tuple grid; arc over centres x radii (0..1000) x 16-48 start angles x 19-43 sweeps of both signs and beyond one turn, with and without a current point (radius within 0.5%, monotone angle in the sweep's direction, covered angle, end point, leading line_to); Path::transform of every op string up to depth 3-4 under 11 transforms incl. singular ones (bit-equal to transform_point, order and winding kept); finish() order.",
         "f64 evaluation of emitted ops; 33 samples per quad; transforms with entries down to 1e-9 on coordinates up to 1e7; four builder contexts for arc().",
         "DESIGN.md section 4, C20"),

 "C05": ("explicit-state exploration of clip-stack histories against a reference clip stack (M-CLIP), with probe draws checked per pixel under the model's clip",
         "All histories of push_clip_rect (inner, overlapping, disjoint, inverted, off-surface, larger than the surface) / push_clip (AA triangle, half-pixel rect, even-odd ring, off-surface, aligned) / pop_clip / set_transform up to depth 3-4 on fresh targets; after each, the implementation's effective clip equals the intersection of the pushed rects and the muldiv255 product of the pushed paths' coverages, and 11 probe calls (fills in three modes, fill_rect, clear, mask, draw_image_at, stroke, layer) are checked pixel by pixel under the model's clip.",
         "Clip path coverage is the implementation's own white antialiased fill (validated by C01/C08); three or more nested paths admit any association order of the rounding product; includes stacks up to 8 (one chain of 41) deep and a 300x300 surface.",
         "DESIGN.md section 4, C05"),
 "C06": ("explicit-state exploration of balanced layer scenes; per-transition step oracle plus an isolated-surface reference machine (M-LAYER) for the final pixels",
         "Clip context x push_layer(opacity, blend) x every well-nested inner sequence (draws incl. clear, nested layers, clip and transform changes) up to depth 2-3 x pop: every draw goes to the innermost layer buffer only, push/pop leave transform and clip stack alone, a layer under an empty clip is harmless, pop composites the group once per M-PIX; the final surface equals that of a machine keeping every layer as a separate transparent DrawTarget.",
         "Group compositing formula as in C03; reference layers are real DrawTargets driven by the same calls (only isolation and the single group composite are modelled); includes towers of 4-6 layers and surfaces of more than 65536 pixels.",
         "DESIGN.md section 4, C06"),
 "C10": ("explicit-state exploration of call histories on one long-lived target; each transition compared with the same call on a fresh target holding the same visible state; merged BFS on a canonical state key",
         "All well-nested histories over a 40-call alphabet, from a transparent and from a non-empty surface, to depth 3-4 unmerged and to depth 4-6 breadth-first with merging (19M distinct states at thorough): identical buffers on reused and fresh targets, rasteriser idle after every call.",
         "Merging key = 64-bit hash of (all buffers, transform, clip stack, layers, idle flag, hidden path cursor); both sides are the implementation (differential); open layers are re-established twice (replayed, and pushed + filled by copying); the alphabet includes empty clip rects, a Src-composited layer, a transparent draw, a surface copy and transform-positioned gradient / image draws.",
         "DESIGN.md section 4, C10"),

 "C07": ("deviation-bounded exhaustive enumeration of argument vectors per public call (0..d deviations from nominal over per-parameter boundary alphabets) and of call sequences, executed in watchdog-supervised child processes",
         "For fill, stroke, fill_rect, mask, draw_image_at / with_size, copy/blend_surface, flatten / contains_point / transform and clear: every argument vector with at most 3 (quick) / 4 (thorough) deviations from nominal over the boundary values named in the property (surface sizes incl. 0, 18 transforms incl. singular / tiny / huge / one-axis stretches of 1e8, 46 paths incl. +-3999.75 px, empty, degenerate and curved ones, 29 sources incl. degenerate gradients, 28 modes, alpha/opacity NaN / -inf / 2 / 256 / inf, 9 widths, 15 dash arrays x 9 offsets, clip rectangles empty / inverted / +-2^20, layers under empty clips, ...) restricted to the stated domain; plus all call sequences of length <= 4 / 5 over a 37-call alphabet. No unwind, no abort, no allocation failure, return within the horizon, rasteriser idle after every call; overflow checks and debug assertions are on in raqote and every dependency.",
         "Children run under ulimit -v 8 GB with a 60 s (CPU time) per-case horizon; domain filters are stated in the evidence assumptions; the dependency's non-separable blend overflow is a listed known finding; i32 extremes for block transfers, 130 coincident contours, hairpins and 650 px pens are in the alphabets.",
         "DESIGN.md section 4, C07"),
 "C18": ("bounded exhaustive enumeration of scenes with valid premultiplied inputs; invariant r,g,b <= a evaluated on every buffer after every call",
         "The C03 scene space extended with non-constant gradients and filtered images, all 28 x 28 ordered blend-mode pairs in two consecutive draws (the output of one is the destination of the next), layer scenes with every layer blend x every inner mode, nested layers, and the Color / from_unpremultiplied_argb conversions over 17^4 channel tuples: after every call every pixel of the surface and of every open layer satisfies r,g,b <= a.",
         "Only valid premultiplied destinations, solid colours, texels and stops are used; the dependency's own debug assertion (c <= a in pack_argb32) firing inside a non-separable blend is a listed known finding.",
         "DESIGN.md section 4, C18"),

 "C12": ("bounded exhaustive enumeration of gradient geometries x stops x spreads x alphas x transforms; every pixel compared with an analytic f64 gradient model within the property's tolerance",
         "Linear (all ordered pairs of grid points, 1 px and 40 px extents), radial (radii 1..64), two-circle (concentric, eccentric, touching, tiny inner circle) and sweep gradients x 3-5 stop sets (incl. hard stops and single stop) x Pad/Repeat/Reflect x alphas x 2-8 transforms, drawn as full-surface Src fills on 24x24: each channel within 4 of the range of the analytic colour for t within 3/255 (+|t|/255) of the pixel's t; exact end colour under Pad; transparent where no circle exists.",
         "Pixels within 1-1.5 px of a discontinuity of t are not asserted; the sampling position is admitted within 1/1000 px; the dependency's sweep start-angle bias is a listed known finding; includes draws after layer pops / clear under a clip, under clip paths (SrcOver), 300 stops, 300-long strips.",
         "DESIGN.md section 4, C12"),
 "C13": ("bounded exhaustive enumeration of images x extend x filter x alpha x transforms; every fully covered pixel compared with a reference sampler",
         "Images 1x1..4x1 with all-distinct texels x Pad/Repeat x Nearest/Bilinear x alpha {1, 0.5, 0} x 9 CTMs x 46-102 source transforms (all integer translations in [-4,4]^2, quarter-pixel translations, scales, rotations) on 6x5 and 9x7, plus draw_image_at / draw_image_with_size_at at 81 positions x 5 sizes: exact texel for Nearest and integer translations, the 4-bit-weighted formula for Bilinear, edge clamp / modular wrap beyond the image, alpha scaling.",
         "Admits the neighbouring texel / weight step within the 16.16 coordinate slack; only pixels with full reference coverage are asserted; includes one-sided skews, a 300x300 image and 8200-long strips with near-identity sampling matrices.",
         "DESIGN.md section 4, C13"),

 "C04": ("bounded exhaustive enumeration of polylines x stroke styles x transforms; pixels compared with an analytic stroke region (union of convex pieces) plus a bit-exact differential against the filled stroke_to_path outline",
         "All 2-4 vertex polylines over a 4x4 user grid (every turning angle incl. exact reversals) x open with each cap / closed x widths x Round / Bevel / Miter with limits 0..10 x 7 transforms, two-subpath paths, flattened quads and cubics, degenerate widths: every pixel entirely inside the analytic region by more than the property's margin is fully painted, every pixel entirely outside by more than it untouched; straight strokes equal the NonZero fill of the transformed outline bit for bit; non-positive or NaN widths paint nothing.",
         "Round pieces are bracketed by inscribed / circumscribed polygons (error added to the margin); joins within 1e-4 of the miter limit are not asserted; curves are taken through Path::flatten (the property defines the region on the flattened polyline; validated by C16); includes EvenOdd-flagged paths, user units 1e-5 / 1e3 times the device ones, 100-300 subpaths.",
         "DESIGN.md section 4, C04"),
 "C08": ("bounded exhaustive enumeration of curved paths over off-grid control point sets x winding rules x transforms; pixels compared with an f64 fine flattening (winding number and distance to the outline)",
         "All single quads over a 6x6 control set (36^3), single cubics (4x4: 65k; thorough 36^4 = 1.68M), compound paths (quad+quad, cubic+line+quad+Close+quad, curve-first, curve after Close), arcs (3 radii x 8 starts x 10 sweeps), large curves on 36x36, both rules, 7 transforms, fill and clip: every pixel farther than 1 + sqrt(1/2) px from the f64 outline is fully painted iff the winding rule holds at its centre.",
         "adaptive f64 flattening (within 0.005 px of the curve; at least 96 segments); control points up to 3900 px away, chords up to 3900 px; arcs are modelled as true circular arcs with 0.5% r added to the margin.",
         "DESIGN.md section 4, C08"),
 "C09": ("bounded exhaustive enumeration of polylines x dash arrays x offsets x styles; the dasher's output (hook) compared with an independent arc-length dasher and the pixels with the stroke region of its pieces",
         "Open and closed polylines and two-subpath paths x all dash arrays of length 1-3 over {2,5,11,40,200} and length 4/6 over {3,7} x offsets of both signs up to +-10000.5 x caps/joins/widths: the pieces emitted by dash_path equal the on-intervals of M-DASH vertex for vertex (joined across a closed subpath's seam, complete closed outline when fully on), pixels match M-REGION of those pieces at 0.75 px, non-positive totals paint nothing.",
         "Cases with a dash boundary within 2e-3 of a vertex are not asserted (piece structure ambiguous there) except in the exact-arithmetic family (integer axis-aligned polylines, dyadic entries, boundaries 1-3 floats in front of a vertex; tolerance 1e-7); the overlapping-pieces rasteriser finding is listed; huge offsets are only combined with exactly representable periods; dash entries below 1e-3 are matched as dots by position.",
         "DESIGN.md section 4, C09"),

 "C11": ("bounded exhaustive differential exploration (bit-exact) of transform equivalences, plus the step oracle's transform-preservation clause",
         "fill(p) under each of 11 transforms vs fill(Path::transform(p,T)) under the identity for triangles over a 3x3 off-grid set, curves, arcs, even-odd ring, no-MoveTo path x 2 aa x 2 rules; stroke under T vs NonZero fill of the transformed stroke_to_path outline; CTM/source-transform cancellation for exactly invertible T (images pad/repeat x filters, raw gradients); singular T leaves the target unchanged for 10 calls (mask() included) x 4 contexts; push_clip_rect / mask / copy_surface / blend_surface ignore T; clear and pop_layer leave get_transform() bit-identical.",
         "Source positioning under general T is decided by C12/C13 (which enumerate CTMs); mask() under a singular T is held to 'a non-invertible T draws nothing' (its placement ignores T, its source does not); determinants down to 1e-10 and stroke scales 1/50..400 (true-curve reference with round joins) are included.",
         "DESIGN.md section 4, C11"),
}
NOT_YET = "check not built yet in this round (design in DESIGN.md section 4); will be claimed once its explorer exists"

props = [json.loads(l) for l in open(os.path.join(ROOT, "properties.jsonl"))]
hook_commits = subprocess.run(["git", "-C", "/repo", "log", "--format=%H %s"], capture_output=True, text=True).stdout.splitlines()
hook_commits = [l.split()[0] for l in hook_commits if "verif hook" in l]

checks, na = [], []
for p in props:
    pid = p["id"]
    if pid in CHECKS:
        tech, text, note, ref = CHECKS[pid]
        checks.append({
            "property_id": pid,
            "quick_cmd": f"./check {pid} quick",
            "thorough_cmd": f"./check {pid} thorough",
            "evidence_file": f"/verif/evidence/{pid}.json",
            "replay_cmd_template": "./check replay {path}",
            "engine": "raqote-mc",
            "level_claimed": {"category": "model_checking", "text": text, "design_ref": ref},
            "level_note": note,
            "technique": tech,
        })
    else:
        na.append({"property_id": pid, "reason": NOT_YET})

m = {
 "version": 1,
 "setup_cmd": "./setup.sh",
 "hooks": {
   "guard": "raqote_verif",
   "enable": "RUSTFLAGS --cfg raqote_verif, set in /verif/mc/.cargo/config.toml ([build] rustflags); the harness depends on /repo by path so every check rebuilds raqote from the working tree with the hooks on",
   "baseline_off_cmd": "cd /repo && cargo test --offline",
   "source_commits": hook_commits,
   "add_only": True,
 },
 "engines": [{
   "name": "raqote-mc",
   "path": "/verif/mc",
   "serves_properties": [c["property_id"] for c in checks],
   "kind_free_text": "stateless explicit-state explorer: enumerates every operation sequence / input shape of a finite alphabet up to a stated bound, executes each on the real raqote API (fresh DrawTarget per trace) and evaluates a reference model on every explored state; 16 worker threads with a static work split; replayable counterexamples",
 }],
 "checks": checks,
 "not_applicable": na,
 "notes": "All checks are bounded exhaustive explorations (no sampling; VERIF_SEED is recorded but unused). Known findings: /verif/known_findings.json. Replays: /verif/replays/<id>/<n>.scene.",
}
json.dump(m, open(os.path.join(ROOT, "MANIFEST.json"), "w"), indent=1)
print("checks:", len(checks), "not_applicable:", len(na))
