#!/bin/sh
# usage: tools/seeded_store.sh Cnn k newk [prefix]  -- confirm change k of a sub-agent worktree
# (tools/seeded_intake.sh) and, if confirmed, store it as seeded/Cnn-newk/
id=$1; k=$2; nk=$3; pre=${4:-/tmp/wt}
here=$(cd "$(dirname "$0")/.." && pwd)
out=$("$here/tools/seeded_intake.sh" $id $k $pre 2>&1)
echo "$out"
un=$(echo "$out" | sed -n '/unchanged tree/{n;p}')
ch=$(echo "$out" | sed -n '/demo with change/{n;p}')
bl=$(echo "$out" | sed -n '/baseline with change/{n;p}')
case "$un" in *"ok."*) ;; *) echo "NOT CONFIRMED: demo fails on the unchanged tree"; exit 1;; esac
case "$ch" in *FAILED*|*error*) ;; *) echo "NOT CONFIRMED: demo does not fail with the change"; exit 1;; esac
case "$bl" in *"ok. 44 passed"*) ;; *) echo "NOT CONFIRMED: baseline fails"; exit 1;; esac
d="$here/seeded/$id-$nk"; mkdir -p "$d"
cp "$pre-$id/change-$k.diff" "$d/patch.diff"; cp "$pre-$id/demo-$k.rs" "$d/demo.rs"; cp "$pre-$id/notes-$k.txt" "$d/notes.txt"
echo "STORED $d"
