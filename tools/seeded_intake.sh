#!/bin/sh
# usage: tools/seeded_intake.sh Cnn k     -- confirm a sub-agent's change in its scratch worktree
# (patch applies, baseline passes with it, demo fails with it and passes without it)
id=$1; k=$2; wt=${3:-/tmp/wt}-$id
cd $wt || exit 2
git checkout -q -- . ; rm -f tests/demo_$k.rs; mkdir -p tests
cp demo-$k.rs tests/demo_$k.rs
echo "== demo on unchanged tree:"; cargo test --offline --test demo_$k 2>&1 | grep -E "^test result|error" | head -3
git apply change-$k.diff || { echo "PATCH DOES NOT APPLY"; exit 1; }
echo "== demo with change:"; cargo test --offline --test demo_$k 2>&1 | grep -E "^test result|error(\[|:)" | head -3
rm -f tests/demo_$k.rs; rmdir tests 2>/dev/null
echo "== baseline with change:"; cargo test --offline 2>&1 | grep -E "^test result" | head -2
git checkout -q -- .
