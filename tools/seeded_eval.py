#!/usr/bin/env python3
"""Apply a property-breaking patch to /repo, run the baseline and the quick checks, undo.
usage: tools/seeded_eval.py <patch.diff> [Cnn ...]   (default: all checks)"""
import subprocess, sys, json, os, time
ROOT = os.path.dirname(os.path.dirname(os.path.abspath(__file__)))
patch = os.path.abspath(sys.argv[1])
ids = sys.argv[2:] or ["C%02d" % i for i in range(1, 21)]
def sh(cmd, **kw):
    return subprocess.run(cmd, shell=True, capture_output=True, text=True, **kw)
st = sh("git -C /repo status --porcelain --untracked-files=no").stdout.strip()
assert st == "", "/repo has local modifications: " + st
r = sh(f"git -C /repo apply {patch}")
assert r.returncode == 0, "patch does not apply: " + r.stderr
res = {"patch": patch}
try:
    if os.environ.get("SEEDED_SKIP_BASELINE"):
        res["baseline"] = "(not re-run; confirmed at intake)"
    else:
        t = sh("cd /repo && cargo test --offline 2>&1 | grep 'test result' | head -1")
        res["baseline"] = t.stdout.strip()
    for c in ids:
        t0 = time.time()
        r = sh(f"cd {ROOT} && ./check {c} quick")
        lines = [l for l in r.stdout.splitlines() if l.startswith(("VIOLATION", "KNOWN-FINDING", "PASS", "FAIL", "ERROR"))]
        verdict = "VIOLATION" if r.returncode == 1 else ("pass" if r.returncode == 0 else "ERROR")
        first = ""
        if r.returncode == 1:
            v = [l for l in lines if l.startswith("VIOLATION")]
            if v:
                rp = v[0].split("replay=")[1]
                try:
                    txt = open(rp).read().splitlines()
                    first = " | ".join(txt[2:4])[:300]
                except Exception:
                    pass
        res[c] = {"verdict": verdict, "exit": r.returncode, "wall_s": round(time.time() - t0, 1), "first": first}
        print(c, verdict, res[c]["wall_s"], "s", first[:200], flush=True)
finally:
    sh("git -C /repo checkout -- .")
print("baseline:", res.get("baseline"))
print(json.dumps(res))
